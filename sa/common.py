"""Check context: facts/analysis caches, violation reports, floors, known findings, evidence."""
import json
import os
import sys
import time

from .build import build_facts, VERIF
from .facts import Facts

KNOWN = os.path.join(VERIF, "known_findings.json")
FLOORS = os.path.join(VERIF, "sa", "floors.json")
REVIEWED = os.path.join(VERIF, "sa", "reviewed.json")

ASSUMPTIONS = {
    "A1": "rustc's dev-profile MIR (-Zmir-opt-level=0) is faithful; every panic edge is an Assert terminator or a call",
    "A2": "the reviewed summary table for core/alloc/std/crc callees (sa/vra/stdsum.py) is correct; crc update/finalize/checksum/digest are total",
    "A3": "64-bit target; an object performs fewer than 2^56 counter updates in its lifetime; slices are at most isize::MAX long",
    "A4": "caller-supplied code (Iterator::next, io::Read, embedded_hal::serial::Read, Borrow) returns and does not panic",
    "A5": "the allocator satisfies or aborts on requests that are linear in the input length",
    "A6": "Buffer/ByteSource/ByteSourceErr/lib::SmlParse are sealed and no local body contains unsafe (both re-checked as facts on every run)",
    "A7": "#[derive]d PartialEq is field-wise equality; Debug/Display/Clone/serde impls are outside the panic scope",
}


class Ctx:
    def __init__(self, prop, tier="quick", seed=0):
        self.prop, self.tier, self.seed = prop, tier, seed
        self.t0 = time.time()
        self._facts = {}
        self._analyses = {}
        self.build_info = {}
        self.violations = []
        self.counts = {}
        self.samples = []
        self.cov = {}
        self.assumptions = []
        self.obligations = 0
        self.discharged = 0
        self.nontrivial = 0
        self.explanation = ""
        self.rules = {}
        with open(FLOORS) as f:
            self.floors = json.load(f).get(prop, {})
        with open(REVIEWED) as f:
            self.reviewed = [r for r in json.load(f)["reviewed"] if prop in r.get("properties", [prop])]
        self.reviewed_used = set()

    # ---------------------------------------------------------------- inputs
    def facts(self, config="all"):
        if config not in self._facts:
            p, info = build_facts(config)
            self.build_info[config] = info
            self._facts[config] = Facts(p)
        return self._facts[config]

    def analysis(self, config="all", join_exits=None, name="default"):
        from .engine import Analysis
        key = (config, name)
        if key not in self._analyses:
            self._analyses[key] = Analysis(self.facts(config), join_exits)
        return self._analyses[key]

    # ---------------------------------------------------------------- outputs
    def rule(self, rid, text):
        self.rules[rid] = text
        self.counts.setdefault(rid, 0)

    def count(self, rid, n=1):
        self.counts[rid] = self.counts.get(rid, 0) + n

    def violation(self, rule, key, where, msg, data=None):
        """key: stable identity (no line numbers); where: (file, line, fn)"""
        k = "%s|%s" % (rule, key)
        for v in self.violations:
            if v["key"] == k:
                v["occurrences"] = v.get("occurrences", 1) + 1
                return
        self.violations.append({"rule": rule, "key": k, "file": where[0], "line": where[1],
                                "fn": where[2], "msg": msg, "data": data})

    def is_reviewed(self, rule, key):
        k = "%s|%s" % (rule, key)
        for r in self.reviewed:
            if r["key"] == k:
                self.reviewed_used.add(k)
                return r
        return None

    def sample(self, obj):
        if len(self.samples) < 12:
            self.samples.append(obj)

    def oblig(self, ok, nontrivial=True):
        self.obligations += 1
        if ok:
            self.discharged += 1
        if nontrivial:
            self.nontrivial += 1

    def include(self, other_prop, why):
        """run the rules of another property's check as part of this one (they are necessary conditions of this property as
        well); facts and analyses are shared, violations / counts / obligations are merged under their own rule ids"""
        import importlib
        child = Ctx(self.prop, self.tier, self.seed)
        child._facts, child._analyses, child.build_info = self._facts, self._analyses, self.build_info
        child.reviewed, child.floors = [], {}
        mod = importlib.import_module("sa.rules." + other_prop.lower())
        mod.run(child)
        for v in child.violations:
            if not any(x["key"] == v["key"] for x in self.violations):
                self.violations.append(v)
        for k, n in child.counts.items():
            self.counts[k] = self.counts.get(k, 0) + n
        for k, t in child.rules.items():
            self.rules.setdefault(k, t)
        self.obligations += child.obligations
        self.discharged += child.discharged
        self.nontrivial += child.nontrivial
        self.cov.setdefault("shared_rules", []).append({"from": other_prop, "why": why, "rules": sorted(child.rules)})

    # ---------------------------------------------------------------- finish
    def finish(self):
        # floors: a rule that matched fewer instances than counted by hand fails closed
        for rid, fl in self.floors.items():
            got = self.counts.get(rid, 0)
            if got < fl:
                self.violation("BELOW-FLOOR", rid, ("", 0, ""),
                               "rule %s matched %d instances, floor is %d (anchor lost or code restructured)" % (rid, got, fl))
        for r in self.reviewed:
            if r["key"] not in self.reviewed_used and r.get("tier", "quick") in ("quick", self.tier):
                self.violation("STALE-REVIEW", r["key"], ("", 0, ""), "reviewed-table entry no longer matches anything: " + r["key"])
        known = []
        try:
            with open(KNOWN) as f:
                kf = json.load(f)
            known = [k for k in kf.get("known", []) if k["property"] == self.prop]
        except FileNotFoundError:
            pass
        kkeys = {k["key"]: k for k in known}
        real = []
        seen = set()
        for v in self.violations:
            if v["key"] in kkeys:
                if v["key"] not in seen:
                    print("KNOWN-FINDING: property=%s %s" % (self.prop, kkeys[v["key"]]["what"]))
                    seen.add(v["key"])
                continue
            real.append(v)
        dry = bool(os.environ.get("VERIF_DRYRUN"))
        os.makedirs(os.path.join(VERIF, "replay"), exist_ok=True)
        os.makedirs(os.path.join(VERIF, "evidence"), exist_ok=True)
        wall = round(time.time() - self.t0, 2)
        for rid in sorted(self.counts):
            print("  rule %-18s instances=%-4d %s" % (rid, self.counts[rid], ("(floor %d)" % self.floors[rid]) if rid in self.floors else ""))
        print("  obligations=%d discharged=%d violations=%d wall=%.1fs" % (self.obligations, self.discharged, len(real), wall))
        for i, v in enumerate(real):
            rp = os.path.join(VERIF, "replay", "%s-%d.json" % (self.prop, i))
            if not dry:
                with open(rp, "w") as f:
                    json.dump(v, f, indent=1, default=str)
            print("  %s:%s: [%s] %s: %s" % (v["file"], v["line"], v["rule"], v["fn"], v["msg"]))
            print("VIOLATION property=%s replay=%s" % (self.prop, rp))
        cov = {
            "explanation": self.explanation,
            "evaluations": max(1, self.obligations + sum(self.counts.values())),
            "distinct_nontrivial": max(self.nontrivial, 0),
            "rule": "every obligation / rule instance enumerated from the MIR facts of /repo's working tree; "
                    "non-trivial = needed at least one non-constant fact (branch condition, invariant or linear relation)",
            "obligations": self.obligations,
            "discharged": self.discharged,
            "rule_instances": self.counts,
            "floors": self.floors,
            "rules": self.rules,
            "samples": self.samples,
            "facts": self.build_info,
            "known_findings_suppressed": sorted(seen),
            "checker_cmd": "./check %s --tier %s" % (self.prop, self.tier),
            "trusted_base": ["rustc nightly MIR", "sa/vra/stdsum.py summary table", "the analyser itself (canaries + seeded mutants are its test)"],
        }
        cov.update(self.cov)
        ev = {
            "property_id": self.prop, "tier": self.tier, "seed": self.seed, "level": "other",
            "coverage": cov, "assumptions": self.assumptions, "wall_s": wall, "violations": len(real),
        }
        if not dry:
            with open(os.path.join(VERIF, "evidence", "%s.json" % self.prop), "w") as f:
                json.dump(ev, f, indent=1, default=str)
        return 1 if real else 0

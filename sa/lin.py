"""Linear integer expressions  c + sum(a_i * s_i)  over symbol ids (immutable, hashable)."""


class Lin:
    __slots__ = ("c", "t", "_h")

    def __init__(self, c=0, t=()):
        self.c = c
        self.t = t  # tuple of (sym, coef), sorted by sym, coef != 0
        self._h = None

    # ---- construction
    @staticmethod
    def const(c):
        return Lin(int(c), ())

    @staticmethod
    def sym(s, a=1):
        return Lin(0, ((s, a),)) if a else Lin(0, ())

    @staticmethod
    def _from_dict(c, d):
        return Lin(c, tuple(sorted((s, a) for s, a in d.items() if a)))

    # ---- queries
    def is_const(self):
        return not self.t

    def single(self):
        """(sym, coef) if exactly one symbol, else None"""
        return self.t[0] if len(self.t) == 1 else None

    def syms(self):
        return [s for s, _ in self.t]

    def coef(self, s):
        for s2, a in self.t:
            if s2 == s:
                return a
        return 0

    # ---- arithmetic
    def __add__(self, o):
        if isinstance(o, int):
            return Lin(self.c + o, self.t)
        if not o.t:
            return Lin(self.c + o.c, self.t)
        if not self.t:
            return Lin(self.c + o.c, o.t)
        d = dict(self.t)
        for s, a in o.t:
            d[s] = d.get(s, 0) + a
        return Lin._from_dict(self.c + o.c, d)

    __radd__ = __add__

    def __neg__(self):
        return Lin(-self.c, tuple((s, -a) for s, a in self.t))

    def __sub__(self, o):
        if isinstance(o, int):
            return Lin(self.c - o, self.t)
        return self + (-o)

    def __rsub__(self, o):
        return (-self) + o

    def scale(self, k):
        if k == 0:
            return Lin(0, ())
        return Lin(self.c * k, tuple((s, a * k) for s, a in self.t))

    def subst(self, m):
        """substitute symbols by Lin (m: sym -> Lin); symbols not in m are kept"""
        r = Lin(self.c, ())
        for s, a in self.t:
            if s in m:
                r = r + m[s].scale(a)
            else:
                r = r + Lin.sym(s, a)
        return r

    # ---- identity
    def __eq__(self, o):
        return isinstance(o, Lin) and self.c == o.c and self.t == o.t

    def __hash__(self):
        if self._h is None:
            self._h = hash((self.c, self.t))
        return self._h

    def __repr__(self):
        if not self.t:
            return str(self.c)
        parts = []
        for s, a in self.t:
            if a == 1:
                parts.append("s%d" % s)
            elif a == -1:
                parts.append("-s%d" % s)
            else:
                parts.append("%d*s%d" % (a, s))
        r = " + ".join(parts).replace("+ -", "- ")
        if self.c:
            r += (" + %d" % self.c) if self.c > 0 else (" - %d" % -self.c)
        return r

"""Loading, indexing and pretty-printing of the MIR facts produced by mirfacts."""
import json


class Facts:
    def __init__(self, path):
        with open(path) as f:
            d = json.load(f)
        self.raw = d
        self.crate = d["crate"]
        self.features = d["features"]
        self.bodies = {b["def"]: b for b in d["bodies"]}
        self.promoted = {(b["def"], b["promoted"]): b for b in d["promoted"]}
        self.consts = {b["def"]: b for b in d.get("consts", []) if not b["def"].endswith("::_")}
        self.adts = {a["def"]: a for a in d["adts"]}
        self.traits = {t["def"]: t for t in d["traits"]}
        self.impls = d["impls"]
        self.statics = {s["def"]: s for s in d["statics"]}
        self.aliases = {a["def"]: a for a in d["aliases"]}
        self.ext_enums = {e["def"]: e for e in d.get("ext_enums", [])}
        for b in list(self.bodies.values()) + list(self.promoted.values()) + list(self.consts.values()):
            for i, bb in enumerate(b["blocks"]):
                bb["idx"] = i

    def body(self, name):
        return self.bodies[name]

    def find(self, suffix):
        """bodies whose def path ends with suffix"""
        return [b for n, b in self.bodies.items() if n.endswith(suffix)]

    def one(self, suffix):
        r = self.find(suffix)
        if len(r) != 1:
            raise KeyError("anchor %r matches %d bodies" % (suffix, len(r)))
        return r[0]


# ---------------------------------------------------------------- pretty printing

def pp_place(p):
    s = "_%d" % p["local"]
    for e in p["proj"]:
        k = e["k"]
        if k == "deref":
            s = "(*%s)" % s
        elif k == "field":
            s = "%s.%s" % (s, e.get("name", e["i"]))
        elif k == "downcast":
            s = "(%s as %s)" % (s, e["name"])
        elif k == "index":
            s = "%s[_%d]" % (s, e["local"])
        elif k == "cindex":
            s = "%s[%s%d]" % (s, "-" if e["from_end"] else "", e["off"])
        elif k == "subslice":
            s = "%s[%d..%s%d]" % (s, e["from"], "-" if e["from_end"] else "", e["to"])
        else:
            s = "%s.<%s>" % (s, k)
    return s


def pp_op(o):
    k = o["k"]
    if k in ("copy", "move"):
        return ("" if k == "copy" else "move ") + pp_place(o["place"])
    if k == "const":
        if "fn" in o:
            return "fn " + o["fn"]["path_with_args"]
        if "v" in o:
            return "%s_%s" % (o["v"], o["ty"]["s"])
        if "bytes" in o:
            return "const bytes%s" % (o["bytes"][:16],)
        if "promoted" in o:
            return "promoted[%d]" % o["promoted"]
        if "static" in o:
            return "static " + o["static"]
        if "tyconst" in o:
            return "const " + o["tyconst"]["s"]
        return "const " + o["s"]
    return str(o)


def pp_rv(rv):
    k = rv["k"]
    if k == "use":
        return pp_op(rv["op"])
    if k == "binop":
        return "%s(%s, %s)" % (rv["op"], pp_op(rv["l"]), pp_op(rv["r"]))
    if k == "unop":
        return "%s(%s)" % (rv["op"], pp_op(rv["x"]))
    if k == "ref":
        return "&%s%s" % ("mut " if rv["mut"] else "", pp_place(rv["place"]))
    if k == "rawptr":
        return "&raw %s" % pp_place(rv["place"])
    if k == "cast":
        return "%s as %s (%s)" % (pp_op(rv["op"]), rv["ty"]["s"], rv["ck"])
    if k == "discr":
        return "discriminant(%s)" % pp_place(rv["place"])
    if k == "repeat":
        return "[%s; %s]" % (pp_op(rv["op"]), rv["n"]["s"])
    if k == "aggregate":
        ops = ", ".join(pp_op(o) for o in rv["ops"])
        ak = rv["ak"]
        if ak == "adt":
            return "%s::%s{%s}" % (rv["def"], rv["variant_name"], ops)
        if ak == "closure":
            return "closure %s{%s}" % (rv["def"], ops)
        return "%s(%s)" % (ak, ops)
    return "?" + rv.get("s", k)


def pp_term(t):
    k = t["k"]
    if k == "goto":
        return "goto bb%d" % t["target"]
    if k == "switch":
        return "switch(%s) [%s, otherwise: bb%d]" % (
            pp_op(t["discr"]), ", ".join("%d: bb%d" % (v, b) for v, b in t["targets"]), t["otherwise"])
    if k == "call":
        c = t.get("callee")
        cn = c["path_with_args"] if c else pp_op(t["callee_op"])
        if c and "resolved" in c and c["resolved"]["path_with_args"] != cn:
            cn += " => " + c["resolved"]["path_with_args"]
        tgt = "bb%d" % t["target"] if t["target"] is not None else "!"
        return "%s = %s(%s) -> %s" % (pp_place(t["dest"]), cn, ", ".join(pp_op(a) for a in t["args"]), tgt)
    if k == "assert":
        extra = ""
        if t["ak"] == "Overflow":
            extra = "%s(%s,%s)" % (t["op"], pp_op(t["l"]), pp_op(t["r"]))
        elif t["ak"] == "BoundsCheck":
            extra = "idx %s < len %s" % (pp_op(t["index"]), pp_op(t["len"]))
        elif "x" in t:
            extra = pp_op(t["x"])
        return "assert(%s%s) %s %s -> bb%d" % ("" if t["expected"] else "!", pp_op(t["cond"]), t["ak"], extra, t["target"])
    if k == "drop":
        return "drop(%s) -> bb%d" % (pp_place(t["place"]), t["target"])
    return k + (" " + t["s"] if "s" in t else "")


def pp_body(b, out=None):
    lines = []
    lines.append("fn %s  [%s:%d] args=%d" % (b["def"], b["span"]["file"], b["span"]["line"], b["arg_count"]))
    for i, l in enumerate(b["locals"]):
        names = [d["name"] for d in b["debug"] if d["place"]["local"] == i and not d["place"]["proj"]]
        lines.append("  let _%d: %s%s" % (i, l["ty"]["s"], ("  // " + ",".join(names)) if names else ""))
    for bb in b["blocks"]:
        if bb["cleanup"]:
            continue
        lines.append(" bb%d:" % bb["idx"])
        for s in bb["stmts"]:
            if s["k"] == "assign":
                lines.append("    %s = %s    // L%d" % (pp_place(s["place"]), pp_rv(s["rv"]), s["span"]["line"]))
            elif s["k"] == "setdiscr":
                lines.append("    discriminant(%s) = %d" % (pp_place(s["place"]), s["variant"]))
            else:
                lines.append("    ?? " + s.get("s", ""))
        lines.append("    %s    // L%d" % (pp_term(bb["term"]), bb["tspan"]["line"]))
    return "\n".join(lines)


if __name__ == "__main__":
    import sys
    f = Facts(sys.argv[1])
    for b in f.find(sys.argv[2]):
        print(pp_body(b))


# ---------------------------------------------------------------- stable site descriptions

def local_names(b):
    m = {}
    for d in b["debug"]:
        if not d["place"]["proj"]:
            m.setdefault(d["place"]["local"], d["name"])
    return m


def named_place(b, p):
    names = local_names(b)
    s = names.get(p["local"], "_tmp")
    for e in p["proj"]:
        k = e["k"]
        if k == "deref":
            s = "*" + s
        elif k == "field":
            s = "%s.%s" % (s, e.get("name", e["i"]))
        elif k == "downcast":
            s = "%s as %s" % (s, e["name"])
        elif k in ("index", "cindex"):
            s = s + "[..]"
    return s


def named_op(b, o):
    if o["k"] in ("copy", "move"):
        return named_place(b, o["place"])
    if "v" in o:
        return str(o["v"])
    if "tyconst" in o:
        return o["tyconst"]["s"]
    return "const"


def assert_site(b, t):
    """line-number-free description of an Assert terminator"""
    ak = t["ak"]
    if ak == "Overflow":
        ty = t["l"].get("ty") or t["l"]["place"]["ty"]
        return "%s %s (%s, %s)" % (t["op"], ty["s"], named_op(b, t["l"]), named_op(b, t["r"]))
    if ak == "BoundsCheck":
        return "index (%s)" % named_op(b, t["index"])
    if "x" in t:
        return "%s (%s)" % (ak, named_op(b, t["x"]))
    return ak


def call_site(b, t):
    c = t.get("callee")
    if not c:
        return "indirect call"
    return "call " + c["def"]

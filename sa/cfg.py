"""CFG utilities over MIR facts: successors, dominators, reachability, call sites."""
from .vra.interp import term_succs, loops_of


class CFG:
    def __init__(self, body):
        self.body = body
        self.blocks = [b for b in body["blocks"]]
        self.succ = {}
        for b in self.blocks:
            if b["cleanup"]:
                continue
            self.succ[b["idx"]] = [s for s in term_succs(b["term"])]
        self.pred = {n: [] for n in self.succ}
        for n, ss in self.succ.items():
            for m in ss:
                if m in self.pred:
                    self.pred[m].append(n)
        self._dom = None
        self.reach = self._reach_from(0)

    def _reach_from(self, start, avoid=()):
        seen = set()
        work = [start]
        while work:
            n = work.pop()
            if n in seen or n in avoid or n not in self.succ:
                continue
            seen.add(n)
            work.extend(self.succ[n])
        return seen

    def reachable_from(self, start, avoid=()):
        return self._reach_from(start, avoid)

    def dominators(self):
        if self._dom is not None:
            return self._dom
        nodes = [n for n in self.succ if n in self.reach]
        dom = {n: set(nodes) for n in nodes}
        dom[0] = {0}
        changed = True
        while changed:
            changed = False
            for n in nodes:
                if n == 0:
                    continue
                ps = [p for p in self.pred[n] if p in dom]
                if not ps:
                    continue
                new = set.intersection(*(dom[p] for p in ps)) | {n}
                if new != dom[n]:
                    dom[n] = new
                    changed = True
        self._dom = dom
        return dom

    def dominates(self, a, b):
        return a in self.dominators().get(b, ())

    def calls(self):
        """[(bb, terminator)] of call terminators in reachable non-cleanup blocks"""
        return [(b["idx"], b["term"]) for b in self.blocks
                if not b["cleanup"] and b["idx"] in self.reach and b["term"]["k"] == "call"]

    def returns(self):
        return [b["idx"] for b in self.blocks if not b["cleanup"] and b["idx"] in self.reach and b["term"]["k"] == "return"]

    def loops(self):
        return loops_of(self.body)

    def every_path_passes(self, frm, to, through):
        """every path frm ->* to passes through a block in `through`"""
        r = self._reach_from(frm, avoid=set(through))
        return to not in r


def callee_name(t):
    c = t.get("callee")
    if not c:
        return None
    r = c.get("resolved")
    return r["def"] if r else c["def"]


def callee_names(t):
    c = t.get("callee")
    if not c:
        return ()
    r = c.get("resolved")
    return (c["def"],) + ((r["def"],) if r else ())

"""Build MIR facts for /repo's *current working tree* with the mirfacts driver.

The cargo target dir is always a fresh temp dir (cargo's freshness cache would skip the
wrapper). Facts are cached under /verif/.cache/<tree-hash>/<config>.json where tree-hash is
a content hash of everything the build reads (src/**, Cargo.toml, Cargo.lock, the driver
binary); any edit to /repo changes the hash and forces a rebuild."""
import fcntl
import hashlib
import os
import shutil
import subprocess
import sys
import tempfile
import time

VERIF = os.path.dirname(os.path.dirname(os.path.abspath(__file__)))
REPO = os.environ.get("VERIF_REPO", "/repo")
DRIVER = os.path.join(VERIF, "target", "release", "mirfacts")

CONFIGS = {
    "all": ["--all-features"],
    "default": [],
    "nodefault": ["--no-default-features"],
    "alloc": ["--no-default-features", "--features", "alloc"],
}


def _sysroot():
    return subprocess.check_output(["rustc", "+nightly", "--print", "sysroot"], text=True).strip()


def tree_hash(repo=None, extra=()):
    repo = repo or REPO
    h = hashlib.sha256()
    files = []
    for top in ("src", "examples"):
        for dp, dn, fn in os.walk(os.path.join(repo, top)):
            dn[:] = [d for d in dn if d != "target"]
            for f in fn:
                files.append(os.path.join(dp, f))
    for f in ("Cargo.toml", "Cargo.lock"):
        files.append(os.path.join(repo, f))
    for p in sorted(files):
        if os.path.isfile(p):
            h.update(os.path.relpath(p, repo).encode())
            h.update(b"\0")
            with open(p, "rb") as fh:
                h.update(fh.read())
            h.update(b"\0")
    with open(DRIVER, "rb") as fh:
        h.update(fh.read())
    for e in extra:
        h.update(str(e).encode())
    return h.hexdigest()[:20]


def ensure_driver():
    if not os.path.exists(DRIVER):
        subprocess.check_call(
            ["cargo", "build", "--release", "--offline"],
            cwd=os.path.join(VERIF, "mirfacts"),
            env=dict(os.environ, CARGO_TARGET_DIR=os.path.join(VERIF, "target"), CARGO_NET_OFFLINE="true"))


def build_facts(config="all", repo=None, crate="sml_rs", package="sml-rs", use_cache=True, quiet=True):
    """returns (path_to_json, info dict)"""
    repo = repo or REPO
    ensure_driver()
    th = tree_hash(repo, extra=(crate, package))
    cdir = os.path.join(VERIF, ".cache", th)
    os.makedirs(cdir, exist_ok=True)
    out = os.path.join(cdir, "%s.json" % config)
    lock = open(os.path.join(cdir, ".lock-%s" % config), "w")
    fcntl.flock(lock, fcntl.LOCK_EX)
    try:
        if use_cache and os.path.exists(out):
            return out, {"tree_hash": th, "cached": True, "config": config, "build_s": 0.0}
        t0 = time.time()
        tdir = tempfile.mkdtemp(prefix="mirfacts-target-")
        odir = tempfile.mkdtemp(prefix="mirfacts-out-")
        try:
            env = dict(os.environ)
            env.update({
                "LD_LIBRARY_PATH": _sysroot() + "/lib",
                "RUSTFLAGS": "-Zmir-opt-level=0 -Awarnings",
                "RUSTC_WORKSPACE_WRAPPER": DRIVER,
                "MIRFACTS_OUT": odir,
                "MIRFACTS_CRATES": crate,
                "CARGO_TARGET_DIR": tdir,
                "CARGO_NET_OFFLINE": "true",
            })
            cmd = ["cargo", "+nightly", "check", "-p", package, "--lib", "--offline"] + CONFIGS[config]
            r = subprocess.run(cmd, cwd=repo, env=env, stdout=subprocess.PIPE, stderr=subprocess.STDOUT, text=True)
            src = os.path.join(odir, crate + ".json")
            if r.returncode != 0 or not os.path.exists(src):
                sys.stderr.write(r.stdout[-4000:])
                raise RuntimeError("mirfacts build failed for config %s (exit %d, facts written: %s)"
                                   % (config, r.returncode, os.path.exists(src)))
            shutil.move(src, out + ".tmp")
            os.replace(out + ".tmp", out)
        finally:
            shutil.rmtree(tdir, ignore_errors=True)
            shutil.rmtree(odir, ignore_errors=True)
        _prune_cache(keep=th)
        return out, {"tree_hash": th, "cached": False, "config": config, "build_s": round(time.time() - t0, 2)}
    finally:
        fcntl.flock(lock, fcntl.LOCK_UN)
        lock.close()


def _prune_cache(keep, max_entries=48):
    root = os.path.join(VERIF, ".cache")
    ents = [(os.path.getmtime(os.path.join(root, e)), e) for e in os.listdir(root) if e != keep]
    ents.sort()
    now = time.time()
    while len(ents) > max_entries:
        mt, e = ents.pop(0)
        if now - mt < 900:
            break       # younger than 15 min: possibly in use by a concurrent check (the thorough tier runs many at once)
        shutil.rmtree(os.path.join(root, e), ignore_errors=True)


if __name__ == "__main__":
    cfg = sys.argv[1] if len(sys.argv) > 1 else "all"
    p, info = build_facts(cfg)
    print(p, info)

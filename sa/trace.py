"""Per-path call traces (SEQ / PATH / FLOW rules): the interpreter is run fully path-sensitively with
selected callees replaced by contracts, and every path carries the ordered list of calls it made."""
from .lin import Lin
from .vra.values import *
from .vra.state import ISIZE_MAX
from .vra import stdsum
from .vra.types import ty_str, subst, ty_args

RES = "std::result::Result"


def callee_key(callee, env=None):
    """stable description of a callee: resolved def, or trait method + (substituted) self type"""
    r = callee.get("resolved")
    if r and r.get("ik") == "item" and "trait" not in callee:
        return r["def"]
    if "trait" in callee:
        st = callee.get("self_ty")
        if st is not None and env:
            st = subst(st, env)
        return "<%s as %s>::%s" % (ty_str(st) if st else "?", callee["trait"], callee["method"])
    return (r or callee)["def"]


class Tracer:
    def __init__(self, A, select=None):
        self.A = A
        self.ip = A.ip
        self.select = select or (lambda key, callee: True)
        self.old_thr = None

    def __enter__(self):
        self.ip.on_call_result.append(self.hook)
        self.old_thr = self.ip.join_threshold
        self.ip.join_threshold = 10 ** 9
        return self

    def __exit__(self, *a):
        self.ip.on_call_result.remove(self.hook)
        self.ip.join_threshold = self.old_thr

    def hook(self, ip, frame, bb, t, callee, args, outs):
        key = callee_key(callee, frame.env)
        if not self.select(key, callee):
            return
        seen = set()
        for (s2, val) in outs:
            if id(s2) in seen:
                continue
            seen.add(id(s2))
            ev = {"key": key, "args": tuple(args), "ret": val, "fn": frame.body["def"], "bb": bb,
                  "line": frame.body["blocks"][bb]["tspan"]["line"], "fid": frame.fid, "callee": callee}
            s2.ghost["trace"] = s2.ghost.get("trace", ()) + (ev,)


def trace_of(st, fn=None):
    tr = st.ghost.get("trace", ())
    if fn is not None:
        tr = tuple(e for e in tr if e["fn"] == fn)
    return tr


def suffix_parser_contract(ip, frame, bb, st, callee, args, dest_ty):
    """contract of a parser call `fn(input, ..) -> Result<(rest, T), E>`: either an error or a value together with a
    suffix of the input (re-checked on the real bodies by R-C04-SUFFIX)"""
    sl = None
    for a in args:
        if isinstance(a, VSlice):
            sl = a
            break
    targs = ty_args(dest_ty)
    ok_ty, err_ty = targs[0], targs[1]
    b = st.copy()
    err = ip.fresh_value(b, err_ty, "parse-err")
    outs = [(b, stdsum.mk(RES, 1, err))]
    if ok_ty.get("k") == "tuple" and len(ok_ty["elems"]) == 2 and sl is not None:
        d = st.fresh(0, ISIZE_MAX, "consumed")
        try:
            st.assume_ge0(sl.n - Lin.sym(d))
        except Exception:
            return outs
        rest = VSlice(sl.root, sl.steps, sl.start + Lin.sym(d), sl.n - Lin.sym(d), False)
        val = ip.fresh_value(st, ok_ty["elems"][1], "parsed")
        outs.insert(0, (st, stdsum.mk(RES, 0, VAgg("tuple", None, (rest, val)))))
    else:
        outs.insert(0, (st, stdsum.mk(RES, 0, ip.fresh_value(st, ok_ty, "parsed"))))
    return outs

"""Type helpers over the ty-JSON emitted by mirfacts."""
import re

_LT = re.compile(r"'[A-Za-z_][A-Za-z0-9_]*\s*")

EXT_ENUMS = {
    # def path -> list of (variant name, [indexes into the *type* generic args for payload fields])
    "std::option::Option": [("None", []), ("Some", [0])],
    "std::result::Result": [("Ok", [0]), ("Err", [1])],
    "std::ops::ControlFlow": [("Continue", [1]), ("Break", [0])],
    "nb::Error": [("Other", [0]), ("WouldBlock", [])],
    "std::convert::Infallible": [],
}


def ty_args(ty):
    """type-level generic args (types only)"""
    return [a["ty"] for a in ty.get("args", []) if a["g"] == "ty"]


def ty_str(ty):
    """canonical string, lifetimes erased"""
    if ty is None:
        return "?"
    k = ty.get("k")
    if k in ("int", "bool", "char", "float", "str", "never"):
        return ty["s"]
    if k == "adt":
        args = []
        for a in ty.get("args", []):
            if a["g"] == "ty":
                args.append(ty_str(a["ty"]))
            elif a["g"] == "const":
                args.append(const_str(a["c"]))
        return ty["def"] + (("<" + ", ".join(args) + ">") if args else "")
    if k == "ref":
        return ("&mut " if ty["mut"] else "&") + ty_str(ty["to"])
    if k == "ptr":
        return ("*mut " if ty["mut"] else "*const ") + ty_str(ty["to"])
    if k == "slice":
        return "[" + ty_str(ty["of"]) + "]"
    if k == "array":
        return "[" + ty_str(ty["of"]) + "; " + const_str(ty["len"]) + "]"
    if k == "tuple":
        return "(" + ", ".join(ty_str(e) for e in ty["elems"]) + ")"
    if k == "param":
        return ty["name"]
    return _LT.sub("", ty.get("s", "?"))


def const_str(c):
    if c.get("ck") == "val":
        return str(c["v"])
    if c.get("ck") == "param":
        return c["name"]
    return c.get("s", "?")


def subst(ty, env):
    """substitute type/const params using env (name -> ty json | int | Lin-like)"""
    if not env or ty is None:
        return ty
    k = ty.get("k")
    if k == "param":
        r = env.get(ty["name"])
        if isinstance(r, dict):
            return r
        return ty
    if k == "adt":
        na = []
        ch = False
        for a in ty.get("args", []):
            if a["g"] == "ty":
                t2 = subst(a["ty"], env)
                ch = ch or (t2 is not a["ty"])
                na.append({"g": "ty", "ty": t2})
            elif a["g"] == "const":
                c2 = subst_const(a["c"], env)
                ch = ch or (c2 is not a["c"])
                na.append({"g": "const", "c": c2})
            else:
                na.append(a)
        if not ch:
            return ty
        r = dict(ty)
        r["args"] = na
        r["s"] = None
        return r
    if k in ("ref", "ptr"):
        t2 = subst(ty["to"], env)
        if t2 is ty["to"]:
            return ty
        r = dict(ty)
        r["to"] = t2
        return r
    if k == "slice":
        t2 = subst(ty["of"], env)
        if t2 is ty["of"]:
            return ty
        r = dict(ty)
        r["of"] = t2
        return r
    if k == "array":
        t2 = subst(ty["of"], env)
        c2 = subst_const(ty["len"], env)
        if t2 is ty["of"] and c2 is ty["len"]:
            return ty
        r = dict(ty)
        r["of"] = t2
        r["len"] = c2
        return r
    if k == "tuple":
        es = [subst(e, env) for e in ty["elems"]]
        if all(a is b for a, b in zip(es, ty["elems"])):
            return ty
        r = dict(ty)
        r["elems"] = es
        return r
    return ty


def subst_const(c, env):
    if c.get("ck") == "param":
        v = env.get(c["name"])
        if isinstance(v, int) and not isinstance(v, bool):
            return {"ck": "val", "v": v, "s": str(v)}
        if isinstance(v, bool):
            return {"ck": "val", "v": int(v), "s": str(v).lower()}
    return c


def unify(pat, ty, binds):
    """match pattern type (may contain params) against concrete type; fills binds"""
    k = pat.get("k")
    if k == "param":
        old = binds.get(pat["name"])
        if old is None:
            binds[pat["name"]] = ty
            return True
        return ty_str(old) == ty_str(ty)
    if k != ty.get("k"):
        return False
    if k == "adt":
        if pat["def"] != ty["def"]:
            return False
        pa = [a for a in pat.get("args", []) if a["g"] != "lt"]
        ta = [a for a in ty.get("args", []) if a["g"] != "lt"]
        if len(pa) != len(ta):
            return False
        for a, b in zip(pa, ta):
            if a["g"] != b["g"]:
                return False
            if a["g"] == "ty":
                if not unify(a["ty"], b["ty"], binds):
                    return False
            else:
                if a["c"].get("ck") == "param":
                    binds.setdefault(a["c"]["name"], b["c"].get("v", b["c"]))
                elif const_str(a["c"]) != const_str(b["c"]):
                    return False
        return True
    if k in ("ref", "ptr"):
        return pat["mut"] == ty["mut"] and unify(pat["to"], ty["to"], binds)
    if k == "slice":
        return unify(pat["of"], ty["of"], binds)
    if k == "array":
        if pat["len"].get("ck") == "param":
            binds.setdefault(pat["len"]["name"], ty["len"].get("v", ty["len"]))
        elif const_str(pat["len"]) != const_str(ty["len"]):
            return False
        return unify(pat["of"], ty["of"], binds)
    if k == "tuple":
        if len(pat["elems"]) != len(ty["elems"]):
            return False
        return all(unify(a, b, binds) for a, b in zip(pat["elems"], ty["elems"]))
    return ty_str(pat) == ty_str(ty)


def is_concrete(ty):
    k = ty.get("k")
    if k in ("param", "alias", "deep", "other"):
        return False
    if k == "adt":
        for a in ty.get("args", []):
            if a["g"] == "ty" and not is_concrete(a["ty"]):
                return False
            if a["g"] == "const" and a["c"].get("ck") != "val":
                return False
        return True
    if k in ("ref", "ptr"):
        return is_concrete(ty["to"])
    if k == "slice":
        return is_concrete(ty["of"])
    if k == "array":
        return is_concrete(ty["of"]) and ty["len"].get("ck") == "val"
    if k == "tuple":
        return all(is_concrete(e) for e in ty["elems"])
    return True


INT_TYS = {}
for _w in (8, 16, 32, 64, 128):
    INT_TYS["u%d" % _w] = {"k": "int", "w": _w, "sg": False, "ptr": False, "s": "u%d" % _w}
    INT_TYS["i%d" % _w] = {"k": "int", "w": _w, "sg": True, "ptr": False, "s": "i%d" % _w}
INT_TYS["usize"] = {"k": "int", "w": 64, "sg": False, "ptr": True, "s": "usize"}
INT_TYS["isize"] = {"k": "int", "w": 64, "sg": True, "ptr": True, "s": "isize"}
BOOL_TY = {"k": "bool", "s": "bool"}
UNIT_TY = {"k": "tuple", "elems": [], "s": "()"}

"""Function summaries for pure (value-argument) functions.

A summarisable function is analysed once per instance with fully symbolic arguments.  Each exit
becomes an outcome (constraints over parameter symbols and fresh symbols, return value, objects
created).  Obligations that cannot be discharged without knowing the caller are *lifted*: they
are stored with the path condition that reaches them and re-proved at every call site after
substituting the actual arguments (DESIGN 2.3 "obligation lifting")."""
from ..lin import Lin
from .state import State, Infeasible
from .values import *


MAX_LIFTED_PER_SITE = 6


class Mismatch(Exception):
    pass


class Summary:
    def __init__(self, key):
        self.key = key
        self.pargs = None
        self.mark0 = self.mark1 = 0
        self.init_mem = {}
        self.outcomes = []
        self.lifted = []
        self.failed = False
        self.uses = 0
        self.records = []


def _lin_syms_in_def(d):
    out = set()
    if isinstance(d, tuple):
        for x in d:
            if isinstance(x, Lin):
                out.update(x.syms())
    return out


def subst_def(d, ren):
    if isinstance(d, tuple):
        return tuple(x.subst(ren) if isinstance(x, Lin) else x for x in d)
    return d


def subst_bool(e, ren):
    k = e[0]
    if k == "cmp":
        return ("cmp", e[1], e[2].subst(ren), e[3].subst(ren))
    if k == "sym":
        r = ren.get(e[1])
        if r is None:
            return e
        sg = r.single()
        if r.is_const():
            return ("c", bool(r.c))
        if sg is not None and sg[1] == 1 and r.c == 0:
            return ("sym", sg[0])
        return ("cmp", "Ne", r, Lin.const(0))
    if k == "not":
        return ("not", subst_bool(e[1], ren))
    if k in ("and", "or"):
        return (k, subst_bool(e[1], ren), subst_bool(e[2], ren))
    return e


def subst_value(v, ren, rootmap):
    """ren: sym -> Lin ; rootmap: root -> (root, steps-prefix)"""
    if isinstance(v, VInt):
        return VInt(v.lin.subst(ren), v.w, v.sg)
    if isinstance(v, VBool):
        return VBool(subst_bool(v.e, ren))
    if isinstance(v, VAgg):
        return VAgg(v.kind, v.defn, [subst_value(e, ren, rootmap) for e in v.elems])
    if isinstance(v, VClos):
        return VClos(v.defn, [subst_value(e, ren, rootmap) for e in v.elems], v.env)
    if isinstance(v, VEnum):
        return VEnum(v.defn, v.disc.subst(ren),
                     {k: tuple(subst_value(e, ren, rootmap) for e in p) for k, p in v.pay.items()})
    if isinstance(v, VArr):
        return VArr([subst_value(e, ren, rootmap) for e in v.elems])
    if isinstance(v, VArrS):
        return VArrS(v.ety, v.n.subst(ren), subst_value(v.allv, ren, rootmap) if v.allv is not None else None)
    if isinstance(v, VRef):
        steps = tuple(("ix", s[1].subst(ren)) if s[0] == "ix" else s for s in v.steps)
        m = rootmap.get(v.root)
        if m is not None:
            return VRef(m[0], m[1] + steps, v.mut)
        return VRef(v.root, steps, v.mut)
    if isinstance(v, VSlice):
        steps = tuple(("ix", s[1].subst(ren)) if s[0] == "ix" else s for s in v.steps)
        m = rootmap.get(v.root)
        if m is not None:
            return VSlice(m[0], m[1] + steps, v.start.subst(ren), v.n.subst(ren), v.mut)
        return VSlice(v.root, steps, v.start.subst(ren), v.n.subst(ren), v.mut)
    return v


def value_syms_roots(vals, mem):
    """symbols and heap roots reachable from vals (following refs through mem)"""
    syms, roots = set(), set()
    work = list(vals)
    while work:
        v = work.pop()
        if isinstance(v, VInt):
            syms.update(v.lin.syms())
        elif isinstance(v, VBool):
            _bsyms(v.e, syms)
        elif isinstance(v, (VAgg, VArr, VClos)):
            work.extend(v.elems)
        elif isinstance(v, VEnum):
            syms.update(v.disc.syms())
            for p in v.pay.values():
                work.extend(p)
        elif isinstance(v, VArrS):
            syms.update(v.n.syms())
            if v.allv is not None:
                work.append(v.allv)
        elif isinstance(v, (VRef, VSlice)):
            if isinstance(v, VSlice):
                syms.update(v.start.syms())
                syms.update(v.n.syms())
            for s in v.steps:
                if s[0] == "ix":
                    syms.update(s[1].syms())
            if v.root not in roots:
                roots.add(v.root)
                t = mem.get(v.root)
                if t is not None:
                    work.append(t)
    return syms, roots


def _bsyms(e, out):
    k = e[0]
    if k == "cmp":
        out.update(e[2].syms())
        out.update(e[3].syms())
    elif k == "sym":
        out.add(e[1])
    elif k == "not":
        _bsyms(e[1], out)
    elif k in ("and", "or"):
        _bsyms(e[1], out)
        _bsyms(e[2], out)


def summarizable_args(ip, body, env):
    """all parameters are plain values: ints, bools, shared refs/slices to plain data"""
    from .types import subst

    def plain(ty, depth=0):
        k = ty.get("k")
        if depth > 5:
            return False
        if k in ("int", "bool", "char"):
            return True
        if k == "ref":
            if ty["mut"]:
                return False
            to = ty["to"]
            if to.get("k") in ("slice", "str"):
                return to.get("k") == "str" or plain(to["of"], depth + 1)
            return plain(to, depth + 1)
        if k == "tuple":
            return all(plain(e, depth + 1) for e in ty["elems"])
        if k == "array":
            return plain(ty["of"], depth + 1) and ty["len"].get("ck") == "val"
        if k == "adt":
            d = ty["def"]
            if d in ip.f.adts:
                adt = ip.f.adts[d]
                for vi in range(len(adt["variants"])):
                    for ft in ip.adt_fields(ty, vi):
                        if not plain(ft, depth + 1):
                            return False
                return True
            return False
        return False
    for i in range(body["arg_count"]):
        if not plain(subst(body["locals"][i + 1]["ty"], env)):
            return False
    return True


def compute(ip, body, env, key):
    from .interp import Frame, Unsupported
    from .types import subst
    S = Summary(key)
    st0 = State(ip.tab)
    S.mark0 = len(ip.tab.info)
    S.pargs = [ip.fresh_value(st0, subst(body["locals"][i + 1]["ty"], env), "sum:arg%d" % (i + 1))
               for i in range(body["arg_count"])]
    S.pargs = [_symbolic_starts(st0, v) for v in S.pargs]
    for r, v in list(st0.mem.items()):
        st0.mem[r] = _symbolic_starts(st0, v)
    S.mark1 = len(ip.tab.info)
    S.init_mem = dict(st0.mem)
    S.init_bounds = {p: st0.bounds(p) for p in range(S.mark0, S.mark1)}
    logmark = len(ip.log)
    ip.sum_stack.append(S)
    try:
        outs = ip.call_local_inline(None, None, st0.copy(), body, env, list(S.pargs), depth=len(ip.sum_stack) * 3)
    except Unsupported:
        S.failed = True
        outs = []
    finally:
        ip.sum_stack.pop()
    # lifted obligations whose goal is not connected (through the path facts) to any parameter symbol can
    # not be discharged by any caller: settle them here instead of re-lifting them through the call tree
    keep = []
    psyms = set(range(S.mark0, S.mark1))
    seen = set()
    for L in S.lifted:
        goal = L["goal"][0]
        gs = set()
        _bsyms(goal, gs)
        conn = set(gs)
        snap = L["snap"]
        for _ in range(4):
            grew = False
            for f in snap.facts:
                fs = f.syms()
                if any(x in conn for x in fs):
                    for x in fs:
                        if x not in conn:
                            conn.add(x)
                            grew = True
            if not grew:
                break
        if gs and not (conn & psyms):
            rec = dict(L["rec"])
            rec["detail"] += " [independent of the caller]"
            k = (rec["fn"], rec["bb"], rec["kind"])
            if ip.sum_stack:
                # inside an outer summary: still settle it once, globally
                pass
            if k not in ip.settled:
                ip.settled.add(k)
            ip.log.append(rec)
            continue
        dk = (L["rec"]["fn"], L["rec"]["bb"], repr(goal), tuple(sorted(repr(f) for f in snap.facts))[:40])
        if dk in seen:
            continue
        seen.add(dk)
        keep.append(L)
    # bound the number of path conditions kept per site; the overflow is settled as undischarged (conservative)
    per_site = {}
    kept2 = []
    for L in keep:
        k = (L["rec"]["fn"], L["rec"]["bb"], L["rec"]["kind"])
        per_site[k] = per_site.get(k, 0) + 1
        if per_site[k] <= MAX_LIFTED_PER_SITE:
            kept2.append(L)
        elif per_site[k] == MAX_LIFTED_PER_SITE + 1:
            rec = dict(L["rec"])
            rec["detail"] += " [more than %d path conditions reach this site; not lifted further]" % MAX_LIFTED_PER_SITE
            ip.log.append(rec)
    S.lifted = kept2
    # everything logged while computing the summary (discharged obligations, caller-independent failures,
    # loop observations) is replayed at every use: rounds of an enclosing fixpoint discard their log
    S.records = list(ip.log[logmark:])
    del ip.log[logmark:]
    for s2, val in outs:
        # purity check: parameter pointees untouched
        for r, v in S.init_mem.items():
            if s2.mem.get(r) != v:
                S.failed = True
        S.outcomes.append(extract(ip, S, s2, val))
    return S


def _symbolic_starts(st, v):
    """parameter slices get a symbolic start offset (bound to the actual slice's start at call sites)"""
    from .state import ISIZE_MAX
    if isinstance(v, VSlice):
        s = st.fresh(0, ISIZE_MAX, "sum:slice-start")
        return VSlice(v.root, v.steps, Lin.sym(s), v.n, v.mut)
    if isinstance(v, VAgg):
        return VAgg(v.kind, v.defn, [_symbolic_starts(st, e) for e in v.elems])
    if isinstance(v, VEnum):
        return VEnum(v.defn, v.disc, {k: tuple(_symbolic_starts(st, e) for e in p) for k, p in v.pay.items()})
    if isinstance(v, VArr):
        return VArr([_symbolic_starts(st, e) for e in v.elems])
    return v


def extract(ip, S, s2, val):
    psyms = set(range(S.mark0, S.mark1))
    vsyms, vroots = value_syms_roots([val], s2.mem)
    newroots = {r: s2.mem[r] for r in vroots if r not in S.init_mem and r in s2.mem and r[0] == "O"}
    live = set(vsyms) | psyms
    cons = []
    pending = list(s2.facts)
    for _ in range(3):
        rest, grew = [], False
        for f in pending:
            fs = f.syms()
            if any(x in live for x in fs):
                cons.append(f)
                for x in fs:
                    if x not in live:
                        live.add(x)
                        grew = True
            else:
                rest.append(f)
        pending = rest
        if not grew:
            break
    for p in psyms:
        lo, hi = s2.bounds(p)
        ilo, ihi = S.init_bounds[p]
        if lo is not None and lo != ilo:
            cons.append(Lin.sym(p) - lo)
        if hi is not None and hi != ihi:
            cons.append(Lin.const(hi) - Lin.sym(p))
    psets = {p: s2.sets[p] for p in psyms if p in s2.sets}
    news = sorted(x for x in live if x >= S.mark1)
    nrng = {x: s2.bounds(x) for x in news}
    nsets = {x: s2.sets[x] for x in news if x in s2.sets}
    neqs = [d for d in s2.neqs if all(x in live for x in d.syms())]
    return {"cons": cons, "psets": psets, "news": news, "nrng": nrng, "nsets": nsets, "neqs": neqs,
            "newroots": newroots, "val": val}


def match(ip, S, st, pv, av, ren, rootmap):
    """bind the parameter symbols/roots of pv to the actual value av"""
    if isinstance(pv, VInt):
        if not isinstance(av, VInt):
            raise Mismatch()
        sg = pv.lin.single()
        if sg is None:
            raise Mismatch()
        ren[sg[0]] = av.lin
        return
    if isinstance(pv, VBool):
        if not isinstance(av, VBool):
            raise Mismatch()
        p = pv.e[1]
        e = av.e
        if e[0] == "c":
            ren[p] = Lin.const(1 if e[1] else 0)
        elif e[0] == "sym":
            ren[p] = Lin.sym(e[1])
        else:
            q = st.fresh(0, 1, "bool-arg", ("bool", e))
            ren[p] = Lin.sym(q)
        return
    if isinstance(pv, VUnit):
        return
    if isinstance(pv, VAgg):
        if not isinstance(av, VAgg) or len(av.elems) != len(pv.elems):
            raise Mismatch()
        for x, y in zip(pv.elems, av.elems):
            match(ip, S, st, x, y, ren, rootmap)
        return
    if isinstance(pv, VEnum):
        if not isinstance(av, VEnum) or av.defn != pv.defn:
            raise Mismatch()
        sg = pv.disc.single()
        ren[sg[0]] = av.disc
        for var, pp in pv.pay.items():
            ap = av.pay.get(var)
            if ap is None:
                # variant absent in the actual value: its payload symbols stay unconstrained fresh ones
                for x in pp:
                    _fresh_bind(ip, S, st, x, ren, rootmap)
                continue
            for x, y in zip(pp, ap):
                match(ip, S, st, x, y, ren, rootmap)
        return
    if isinstance(pv, VArr):
        if not isinstance(av, VArr) or len(av.elems) != len(pv.elems):
            raise Mismatch()
        for x, y in zip(pv.elems, av.elems):
            match(ip, S, st, x, y, ren, rootmap)
        return
    if isinstance(pv, VSlice):
        if not isinstance(av, VSlice):
            raise Mismatch()
        rootmap[pv.root] = (av.root, av.steps)
        ren[pv.start.single()[0]] = av.start
        ren[pv.n.single()[0]] = av.n
        return
    if isinstance(pv, VRef):
        if not isinstance(av, VRef):
            raise Mismatch()
        rootmap[pv.root] = (av.root, av.steps)
        match(ip, S, st, S.init_mem[pv.root], ip.read_raw(st, av.root, av.steps), ren, rootmap)
        return
    raise Mismatch()


def _fresh_bind(ip, S, st, pv, ren, rootmap):
    syms, _ = value_syms_roots([pv], S.init_mem)
    for p in syms:
        if p not in ren:
            lo, hi = S.init_bounds.get(p, (None, None))
            ren[p] = Lin.sym(st.fresh(lo, hi, "unbound-param"))


def call(ip, frame, bb, st, body, env, args, key):
    """outcomes of calling body via its summary, or None if the arguments do not fit the summary shape"""
    S = ip.summaries.get(key)
    if S is None:
        S = compute(ip, body, env, key)
        ip.summaries[key] = S
        ip.stats["summaries"] = ip.stats.get("summaries", 0) + 1
    if S.failed:
        return None
    ren, rootmap = {}, {}
    try:
        if len(args) != len(S.pargs):
            raise Mismatch()
        for pv, av in zip(S.pargs, args):
            match(ip, S, st, pv, av, ren, rootmap)
    except Mismatch:
        return None
    S.uses += 1
    ip.stats["summary_uses"] = ip.stats.get("summary_uses", 0) + 1
    ip.log.extend(S.records)
    # lifted obligations first (they refer to the state before the call)
    for L in S.lifted:
        check_lifted(ip, frame, st, S, L, ren, rootmap)
    outs = []
    for oc in S.outcomes:
        s2 = st.copy()
        r2 = dict(ren)
        for n in oc["news"]:
            lo, hi = oc["nrng"][n]
            q = ip.tab.fresh(lo, hi, ip.tab.origin(n), None)
            r2[n] = Lin.sym(q)
            if n in oc["nsets"]:
                s2.sets[q] = oc["nsets"][n]
        for n in oc["news"]:
            d = ip.tab.defn(n)
            if d is not None:
                ip.tab.info[r2[n].single()[0]]["def"] = subst_def(d, r2)
        rm = dict(rootmap)
        for nr in oc["newroots"]:
            rm[nr] = (ip.new_oid("sum-obj"), ())
        try:
            apply_sets(s2, oc["psets"], r2)
            for c in oc["cons"]:
                s2.assume_ge0(c.subst(r2))
            for d in oc["neqs"]:
                s2.assume_ne0(d.subst(r2))
        except Infeasible:
            continue
        rm2 = _plain_rootmap(rm)
        for nr, v in oc["newroots"].items():
            s2.mem[rm[nr][0]] = subst_value(v, r2, rm2)
        outs.append((s2, _rebase(subst_value(oc["val"], r2, rm2), rm)))
    return outs


def _plain_rootmap(rm):
    return {k: (v[0], v[1]) for k, v in rm.items()}


def _rebase(v, rm):
    return v


def apply_sets(st, psets, ren):
    for p, vs in psets.items():
        lin = ren.get(p)
        if lin is None:
            continue
        c = st.const_of(lin)
        if c is not None:
            if c not in vs:
                raise Infeasible()
            continue
        sg = lin.single()
        if sg is not None and sg[1] == 1 and lin.c == 0:
            cur = st.values(sg[0])
            if cur is not None:
                nv = cur & vs
                if not nv:
                    raise Infeasible()
                st.sets[sg[0]] = nv
                st._set_bounds(sg[0], min(nv), max(nv))
            else:
                st.sets[sg[0]] = vs
                st._set_bounds(sg[0], min(vs), max(vs))


def check_lifted(ip, frame, st, S, L, ren, rootmap):
    from .interp import Frame
    snap = L["snap"]
    s3 = st.copy()
    r2 = dict(ren)
    # symbols created inside the summary before the obligation point: fresh copies
    for x in L["news"]:
        lo, hi = snap.bounds(x)
        q = ip.tab.fresh(lo, hi, ip.tab.origin(x), None)
        r2[x] = Lin.sym(q)
        if x in snap.sets:
            s3.sets[q] = snap.sets[x]
    vac = False
    try:
        apply_sets(s3, {p: snap.sets[p] for p in range(S.mark0, S.mark1) if p in snap.sets}, r2)
        for p in range(S.mark0, S.mark1):
            lo, hi = snap.bounds(p)
            ilo, ihi = S.init_bounds[p]
            if p in r2:
                if lo is not None and lo != ilo:
                    s3.assume_ge0(r2[p] - lo)
                if hi is not None and hi != ihi:
                    s3.assume_ge0(Lin.const(hi) - r2[p])
        for f in snap.facts:
            s3.assume_ge0(f.subst(r2))
        for d in snap.neqs:
            s3.assume_ne0(d.subst(r2))
    except Infeasible:
        vac = True
    rec = L["rec"]
    goal, want = L["goal"]
    g2 = subst_bool(goal, r2)
    ok = vac or ip.prove_bool(s3, g2, want)
    detail = rec["detail"]
    if "[lifted" not in detail:
        detail += " [lifted to the callers]"
    ip.emit_obligation(rec, ok, detail, s3, L, goal=(g2, want))

"""Path-sensitive abstract interpreter over MIR facts (value ranges, linear facts, typestate).

It never executes sml-rs code: it propagates abstract values (symbolic linear expressions
with interval/set bounds and linear side facts) along every CFG path of every reachable
function instance, joining at loop heads (after bounded unrolling) and, where configured,
at callee exits.  Every potential panic/overflow/out-of-bounds edge becomes an *obligation*
that must be discharged by the facts of the path reaching it."""
import sys

import math
from ..lin import Lin
from .state import State, SymTab, Infeasible, ty_range, NEG, ISIZE_MAX
from .values import *
from . import types as T
from .types import ty_str, subst, ty_args


def is_abstract(ty):
    """type whose methods cannot be resolved: a type parameter, projection or opaque impl-trait type"""
    k = ty.get("k")
    if k in ("param", "alias", "other", "deep", "dyn"):
        return True
    if k in ("ref", "ptr"):
        return is_abstract(ty["to"])
    return False


def subst_garg(a, env):
    if a["g"] == "ty":
        return {"g": "ty", "ty": subst(a["ty"], env)}
    if a["g"] == "const":
        return {"g": "const", "c": T.subst_const(a["c"], env)}
    return a

sys.setrecursionlimit(20000)

UNROLL = 9          # loop iterations followed path-sensitively before switching to fixpoint mode
MAX_UNROLL_STATES = 96
MAX_FIX_ITERS = 16
MAX_DEPTH = 40      # call-inlining depth
MAX_REC = 4         # same instance on the stack


PURE_DEFS = ("rem", "and", "div", "shr", "shl_trunc", "trunc", "wrap", "le_byte", "swap_bytes", "lz")


class Unsupported(Exception):
    pass


class Frame:
    __slots__ = ("fid", "body", "env", "depth", "site")

    def __init__(self, fid, body, env, depth, site):
        self.fid, self.body, self.env, self.depth, self.site = fid, body, env, depth, site


class Addr:
    __slots__ = ("root", "steps", "slice")

    def __init__(self, root, steps=(), slice=None):
        self.root, self.steps, self.slice = root, tuple(steps), slice


def loops_of(body):
    """natural loops: {head: set(body blocks)}"""
    blocks = body["blocks"]
    succ = {}
    for bb in blocks:
        if bb["cleanup"]:
            continue
        succ[bb["idx"]] = term_succs(bb["term"])
    color = {}
    back = []
    stack = [(0, iter(succ.get(0, [])))]
    color[0] = 1
    while stack:
        n, it = stack[-1]
        adv = False
        for m in it:
            if m not in succ:
                continue
            if color.get(m, 0) == 0:
                color[m] = 1
                stack.append((m, iter(succ[m])))
                adv = True
                break
            elif color[m] == 1:
                back.append((n, m))
        if not adv:
            color[n] = 2
            stack.pop()
    pred = {}
    for n, ss in succ.items():
        for m in ss:
            pred.setdefault(m, []).append(n)
    loops = {}
    for n, h in back:
        bset = loops.setdefault(h, {h})
        work = [n]
        while work:
            x = work.pop()
            if x in bset:
                continue
            bset.add(x)
            work.extend(pred.get(x, []))
    return loops


def term_succs(t):
    k = t["k"]
    if k == "goto":
        return [t["target"]]
    if k == "switch":
        return [b for _, b in t["targets"]] + [t["otherwise"]]
    if k in ("call", "assert", "drop"):
        return [t["target"]] if t.get("target") is not None else []
    return []


class Interp:
    def __init__(self, facts, join_exits=None):
        self.f = facts
        self.tab = SymTab()
        self.log = []            # obligations and observations (scoped)
        self.fid = 0
        self.oid = 0
        self._loops = {}
        self._thresholds = {}
        self._live = {}
        self._no_unroll = set()
        self.extern = {}         # def path -> summary fn (filled by stdsum)
        self.contracts = {}      # (trait, method) -> summary fn for calls on type parameters
        self.on_call = []        # hooks(interp, frame, term, st, callee_name, args)
        self.on_call_result = [] # hooks(interp, frame, bb, term, callee, args, outcomes)
        self.on_assign = []      # hooks(interp, frame, bb, stmt, st, val)
        self.on_return = []      # hooks(interp, frame, st, val)
        self.def_cache = {}
        self.source_calls = False   # set by the totality rules: ghost count of items taken from abstract sources (L4)
        self.on_block = []       # hooks(interp, frame, bb, st): at the start of every basic block
        self.join_exits = join_exits or (lambda body: False)
        self.stack = []          # def names of active frames
        self.istack = []         # instance keys of active frames
        self.visited = {}        # instance key -> count
        self.impl_index = None
        self.join_threshold = 6  # callee exits are joined per outcome class when there are more outcomes than this
        self.settled = set()     # obligation sites settled at summary level
        self.sum_stack = []      # summaries being computed (innermost last)
        self.summaries = {}      # instance key -> Summary
        self.summarizable = None # predicate(body): analyse via a function summary
        self.ts = None           # typestate hook object (engine.Analysis)
        self.opaque_fn = None    # predicate(callee json): treat the call as an opaque total function
        self.cparams = {}        # const generic name -> global symbol (shared by all states)
        self.stats = {"steps": 0, "paths": 0, "calls": 0, "joins": 0, "loops_unrolled": 0, "loops_fix": 0}
        from . import stdsum
        stdsum.install(self)

    # =============================================================== logging
    def oblige(self, kind, frame, bb, ok, detail="", st=None, label="", goal=None):
        """record an obligation.  Inside a summary computation an undischarged obligation is *lifted*:
        stored with the path condition and re-proved at every call site of the summary."""
        from ..facts import assert_site, call_site
        b = frame.body
        blk = b["blocks"][bb] if bb is not None else None
        sp = blk["tspan"] if blk else b["span"]
        site = label
        if blk is not None:
            t = blk["term"]
            if t["k"] == "assert":
                site = assert_site(b, t)
            elif t["k"] == "call":
                site = call_site(b, t) + ((" " + label) if label else "")
        rec = {
            "t": "obl", "kind": kind, "fn": b["def"], "bb": bb, "file": sp["file"], "line": sp["line"],
            "ok": bool(ok), "detail": detail, "ctx": tuple(self.stack[-6:]), "site": site,
            "inst": self.inst_key(frame), "exp": sp.get("exp", False),
        }
        if not ok and self.sum_stack and st is not None and kind not in ("EXT",):
            S = self.sum_stack[-1]
            if goal is None:
                goal = (("c", False), True)      # "this point is unreachable"
            news = sorted(x for x in (set(st.rng) | set(st.sets) | {y for f in st.facts for y in f.syms()})
                          if x >= S.mark1)
            S.lifted.append({"snap": st.copy(), "goal": goal, "rec": rec, "news": news})
            return
        self.log.append(rec)

    def emit_obligation(self, rec, ok, detail, st, L, goal=None):
        """re-emit a lifted obligation in the context of a call site (possibly lifting it again)"""
        rec = dict(rec)
        rec["ok"] = bool(ok)
        rec["detail"] = detail
        rec["ctx"] = tuple(self.stack[-6:])
        if not ok and self.sum_stack:
            S = self.sum_stack[-1]
            news = sorted(x for x in (set(st.rng) | set(st.sets) | {y for f in st.facts for y in f.syms()})
                          if x >= S.mark1)
            S.lifted.append({"snap": st.copy(), "goal": goal or (("c", False), True), "rec": rec, "news": news})
            return
        self.log.append(rec)

    def observe(self, rec):
        rec = dict(rec)
        rec["t"] = "obs"
        self.log.append(rec)

    def inst_key(self, frame):
        env = frame.env
        if not env:
            return frame.body["def"]
        parts = []
        for k in sorted(env):
            v = env[k]
            parts.append("%s=%s" % (k, ty_str(v) if isinstance(v, dict) else v))
        return frame.body["def"] + "{" + ",".join(parts) + "}"

    # =============================================================== ids / fresh values
    def new_oid(self, tag="o"):
        self.oid += 1
        return ("O", self.oid, tag)

    def fresh_int(self, st, w, sg, origin="", defn=None, lo=None, hi=None):
        if defn is not None and defn[0] in ("shl_trunc", "wrap", "trunc") and self.stack:
            self.observe({"kind": "lossy", "fn": self.stack[-1], "what": defn[0], "detail": repr(defn[1:])})
        l, h = ty_range(w, sg)
        if lo is not None:
            l = max(l, lo)
        if hi is not None:
            h = min(h, hi)
        # pure operations of immutable symbols: the same definition denotes the same value (hash-consing)
        key = None
        if defn is not None and defn[0] in PURE_DEFS:
            try:
                key = (defn, l, h)
                hash(key)
            except TypeError:
                key = None
            if key is not None:
                s = self.def_cache.get(key)
                if s is not None:
                    return VInt(Lin.sym(s), w, sg)
        s = st.fresh(l, h, origin, defn)
        if key is not None:
            self.def_cache[key] = s
        return VInt(Lin.sym(s), w, sg)

    def adt_fields(self, ty, variant):
        """substituted field types of a local ADT variant"""
        adt = self.f.adts[ty["def"]]
        env = {}
        names = adt.get("generics", [])
        args = ty.get("args", [])
        for n, a in zip(names, args):
            if a["g"] == "ty":
                env[n] = a["ty"]
            elif a["g"] == "const":
                if a["c"].get("ck") == "val":
                    env[n] = a["c"]["v"]
        var = adt["variants"][variant]
        return [subst(fl["ty"], env) for fl in var["fields"]]

    def fresh_value(self, st, ty, origin="", depth=0, env=None):
        if env:
            ty = subst(ty, env)
        k = ty.get("k")
        if k == "int":
            return self.fresh_int(st, ty["w"], ty["sg"], origin)
        if k == "bool":
            s = st.fresh(0, 1, origin)
            return VBool(("sym", s))
        if k == "tuple":
            if not ty["elems"]:
                return UNIT
            return VAgg("tuple", None, [self.fresh_value(st, e, origin + "." + str(i), depth + 1)
                                        for i, e in enumerate(ty["elems"])])
        if k == "never":
            return VOpq(ty, "never")
        if k == "adt":
            d = ty["def"]
            if d in self.f.adts and depth < 8:
                adt = self.f.adts[d]
                if adt["kind"] == "struct":
                    ftys = self.adt_fields(ty, 0)
                    names = [fl["name"] for fl in adt["variants"][0]["fields"]]
                    return VAgg("struct", d, [self.fresh_value(st, t, origin + "." + n, depth + 1)
                                              for t, n in zip(ftys, names)])
                if adt["kind"] == "enum":
                    nv = len(adt["variants"])
                    if nv == 0:
                        return VOpq(ty, "never")
                    for v in adt["variants"]:
                        if v["discr"] != v["idx"]:
                            raise Unsupported("enum with explicit discriminants: " + d)
                    ds = st.fresh(0, nv - 1, origin + ".<discr>")
                    pay = {}
                    for v in adt["variants"]:
                        ftys = self.adt_fields(ty, v["idx"])
                        pay[v["idx"]] = tuple(
                            self.fresh_value(st, t, origin + "." + v["name"] + "." + fl["name"], depth + 1)
                            for t, fl in zip(ftys, v["fields"]))
                    return VEnum(d, Lin.sym(ds), pay)
            if d in T.EXT_ENUMS and depth < 8:
                lay = T.EXT_ENUMS[d]
                if not lay:
                    return VOpq(ty, "never")
                targs = ty_args(ty)
                ds = st.fresh(0, len(lay) - 1, origin + ".<discr>")
                pay = {}
                for i, (vn, idxs) in enumerate(lay):
                    pay[i] = tuple(self.fresh_value(st, targs[j], origin + "." + vn, depth + 1) for j in idxs)
                return VEnum(d, Lin.sym(ds), pay)
            return VOpq(ty, origin)
        if k == "ref":
            to = ty["to"]
            tk = to.get("k")
            if tk == "slice" or tk == "str":
                ety = to.get("of", T.INT_TYS["u8"])
                n = st.fresh(0, ISIZE_MAX, origin + ".len")
                root = self.new_oid("bytes:" + origin)
                st.mem[root] = VArrS(ety, Lin.sym(n))
                return VSlice(root, (), Lin.const(0), Lin.sym(n), ty["mut"])
            root = self.new_oid("ref:" + origin)
            st.mem[root] = self.fresh_value(st, to, origin + ".*", depth + 1)
            return VRef(root, (), ty["mut"])
        if k == "array":
            ln = ty["len"]
            if ln.get("ck") == "val":
                n = ln["v"]
                if n <= 16:
                    return VArr([self.fresh_value(st, ty["of"], origin + "[%d]" % i, depth + 1) for i in range(n)])
                return VArrS(ty["of"], Lin.const(n))
            if ln.get("ck") == "param":
                return VArrS(ty["of"], self.const_param(st, ln["name"], None))
            raise Unsupported("array length " + str(ln))
        return VOpq(ty, origin)

    def const_param(self, st, name, frame):
        """value (Lin) of a const generic parameter: concrete from env, else one shared symbol per name"""
        if frame is not None and name in frame.env and not isinstance(frame.env[name], dict):
            v = frame.env[name]
            if isinstance(v, Lin):
                return v
            return Lin.const(int(v))
        s = self.cparams.get(name)
        if s is None:
            s = self.tab.fresh(0, ISIZE_MAX, "const " + name)
            self.cparams[name] = s
        return Lin.sym(s)

    # =============================================================== memory
    def resolve(self, frame, place, st):
        root = ("L", frame.fid, place["local"])
        steps = ()
        sl = None
        for e in place["proj"]:
            k = e["k"]
            if k == "deref":
                v = self.read_raw(st, root, steps)
                if isinstance(v, VRef):
                    root, steps, sl = v.root, v.steps, None
                elif isinstance(v, VSlice):
                    root, steps, sl = v.root, v.steps, (v.start, v.n)
                else:
                    raise Unsupported("deref of %r" % (v,))
            elif k == "field":
                if sl is not None:
                    raise Unsupported("field of slice")
                steps = steps + (("f", e["i"]),)
            elif k == "downcast":
                steps = steps + (("v", e["v"]),)
            elif k == "index":
                iv = self.read_raw(st, ("L", frame.fid, e["local"]), ())
                off = iv.lin
                if sl is not None:
                    off = off + sl[0]
                    sl = None
                steps = steps + (("ix", off),)
            elif k == "cindex":
                if e["from_end"]:
                    # element `len - off` (slice patterns such as [.., last])
                    if sl is None:
                        base = self.read_raw(st, root, steps)
                        if not isinstance(base, VArr):
                            raise Unsupported("cindex from end of %r" % (base,))
                        off = Lin.const(len(base.elems) - e["off"])
                    else:
                        off = sl[0] + sl[1] - e["off"]
                        sl = None
                else:
                    off = Lin.const(e["off"])
                    if sl is not None:
                        off = off + sl[0]
                        sl = None
                steps = steps + (("ix", off),)
            elif k == "subslice":
                # slice patterns `[a, rest @ ..]`: [from .. len - to] (from_end) or [from .. to]
                if sl is None:
                    base = self.read_raw(st, root, steps)
                    if isinstance(base, VArr):
                        sl = (Lin.const(0), Lin.const(len(base.elems)))
                    elif isinstance(base, VArrS):
                        sl = (Lin.const(0), base.n)
                    else:
                        raise Unsupported("subslice of %r" % (base,))
                if e["from_end"]:
                    sl = (sl[0] + e["from"], sl[1] - e["from"] - e["to"])
                else:
                    sl = (sl[0] + e["from"], Lin.const(e["to"] - e["from"]))
            else:
                raise Unsupported("projection " + k)
        return Addr(root, steps, sl)

    def read_raw(self, st, root, steps):
        v = st.mem.get(root)
        if v is None:
            raise Unsupported("read of unset root %r" % (root,))
        done = ()
        for s in steps:
            if isinstance(v, VOpq):
                nv = self.materialize(st, v)
                if nv is None:
                    raise Unsupported("projection %r into opaque %r" % (s, v))
                self.write_raw(st, root, done, nv)
                v = nv
            if s[0] == "ix" and isinstance(v, VArrS) and v.allv is None:
                # element of a summarised array: the same (unwritten) element always reads as the same value
                key = ("elem", root, done, s[1])
                ev = st.ghost.get(key)
                if ev is None:
                    ev = self.fresh_value(st, v.ety, "elem")
                    st.ghost[key] = ev
                v = ev
            else:
                v = self.descend(st, v, s)
            done = done + (s,)
        return v

    def materialize(self, st, v):
        ty = v.ty
        if ty is None:
            return None
        k = ty.get("k")
        if k in ("adt", "tuple", "array"):
            nv = self.fresh_value(st, ty, v.tag or "mat")
            if isinstance(nv, VOpq):
                return None
            return nv
        return None

    def descend(self, st, v, s):
        k = s[0]
        if k == "f":
            if isinstance(v, (VAgg, VClos)):
                return v.elems[s[1]]
            raise Unsupported("field %d of %r" % (s[1], v))
        if k == "v":
            if isinstance(v, VEnum):
                p = v.pay.get(s[1])
                if p is None:
                    raise Unsupported("downcast to dead variant %d of %r" % (s[1], v))
                return VAgg("variant", None, p)
            raise Unsupported("downcast of %r" % (v,))
        if k == "ix":
            lin = s[1]
            if isinstance(v, VArr):
                c = st.const_of(lin)
                if c is not None:
                    if 0 <= c < len(v.elems):
                        return v.elems[c]
                    raise Unsupported("constant index %d out of range %d" % (c, len(v.elems)))
                lo, hi = st.interval(lin)
                cands = [e for i, e in enumerate(v.elems) if (lo is None or i >= lo) and (hi is None or i <= hi)]
                if not cands:
                    raise Unsupported("no feasible index")
                r = cands[0]
                if all(c == r for c in cands[1:]):
                    return r
                return self.generalize(st, cands)
            if isinstance(v, VArrS):
                if v.allv is not None:
                    return v.allv
                return self.fresh_value(st, v.ety, "elem")
            if isinstance(v, (VInt, VBool)):
                return v   # 1-element view of a scalar (slice::from_mut)
            raise Unsupported("index into %r" % (v,))
        raise Unsupported("step %r" % (s,))

    def generalize(self, st, cands):
        """a value covering all candidates (same shape), ints get a fresh symbol with the hull range"""
        c0 = cands[0]
        if isinstance(c0, VInt):
            lo = hi = None
            first = True
            for c in cands:
                l, h = st.interval(c.lin)
                if first:
                    lo, hi, first = l, h, False
                else:
                    lo = None if (lo is None or l is None) else min(lo, l)
                    hi = None if (hi is None or h is None) else max(hi, h)
            return self.fresh_int(st, c0.w, c0.sg, "gen", None, lo, hi)
        if isinstance(c0, VBool):
            return VBool(("sym", st.fresh(0, 1, "gen")))
        raise Unsupported("generalize %r" % (c0,))

    def write_raw(self, st, root, steps, val):
        if st.ghost:
            for k in [k for k in st.ghost if isinstance(k, tuple) and k and k[0] in ("deref", "elem") and k[1] == root]:
                del st.ghost[k]
        if not steps:
            st.mem[root] = val
            return
        old = st.mem.get(root)
        if old is None:
            raise Unsupported("write into unset root %r" % (root,))
        st.mem[root] = self.update(st, old, steps, val)

    def update(self, st, v, steps, val):
        if not steps:
            return val
        s = steps[0]
        rest = steps[1:]
        if isinstance(v, VOpq):
            nv = self.materialize(st, v)
            if nv is None:
                raise Unsupported("write projection %r into opaque %r" % (s, v))
            v = nv
        k = s[0]
        if k == "f":
            if isinstance(v, VAgg):
                el = list(v.elems)
                el[s[1]] = self.update(st, el[s[1]], rest, val)
                return VAgg(v.kind, v.defn, el)
            if isinstance(v, VClos):
                el = list(v.elems)
                el[s[1]] = self.update(st, el[s[1]], rest, val)
                return VClos(v.defn, el, v.env)
            raise Unsupported("write field of %r" % (v,))
        if k == "v":
            if isinstance(v, VEnum) and rest and rest[0][0] == "f":
                p = v.pay.get(s[1])
                if p is None:
                    raise Unsupported("write into dead variant")
                p = list(p)
                i = rest[0][1]
                p[i] = self.update(st, p[i], rest[1:], val)
                np = dict(v.pay)
                np[s[1]] = tuple(p)
                return VEnum(v.defn, v.disc, np)
            raise Unsupported("write downcast of %r" % (v,))
        if k == "ix":
            lin = s[1]
            if isinstance(v, VArr):
                c = st.const_of(lin)
                el = list(v.elems)
                if c is not None:
                    if not (0 <= c < len(el)):
                        raise Unsupported("constant write index out of range")
                    el[c] = self.update(st, el[c], rest, val)
                    return VArr(el)
                lo, hi = st.interval(lin)
                for i in range(len(el)):
                    if (lo is None or i >= lo) and (hi is None or i <= hi):
                        nv = self.update(st, el[i], rest, val)
                        el[i] = nv if nv == el[i] else self.generalize(st, [el[i], nv])
                return VArr(el)
            if isinstance(v, VArrS):
                return VArrS(v.ety, v.n, None)
            if isinstance(v, (VInt, VBool)):
                return val
            raise Unsupported("write index into %r" % (v,))
        raise Unsupported("write step %r" % (s,))

    def read_place(self, frame, place, st):
        a = self.resolve(frame, place, st)
        if a.slice is not None:
            raise Unsupported("read of unsized place")
        return self.read_raw(st, a.root, a.steps)

    def write_place(self, frame, place, st, val):
        a = self.resolve(frame, place, st)
        if a.slice is not None:
            raise Unsupported("write of unsized place")
        self.write_raw(st, a.root, a.steps, val)

    # =============================================================== operands / rvalues
    def eval_operand(self, frame, o, st):
        k = o["k"]
        if k in ("copy", "move"):
            return self.read_place(frame, o["place"], st)
        if k == "const":
            return self.eval_const(frame, o, st)
        raise Unsupported("operand " + k)

    def eval_const(self, frame, o, st):
        ty = o["ty"]
        tk = ty.get("k")
        if "fn" in o:
            return VFn(o["fn"])
        if "v" in o:
            if tk == "int":
                return cint(o["v"], ty["w"], ty["sg"])
            if tk == "bool":
                return TRUE if o["v"] else FALSE
            if tk == "char":
                return cint(o["v"], 32, False)
            raise Unsupported("scalar const of type " + ty_str(ty))
        if "tyconst" in o:
            c = o["tyconst"]
            if c.get("ck") == "param":
                lin = self.const_param(st, c["name"], frame)
                if tk == "bool":
                    cv = st.const_of(lin)
                    if cv is None:
                        return VBool(("cmp", "Ne", lin, Lin.const(0)))
                    return TRUE if cv else FALSE
                return VInt(lin, ty.get("w", 64), ty.get("sg", False))
            if c.get("ck") == "val":
                if tk == "bool":
                    return TRUE if c["v"] else FALSE
                v_ = c["v"]
                if ty["sg"] and v_ >= (1 << (ty["w"] - 1)):
                    v_ -= 1 << ty["w"]        # valtree leaves are raw bits
                return cint(v_, ty["w"], ty["sg"])
            raise Unsupported("type-level const " + str(c))
        if "destructured" in o:
            v = self.value_of_destructured(o["destructured"])
            if v is not None:
                return v
        if "uneval" in o and "promoted" not in o:
            cb = getattr(self.f, "consts", {}).get(o["uneval"])
            if cb is not None:
                env = self.env_for(cb, o.get("uargs", []), frame.env)
                self.fid += 1
                fr = Frame(self.fid, cb, env, frame.depth + 1, None)
                for i in range(len(cb["locals"])):
                    st.mem[("L", fr.fid, i)] = None
                outs = self.run_body_frames(fr, st)
                if len(outs) == 1 and outs[0][0] is st:
                    for i in range(len(cb["locals"])):
                        st.mem.pop(("L", fr.fid, i), None)
                    return outs[0][1]
                raise Unsupported("const item %s does not evaluate on a single path" % o["uneval"])
        if "promoted" in o:
            pb = self.f.promoted.get((o["uneval"], o["promoted"]))
            if pb is None:
                raise Unsupported("promoted body missing")
            return self.run_promoted(frame, pb, st)
        if "static" in o:
            root = ("S", o["static"])
            if root not in st.mem:
                sty = self.f.statics.get(o["static"], {}).get("ty")
                st.mem[root] = VOpq(sty, "static " + o["static"])
            return VRef(root, (), False)
        if "bytes" in o:
            # constant allocation: &[u8; N] / &[u8] / &str / [u8; N]
            bs = o["bytes"]
            if tk == "ref":
                root = self.new_oid("constbytes")
                st.mem[root] = VArr([cint(b, 8, False) for b in bs]) if len(bs) <= 64 else VArrS(
                    T.INT_TYS["u8"], Lin.const(len(bs)))
                to = ty["to"].get("k")
                if to in ("slice", "str"):
                    return VSlice(root, (), Lin.const(0), Lin.const(o.get("slice_len", len(bs))), False)
                if to == "array":
                    return VRef(root, (), False)
                return VOpq(ty, "constref")
            if tk == "array":
                return VArr([cint(b, 8, False) for b in bs])
            return VOpq(ty, "constbytes")
        if o.get("zst"):
            if tk == "tuple":
                return UNIT
            if tk == "adt":
                d = ty["def"]
                if d in self.f.adts and self.f.adts[d]["kind"] == "struct":
                    return VAgg("struct", d, ())
            return VOpq(ty, "zst")
        return VOpq(ty, "const:" + o.get("s", ""))

    def value_of_destructured(self, d):
        """abstract value of a compile-time constant of aggregate type (as destructured by the compiler)"""
        ty = d["ty"]
        k = ty.get("k")
        if "v" in d:
            if k == "bool":
                return TRUE if d["v"] else FALSE
            if k == "int":
                return cint(d["v"], ty["w"], ty["sg"])
            if k == "char":
                return cint(d["v"], 32, False)
            return None
        fs = [self.value_of_destructured(x) for x in d.get("fields", [])]
        if any(x is None for x in fs):
            return None
        if k == "tuple":
            return VAgg("tuple", None, fs) if fs else UNIT
        if k == "array":
            return VArr(fs)
        if k == "adt":
            adt = self.f.adts.get(ty["def"])
            if adt is None:
                return None
            if adt.get("kind") == "enum" or "variant" in d and len(adt["variants"]) > 1:
                v = d.get("variant", 0)
                return VEnum(ty["def"], Lin.const(v), {v: tuple(fs)})
            return VAgg("struct", ty["def"], fs)
        return None

    def run_promoted(self, frame, pb, st):
        """evaluate a promoted constant body (straight-line); its locals are never freed"""
        self.fid += 1
        fr = Frame(self.fid, pb, frame.env, frame.depth + 1, None)
        for i in range(len(pb["locals"])):
            st.mem[("L", fr.fid, i)] = None
        r = self.run_region(fr, 0, st, None, None)
        if len(r["ret"]) != 1 or r["ret"][0][0] is not st:
            raise Unsupported("promoted body is not straight-line")
        return r["ret"][0][1]

    def int_ty(self, ty):
        if ty.get("k") == "int":
            return ty["w"], ty["sg"]
        if ty.get("k") == "bool":
            return 1, False
        if ty.get("k") == "char":
            return 32, False
        raise Unsupported("not an int type: " + ty_str(ty))

    def fits(self, st, lin, w, sg):
        lo, hi = ty_range(w, sg)
        return st.prove_ge0(lin - lo) and st.prove_ge0(Lin.const(hi) - lin)

    def exact_wrap(self, st, lin, w, sg):
        """lin - k * 2^w when the whole interval of lin lies in one period of the type (w,sg) (the reduction is then exact), else None"""
        lo, hi = st.interval(lin)
        if lo is None or hi is None:
            return None
        tlo, _thi = ty_range(w, sg)
        k = (lo - tlo) >> w
        if k != (hi - tlo) >> w:
            return None
        return lin - Lin.const(k << w)

    def wrap(self, st, lin, w, sg, what):
        """value of lin reduced into type (w,sg): lin itself if provably in range, else a fresh symbol"""
        if self.fits(st, lin, w, sg):
            return VInt(lin, w, sg)
        r = self.exact_wrap(st, lin, w, sg)
        if r is not None:
            return VInt(r, w, sg)
        return self.fresh_int(st, w, sg, "wrap:" + what, ("wrap", what, lin))

    def eval_binop(self, frame, op, lv, rv, st, dest_ty):
        if isinstance(lv, VBool) or isinstance(rv, VBool):
            return self.eval_bool_binop(op, lv, rv, st)
        if not (isinstance(lv, VInt) and isinstance(rv, VInt)):
            raise Unsupported("binop %s on %r, %r" % (op, lv, rv))
        a, b = lv.lin, rv.lin
        w, sg = lv.w, lv.sg
        if op in ("Eq", "Ne", "Lt", "Le", "Gt", "Ge"):
            ca, cb = st.const_of(a), st.const_of(b)
            if ca is not None and cb is not None:
                r = {"Eq": ca == cb, "Ne": ca != cb, "Lt": ca < cb, "Le": ca <= cb, "Gt": ca > cb, "Ge": ca >= cb}[op]
                return TRUE if r else FALSE
            return VBool(("cmp", op, a, b))
        base = op.replace("WithOverflow", "").replace("Unchecked", "")
        if base == "Add":
            r = a + b
        elif base == "Sub":
            r = a - b
        elif base == "Mul":
            ca, cb = st.const_of(a), st.const_of(b)
            if cb is not None:
                r = a.scale(cb)
            elif ca is not None:
                r = b.scale(ca)
            else:
                r = self.nonlinear(st, "mul", a, b, w, sg)
        elif base in ("Div", "Rem", "BitAnd", "BitOr", "BitXor", "Shl", "Shr"):
            return self.eval_bitop(base, a, b, w, sg, st)
        else:
            raise Unsupported("binop " + op)
        if op.endswith("WithOverflow"):
            lo, hi = ty_range(w, sg)
            if self.fits(st, r, w, sg):
                ovf = FALSE
            else:
                ovf = VBool(("or", ("cmp", "Lt", r, Lin.const(lo)), ("cmp", "Gt", r, Lin.const(hi))))
            return VAgg("tuple", None, (VInt(r, w, sg), ovf))
        if op.endswith("Unchecked"):
            return VInt(r, w, sg)
        return self.wrap(st, r, w, sg, base)

    def nonlinear(self, st, what, a, b, w, sg):
        al, ah = st.interval(a)
        bl, bh = st.interval(b)
        lo = hi = None
        if None not in (al, ah, bl, bh):
            prods = [al * bl, al * bh, ah * bl, ah * bh]
            lo, hi = min(prods), max(prods)
        s = st.fresh(lo, hi, what, (what, a, b))
        return Lin.sym(s)

    def eval_bitop(self, op, a, b, w, sg, st):
        ca, cb = st.const_of(a), st.const_of(b)
        tlo, thi = ty_range(w, sg)
        if ca is not None and cb is not None:
            try:
                if op == "Div":
                    r = abs(ca) // abs(cb) * (1 if (ca >= 0) == (cb >= 0) else -1)
                elif op == "Rem":
                    r = abs(ca) % abs(cb) * (1 if ca >= 0 else -1)
                elif op == "BitAnd":
                    r = ca & cb
                elif op == "BitOr":
                    r = ca | cb
                elif op == "BitXor":
                    r = ca ^ cb
                elif op == "Shl":
                    r = (ca << (cb % w)) & ((1 << w) - 1) if not sg else None
                else:
                    r = ca >> (cb % w)
                if r is not None:
                    return cint(r, w, sg)
            except ZeroDivisionError:
                pass
        al, ah = st.interval(a)
        if op == "Rem" and cb is not None and cb > 0:
            if al is not None and al >= 0:
                if ah is not None and ah < cb:
                    return VInt(a, w, sg)
                if (cb & (cb - 1)) == 0:
                    return self.fresh_int(st, w, sg, "and", ("and", a, cb - 1), 0, cb - 1)
                return self.fresh_int(st, w, sg, "rem", ("rem", a, cb), 0, cb - 1)
            return self.fresh_int(st, w, sg, "rem", ("rem", a, cb), -(cb - 1), cb - 1)
        if op == "Div" and cb is not None and cb > 0 and al is not None and al >= 0:
            if (cb & (cb - 1)) == 0 and cb > 1:
                k_ = cb.bit_length() - 1
                return self.fresh_int(st, w, sg, "shr", ("shr", a, k_), al >> k_, None if ah is None else ah >> k_)
            return self.fresh_int(st, w, sg, "div", ("div", a, cb), al // cb, None if ah is None else ah // cb)
        if op == "BitAnd":
            for x, cx in ((a, cb), (b, ca)):
                # mask of the bits k..K-1 of a value below 2^K: x & mask = 2^k * (x >> k), with x = 2^k * (x >> k) + (x & (2^k - 1))
                if cx is not None and cx > 0:
                    k = (cx & -cx).bit_length() - 1
                    top = cx + (1 << k)
                    xl, xh = st.interval(x)
                    if k > 0 and (top & (top - 1)) == 0 and xl is not None and xl >= 0 and xh is not None and xh < top:
                        q = self.fresh_int(st, w, sg, "shr", ("shr", x, k), xl >> k, xh >> k)
                        r = self.fresh_int(st, w, sg, "and", ("and", x, (1 << k) - 1), 0, (1 << k) - 1)
                        d = x - q.lin.scale(1 << k) - r.lin
                        try:
                            st.assume_eq0(d)
                        except Infeasible:
                            pass
                        return VInt(q.lin.scale(1 << k), w, sg)
            for x, cx in ((a, cb), (b, ca)):
                if cx is not None and cx >= 0:
                    xl, xh = st.interval(x)
                    if xl is not None and xl >= 0 and xh is not None and xh <= cx and (cx & (cx + 1)) == 0:
                        return VInt(x, w, sg)
                    if xl is not None and xl >= 0 and xh is not None and (cx & (cx + 1)) == 0 and xl // (cx + 1) == xh // (cx + 1):
                        return VInt(x - Lin.const((xl // (cx + 1)) * (cx + 1)), w, sg)
                    return self.fresh_int(st, w, sg, "and", ("and", x, cx), 0, cx)
            if al is not None and al >= 0:
                return self.fresh_int(st, w, sg, "and", ("and", a, b), 0, ah)
        if op == "Shr" and cb is not None and 0 <= cb < w and al is not None and al >= 0:
            return self.fresh_int(st, w, sg, "shr", ("shr", a, cb), al >> cb, None if ah is None else ah >> cb)
        if op == "Shl" and cb is not None and 0 <= cb < w:
            r = a.scale(1 << cb)
            if self.fits(st, r, w, sg):
                return VInt(r, w, sg)
            r2 = self.exact_wrap(st, r, w, sg)
            if r2 is not None:
                return VInt(r2, w, sg)
            return self.fresh_int(st, w, sg, "shl", ("shl_trunc", a, cb))
        if op == "Shl" and ca is not None and ca > 0:
            bl, bh = st.interval(b)
            if bl is not None and bh is not None and 0 <= bl and bh < w and (ca << bh) <= thi:
                return self.fresh_int(st, w, sg, "shl", ("shl", a, b), ca << bl, ca << bh)
        if op in ("BitOr", "BitXor") and al is not None and al >= 0 and ah is not None:
            bl, bh = st.interval(b)
            # disjoint bit ranges: x (a multiple of 2^k) | y (below 2^k) = x + y
            if bl is not None and bl >= 0 and bh is not None:
                for x, y, yh in ((a, b, bh), (b, a, ah)):
                    g = x.c
                    for _s, c_ in x.t:
                        g = math.gcd(g, c_)
                    if g:
                        p2 = g & -g
                        if yh < p2:
                            r = x + y
                            if self.fits(st, r, w, sg):
                                return VInt(r, w, sg)
                if op == "BitOr" and not sg:
                    # x | (all bits from k upwards) = mask + (x & (2^k - 1))
                    for x, cx in ((a, cb), (b, ca)):
                        if cx is not None and cx > 0 and ((1 << w) - cx) & ((1 << w) - cx - 1) == 0 and not x.is_const():
                            low = self.eval_bitop("BitAnd", x, Lin.const((1 << w) - cx - 1), w, sg, st)
                            return VInt(low.lin + cx, w, sg)
            if bl is not None and bl >= 0 and bh is not None:
                m = max(ah, bh)
                top = (1 << m.bit_length()) - 1
                return self.fresh_int(st, w, sg, op.lower(), (op.lower(), a, b), 0, top)
        return self.fresh_int(st, w, sg, op.lower(), (op.lower(), a, b))

    def eval_bool_binop(self, op, lv, rv, st):
        def be(v):
            if isinstance(v, VBool):
                return v.e
            raise Unsupported("bool binop with %r" % (v,))
        a, b = be(lv), be(rv)
        if op == "BitAnd":
            return VBool(("and", a, b))
        if op == "BitOr":
            return VBool(("or", a, b))
        if op in ("Eq", "Ne", "BitXor"):
            if a[0] == "c":
                r = b if a[1] else ("not", b)
            elif b[0] == "c":
                r = a if b[1] else ("not", a)
            else:
                r = ("or", ("and", a, b), ("and", ("not", a), ("not", b)))
            return VBool(r if op == "Eq" else ("not", r))
        raise Unsupported("bool binop " + op)

    def cast_int(self, st, v, ty):
        w, sg = self.int_ty(ty)
        if isinstance(v, VBool):
            e = v.e
            if e[0] == "c":
                return cint(1 if e[1] else 0, w, sg)
            s = st.fresh(0, 1, "bool2int", ("bool", e))
            return VInt(Lin.sym(s), w, sg)
        if not isinstance(v, VInt):
            raise Unsupported("int cast of %r" % (v,))
        if self.fits(st, v.lin, w, sg):
            return VInt(v.lin, w, sg)
        r = self.exact_wrap(st, v.lin, w, sg)
        if r is not None:
            return VInt(r, w, sg)
        return self.fresh_int(st, w, sg, "trunc", ("trunc", v.lin, v.w, v.sg))

    def eval_rvalue(self, frame, rv, st, dest_ty):
        k = rv["k"]
        if k == "use":
            return self.eval_operand(frame, rv["op"], st)
        if k == "binop":
            lv = self.eval_operand(frame, rv["l"], st)
            r = self.eval_operand(frame, rv["r"], st)
            return self.eval_binop(frame, rv["op"], lv, r, st, dest_ty)
        if k == "unop":
            x = self.eval_operand(frame, rv["x"], st)
            op = rv["op"]
            if op == "Not":
                if isinstance(x, VBool):
                    e = x.e
                    if e[0] == "c":
                        return FALSE if e[1] else TRUE
                    return VBool(("not", e))
                if isinstance(x, VInt):
                    if not x.sg:
                        return VInt(Lin.const((1 << x.w) - 1) - x.lin, x.w, x.sg)
                    return VInt(-x.lin - 1, x.w, x.sg)
            if op == "Neg" and isinstance(x, VInt):
                return self.wrap(st, -x.lin, x.w, x.sg, "Neg")
            if op == "PtrMetadata":
                if isinstance(x, VSlice):
                    return VInt(x.n, 64, False)
                raise Unsupported("PtrMetadata of %r" % (x,))
            raise Unsupported("unop %s on %r" % (op, x))
        if k == "ref":
            a = self.resolve(frame, rv["place"], st)
            if a.slice is not None:
                return VSlice(a.root, a.steps, a.slice[0], a.slice[1], rv["mut"])
            return VRef(a.root, a.steps, rv["mut"])
        if k == "rawptr":
            a = self.resolve(frame, rv["place"], st)
            if a.slice is not None:
                return VSlice(a.root, a.steps, a.slice[0], a.slice[1], True)
            return VRef(a.root, a.steps, True)
        if k == "cast":
            v = self.eval_operand(frame, rv["op"], st)
            ck = rv["ck"]
            ty = subst(rv["ty"], frame.env)
            if ck == "IntToInt":
                return self.cast_int(st, v, ty)
            if ck.startswith("PointerCoercion(Unsize"):
                if isinstance(v, VRef):
                    tgt = self.read_raw(st, v.root, v.steps)
                    if isinstance(tgt, VArr):
                        return VSlice(v.root, v.steps, Lin.const(0), Lin.const(len(tgt.elems)), v.mut)
                    if isinstance(tgt, VArrS):
                        return VSlice(v.root, v.steps, Lin.const(0), tgt.n, v.mut)
                    raise Unsupported("unsize of ref to %r" % (tgt,))
                if isinstance(v, VSlice):
                    return v
                raise Unsupported("unsize of %r" % (v,))
            if ck.startswith("PointerCoercion"):
                return v
            raise Unsupported("cast " + ck)
        if k == "discr":
            v = self.read_place(frame, rv["place"], st)
            if isinstance(v, VEnum):
                return VInt(v.disc, 64, True)
            if isinstance(v, VOpq):
                return self.fresh_int(st, 64, True, "discr of opaque " + ty_str(v.ty))
            raise Unsupported("discriminant of %r" % (v,))
        if k == "repeat":
            x = self.eval_operand(frame, rv["op"], st)
            n = rv["n"]
            if n.get("ck") == "param":
                nl = self.const_param(st, n["name"], frame)
            elif n.get("ck") == "val":
                nl = Lin.const(n["v"])
            else:
                raise Unsupported("repeat count " + str(n))
            c = st.const_of(nl)
            if c is not None and c <= 16:
                return VArr([x] * c)
            ety = dest_ty["of"] if dest_ty and dest_ty.get("k") == "array" else T.INT_TYS["u8"]
            return VArrS(subst(ety, frame.env), nl, x)
        if k == "aggregate":
            ops = [self.eval_operand(frame, o, st) for o in rv["ops"]]
            ak = rv["ak"]
            if ak == "array":
                return VArr(ops)
            if ak == "tuple":
                if not ops:
                    return UNIT
                return VAgg("tuple", None, ops)
            if ak == "adt":
                if rv["is_enum"]:
                    return VEnum(rv["def"], Lin.const(rv["variant"]), {rv["variant"]: tuple(ops)})
                return VAgg("struct", rv["def"], ops)
            if ak == "closure":
                return VClos(rv["def"], ops, frame.env)
            raise Unsupported("aggregate " + ak)
        raise Unsupported("rvalue " + k + " " + rv.get("s", ""))

    # =============================================================== branching on booleans
    def branch(self, st, e, want):
        """states (copies of st) in which bool expr e has truth value `want`"""
        k = e[0]
        if k == "c":
            return [st.copy()] if e[1] == want else []
        if k == "not":
            return self.branch(st, e[1], not want)
        if k == "cmp":
            op = e[1] if want else NEG[e[1]]
            s2 = st.copy()
            try:
                s2.assume_cmp(op, e[2], e[3])
                self.refine_lz(s2, e[2])
                self.refine_lz(s2, e[3])
            except Infeasible:
                return []
            return [s2]
        if k == "sym":
            s2 = st.copy()
            try:
                s2.assume_eq0(Lin.sym(e[1]) - (1 if want else 0))
            except Infeasible:
                return []
            # a bool symbol defined from an expression refines that expression too
            d = st.tab.defn(e[1])
            if d and d[0] == "bool":
                return self.branch(s2, d[1], want)
            return [s2]
        if (k == "and" and want) or (k == "or" and not want):
            out = []
            for s1 in self.branch(st, e[1], want):
                out.extend(self.branch(s1, e[2], want))
            return out
        if (k == "and" and not want) or (k == "or" and want):
            out = self.branch(st, e[1], want)
            for s1 in self.branch(st, e[1], not want):
                out.extend(self.branch(s1, e[2], want))
            return out
        raise Unsupported("bool expr " + str(k))

    def refine_lz(self, st, lin):
        """a symbol defined as leading_zeros(x): bounds on it become bounds on x  (lz <= k  <=>  x >= 2^(w-1-k);  lz >= k  <=>  x < 2^(w-k))"""
        sg = lin.single()
        if not sg or sg[1] != 1 or lin.c != 0:
            return
        d = self.tab.defn(sg[0])
        if not d or d[0] != "lz":
            return
        x, w = d[1], d[2]
        lo, hi = st.bounds(sg[0])
        if hi is not None and hi < w:
            st.assume_ge0(x - (1 << (w - 1 - hi)))
        if lo is not None and lo > 0:
            st.assume_ge0(Lin.const((1 << (w - lo)) - 1) - x)

    def prove_bool(self, st, e, want):
        """is bool expr e entailed to have truth value `want`?"""
        k = e[0]
        if k == "c":
            return e[1] == want
        if k == "not":
            return self.prove_bool(st, e[1], not want)
        if k == "cmp":
            return st.prove_cmp(e[1] if want else NEG[e[1]], e[2], e[3])
        if k == "sym":
            return st.const_of(Lin.sym(e[1])) == (1 if want else 0)
        if (k == "and" and want) or (k == "or" and not want):
            return self.prove_bool(st, e[1], want) and self.prove_bool(st, e[2], want)
        if (k == "and" and not want) or (k == "or" and want):
            return self.prove_bool(st, e[1], want) or self.prove_bool(st, e[2], want)
        return False

    # =============================================================== blocks
    def exec_block(self, frame, bb, st):
        """returns list of ('goto', bb, st) | ('ret', st, val)"""
        body = frame.body
        blk = body["blocks"][bb]
        self.stats["steps"] += 1 + len(blk["stmts"])
        for h in self.on_block:
            h(self, frame, bb, st)
        rk = "L"
        for stmt in blk["stmts"]:
            if stmt["k"] == "assign":
                pl = stmt["place"]
                val = self.eval_rvalue(frame, stmt["rv"], st, pl["ty"])
                self.write_place(frame, pl, st, val)
                for h in self.on_assign:
                    h(self, frame, bb, stmt, st, val)
            else:
                raise Unsupported("statement " + stmt["k"] + " " + stmt.get("s", ""))
        t = blk["term"]
        k = t["k"]
        if k == "goto":
            return [("goto", t["target"], st)]
        if k == "return":
            val = st.mem.get(("L", frame.fid, 0))
            if val is None:
                val = UNIT
            return [("ret", st, val)]
        if k == "unreachable":
            return []
        if k == "drop":
            return [("goto", t["target"], st)]
        if k == "switch":
            return self.exec_switch(frame, bb, t, st)
        if k == "assert":
            return self.exec_assert(frame, bb, t, st)
        if k == "call":
            return self.exec_call(frame, bb, t, st)
        raise Unsupported("terminator " + k)

    def exec_switch(self, frame, bb, t, st):
        d = self.eval_operand(frame, t["discr"], st)
        out = []
        if isinstance(d, VBool):
            for val, tgt in t["targets"]:
                for s2 in self.branch(st, d.e, bool(val)):
                    out.append(("goto", tgt, s2))
            # otherwise: the remaining truth value
            vals = {v for v, _ in t["targets"]}
            for tv in (0, 1):
                if tv not in vals:
                    for s2 in self.branch(st, d.e, bool(tv)):
                        out.append(("goto", t["otherwise"], s2))
            return out
        if not isinstance(d, VInt):
            raise Unsupported("switch on %r" % (d,))
        lin = d.lin
        for val, tgt in t["targets"]:
            if d.sg and val >= (1 << (d.w - 1)):
                val -= (1 << d.w)
            s2 = st.copy()
            try:
                s2.assume_eq0(lin - val)
            except Infeasible:
                continue
            out.append(("goto", tgt, s2))
        s2 = st.copy()
        try:
            for val, _ in t["targets"]:
                if d.sg and val >= (1 << (d.w - 1)):
                    val -= (1 << d.w)
                s2.assume_ne0(lin - val)
            out.append(("goto", t["otherwise"], s2))
        except Infeasible:
            pass
        return out

    def exec_assert(self, frame, bb, t, st):
        c = self.eval_operand(frame, t["cond"], st)
        want = t["expected"]
        ak = t["ak"]
        kind = {"BoundsCheck": "IDX", "Overflow": "OVF", "OverflowNeg": "OVF",
                "DivisionByZero": "DIV", "RemainderByZero": "DIV"}.get(ak, "PANIC")
        if not isinstance(c, VBool):
            raise Unsupported("assert on %r" % (c,))
        bad = self.branch(st, c.e, not want)
        detail = ak
        if ak == "Overflow":
            l = self.eval_operand(frame, t["l"], st)
            r = self.eval_operand(frame, t["r"], st)
            detail = "%s %s: %s , %s" % (t["op"], "%s%d" % ("i" if l.sg else "u", l.w), st.describe(l.lin), st.describe(r.lin))
        elif ak == "BoundsCheck":
            i = self.eval_operand(frame, t["index"], st)
            ln = self.eval_operand(frame, t["len"], st)
            detail = "index %s < len %s" % (st.describe(i.lin), st.describe(ln.lin))
        self.oblige(kind, frame, bb, (not bad) or self.prove_bool(st, c.e, want), detail, st, goal=(c.e, want))
        if ak == "Overflow" and self.log and self.log[-1].get("bb") == bb and self.log[-1].get("fn") == frame.body["def"]:
            self.log[-1]["r_hi"] = st.interval(r.lin)[1]
            self.log[-1]["r_lo"] = st.interval(r.lin)[0]
        good = self.branch(st, c.e, want)
        if bad and not self.log_last_ok(frame, bb):
            # the continuing path relies on a run-time check that did not discharge statically (and that
            # release builds compile out for overflow checks): remember it on the path
            for s2 in good:
                wd = l.w if ak == "Overflow" else 0
                if wd >= 64:
                    continue      # 64-bit counters are covered by rule U / A3, they do not wrap in practice
                s2.ghost["unproved-asserts"] = s2.ghost.get("unproved-asserts", ()) + ((frame.body["def"], bb, ak),)
        return [("goto", t["target"], s2) for s2 in good]

    def log_last_ok(self, frame, bb):
        if self.log and self.log[-1].get("t") == "obl" and self.log[-1].get("bb") == bb and self.log[-1].get("fn") == frame.body["def"]:
            return self.log[-1]["ok"]
        return False

    # =============================================================== calls
    def exec_call(self, frame, bb, t, st):
        self.stats["calls"] += 1
        callee = t.get("callee")
        args = [self.eval_operand(frame, a, st) for a in t["args"]]
        dest_ty = subst(t["dest"]["ty"], frame.env)
        if callee is None:
            fv = self.eval_operand(frame, t["callee_op"], st)
            outs = self.call_value(frame, bb, st, fv, args, dest_ty)
        else:
            for h in self.on_call:
                h(self, frame, bb, t, st, callee, args)
            outs = self.dispatch(frame, bb, st, callee, args, dest_ty)
            for h in self.on_call_result:
                h(self, frame, bb, t, callee, args, outs)
            if self.source_calls and self.is_source_call(callee):
                outs = self.note_source_call(callee, outs)
        res = []
        for s2, val in outs:
            if t["target"] is None:
                continue
            self.write_place(frame, t["dest"], s2, val)
            res.append(("goto", t["target"], s2))
        return res

    def build_impl_index(self):
        idx = {}
        for im in self.f.impls:
            tr = im.get("trait")
            if tr:
                idx.setdefault(tr, []).append(im)
        self.impl_index = idx

    def find_impl_method(self, trait, method, self_ty, targs=()):
        """(body, env) of the local impl of `trait<targs..>` for self_ty providing `method`, or None.
        targs: substituted generic args following Self in the call path (trait args, then method args)"""
        if self.impl_index is None:
            self.build_impl_index()
        cands = []
        for im in self.impl_index.get(trait, []):
            binds = {}
            if not T.unify(im["self_ty"], self_ty, binds):
                continue
            ok = True
            ita = [a for a in im.get("trait_args", []) if a["g"] != "lt"]
            cta = [a for a in targs if a["g"] != "lt"]
            for pa, ca in zip(ita, cta):
                if pa["g"] == "ty" and ca["g"] == "ty":
                    if not T.unify(pa["ty"], ca["ty"], binds):
                        ok = False
                        break
            if not ok:
                continue
            spec = 0 if im["self_ty"].get("k") == "param" else 1
            cands.append((spec, im, binds, len(ita)))
        cands.sort(key=lambda c: -c[0])
        for spec, im, binds, nta in cands:
            body = None
            for it in im["items"]:
                if it["name"] == method and it["def"] in self.f.bodies:
                    body = self.f.bodies[it["def"]]
            env = dict(binds)
            if body is None:
                for n, b in self.f.bodies.items():
                    if b.get("trait_default") == trait and b.get("name") == method:
                        body = b
                        env["Self"] = self_ty
                if body is None:
                    continue
            # method-level generics: trailing args of the call path
            own = [n for n in body.get("generics", []) if n not in env and not n.startswith("'")]
            margs = [a for a in targs if a["g"] != "lt"][nta:]
            for n, a in zip(own, margs):
                if a["g"] == "ty":
                    env[n] = a["ty"]
                elif a["g"] == "const" and a["c"].get("ck") == "val":
                    env[n] = a["c"]["v"]
            return body, env
        return None

    def env_for(self, body, gargs, caller_env):
        names = body.get("generics", [])
        env = {}
        for n, a in zip(names, gargs):
            if a["g"] == "ty":
                env[n] = subst(a["ty"], caller_env)
            elif a["g"] == "const":
                c = T.subst_const(a["c"], caller_env)
                if c.get("ck") == "val":
                    env[n] = c["v"]
                elif c.get("ck") == "param" and c["name"] in caller_env:
                    env[n] = caller_env[c["name"]]
        return env

    def dispatch(self, frame, bb, st, callee, args, dest_ty):
        res = callee.get("resolved")
        env = frame.env
        name = callee["def"]
        if res is None and env and "trait" in callee and (callee.get("self_ty") or {}).get("k") == "param" and "ctor_adt" not in callee:
            # a trait method called on a type parameter of a generic helper that this instance binds to a concrete local type:
            # resolve it here, so that contracts / opaque-component decisions see the same callee a non-generic caller would name
            sty = subst(callee["self_ty"], env)
            if sty.get("k") not in ("param", "alias", "other", "deep"):
                if self.impl_index is None:
                    self.build_impl_index()
                if callee["trait"] in self.impl_index:
                    targs = [subst_garg(a, env) for a in callee["args"][1:]]
                    hit = self.find_impl_method(callee["trait"], callee["method"], sty, targs)
                    if hit is not None:
                        callee = dict(callee)
                        callee["self_ty"] = sty
                        callee["resolved"] = {"def": hit[0]["def"], "local": True, "ik": "item", "args": [], "cenv": hit[1],
                                              "path_with_args": hit[0]["def"]}
                        res = callee["resolved"]
        if "ctor_adt" in callee:
            if callee["ctor_is_enum"]:
                v = callee["ctor_variant"]
                return [(st, VEnum(callee["ctor_adt"], Lin.const(v), {v: tuple(args)}))]
            return [(st, VAgg("struct", callee["ctor_adt"], args))]
        if self.opaque_fn is not None:
            oq = self.opaque_fn(callee)
            if callable(oq):
                return oq(self, frame, bb, st, callee, args, dest_ty)
            if oq:
                return self.havoc_call(frame, st, args, dest_ty, "out-of-scope " + (res["def"] if res else name))
        # 1. rustc resolved it to a local body
        if res and res["local"] and res["def"] in self.f.bodies and res["ik"] == "item":
            body = self.f.bodies[res["def"]]
            if body.get("auto_derived") and body.get("name") == "default" and body.get("impl_trait") == "std::default::Default":
                # #[derive(Default)]: the expanded body builds the value from its fields' defaults; it is analysed like written code
                return self.call_local_inline(frame, bb, st, body, res["cenv"] if "cenv" in res else self.env_for(body, res["args"], env), args)
            if body.get("auto_derived"):
                return self.call_derived(frame, bb, st, body, callee, args, dest_ty)
            cenv = res["cenv"] if "cenv" in res else self.env_for(body, res["args"], env)
            return self.call_local(frame, bb, st, body, cenv, args)
        # 2. trait method whose self type becomes concrete after substitution
        if "trait" in callee and "self_ty" in callee:
            sty = subst(callee["self_ty"], env)
            tr = callee["trait"]
            if self.impl_index is None:
                self.build_impl_index()
            if tr in self.impl_index and sty.get("k") not in ("param", "alias", "other", "deep"):
                targs = [subst_garg(a, env) for a in callee["args"][1:]]
                hit = self.find_impl_method(tr, callee["method"], sty, targs)
                if hit is not None:
                    body, cenv = hit
                    return self.call_local(frame, bb, st, body, cenv, args)
            key = (tr, callee["method"])
            if key in self.contracts and not (res and res.get("ik") == "item" and not is_abstract(sty)):
                return self.contracts[key](self, frame, bb, st, callee, args, dest_ty)
        # 3. inherent / free local fn that rustc could not resolve (generic caller)
        if callee["local"] and name in self.f.bodies:
            body = self.f.bodies[name]
            cenv = self.env_for(body, callee["args"], env)
            return self.call_local(frame, bb, st, body, cenv, args)
        # 4. external summary
        rname = res["def"] if res else name
        for nm in (rname, name):
            if nm in self.extern:
                return self.extern[nm](self, frame, bb, st, callee, args, dest_ty)
        self.oblige("EXT", frame, bb, False, "unreviewed external callee " + rname, st)
        return self.havoc_call(frame, st, args, dest_ty, rname)

    def call_derived(self, frame, bb, st, body, callee, args, dest_ty):
        """#[derive]d impls are summarised (A7): PartialEq::eq is field-wise equality, Clone::clone a copy"""
        from . import stdsum
        nm = body.get("name")
        if nm == "eq":
            return stdsum.s_derived_eq(self, frame, bb, st, callee, args, dest_ty)
        if nm == "clone":
            return [(st, stdsum.deref(self, st, args[0]))]
        return self.havoc_call(frame, st, args, dest_ty, "derived " + body["def"])

    def havoc_call(self, frame, st, args, dest_ty, why):
        for a in args:
            if isinstance(a, VRef) and a.mut:
                old = self.read_raw(st, a.root, a.steps)
                self.write_raw(st, a.root, a.steps, self.havoc_value(st, old, why))
        return [(st, self.fresh_value(st, dest_ty, "ret:" + why))]

    def havoc_value(self, st, v, why):
        if isinstance(v, VInt):
            return self.fresh_int(st, v.w, v.sg, "havoc:" + why)
        if isinstance(v, VBool):
            return VBool(("sym", st.fresh(0, 1, "havoc:" + why)))
        if isinstance(v, VAgg):
            return VAgg(v.kind, v.defn, [self.havoc_value(st, e, why) for e in v.elems])
        if isinstance(v, VArr):
            return VArr([self.havoc_value(st, e, why) for e in v.elems])
        if isinstance(v, VArrS):
            return VArrS(v.ety, v.n, None)
        if isinstance(v, VEnum):
            return VOpq(None, "havoc-enum:" + why)
        return v

    def call_value(self, frame, bb, st, fv, args, dest_ty):
        """call a closure / fn item value with already-evaluated args"""
        if isinstance(fv, VRef):
            fv = self.read_raw(st, fv.root, fv.steps)
        if isinstance(fv, VFn):
            t_ = frame.body["blocks"][bb]["term"] if frame is not None and bb is not None else None
            for h in self.on_call:
                h(self, frame, bb, t_, st, fv.callee, args)
            outs = self.dispatch(frame, bb, st, fv.callee, args, dest_ty)
            for h in self.on_call_result:
                h(self, frame, bb, t_, fv.callee, args, outs)
            return outs
        if isinstance(fv, VClos):
            body = self.f.bodies.get(fv.defn)
            if body is None:
                raise Unsupported("closure body " + fv.defn)
            # closure bodies take (self-or-&self, args...)
            selfty = body["locals"][1]["ty"]
            if selfty.get("k") == "ref":
                root = self.new_oid("closure-env")
                st.mem[root] = fv
                a0 = VRef(root, (), selfty["mut"])
            else:
                a0 = fv
            return self.call_local(frame, bb, st, body, fv.env, [a0] + list(args))
        raise Unsupported("call of value %r" % (fv,))

    def call_local(self, frame, bb, st, body, env, args):
        if self.summarizable is not None and self.summarizable(body):
            from . import summary
            if summary.summarizable_args(self, body, env):
                key = self.inst_key(Frame(0, body, env, 0, None))
                if not any(S.key == key for S in self.sum_stack):
                    r = summary.call(self, frame, bb, st, body, env, args, key)
                    if r is not None:
                        self.visited[key] = self.visited.get(key, 0) + 1
                        return r
        return self.call_local_inline(frame, bb, st, body, env, args)

    def call_local_inline(self, frame, bb, st, body, env, args, depth=None):
        name = body["def"]
        fdepth = frame.depth if frame is not None else (depth or 0)
        self.fid += 1
        fr = Frame(self.fid, body, env, fdepth + 1, (frame.body["def"], bb) if frame is not None else None)
        ikey = self.inst_key(fr)
        if fdepth >= MAX_DEPTH or self.istack.count(ikey) >= MAX_REC:
            if frame is not None:
                self.oblige("REC", frame, bb, False, "recursion/inlining budget exceeded calling " + name, st)
            return []
        if len(args) != body["arg_count"]:
            # "rust-call" ABI of closures: last arg is a tuple to be spread
            if len(args) == 2 and isinstance(args[1], VAgg) and args[1].kind == "tuple" and \
                    1 + len(args[1].elems) == body["arg_count"]:
                args = [args[0]] + list(args[1].elems)
            elif len(args) == 2 and isinstance(args[1], VUnit) and body["arg_count"] == 1:
                args = [args[0]]
            else:
                raise Unsupported("arg count mismatch calling %s: %d vs %d" % (name, len(args), body["arg_count"]))
        for i in range(len(body["locals"])):
            st.mem[("L", fr.fid, i)] = None
        for i, a in enumerate(args):
            st.mem[("L", fr.fid, i + 1)] = a
        mark = len(self.tab.info)
        self.stack.append(name)
        self.istack.append(ikey)
        key = ikey
        self.visited[key] = self.visited.get(key, 0) + 1
        try:
            outs = self.run_body_frames(fr, st)
        finally:
            self.stack.pop()
            self.istack.pop()
        res = []
        for s2, val in outs:
            for i in range(len(body["locals"])):
                s2.mem.pop(("L", fr.fid, i), None)
            for h in self.on_return:
                h(self, fr, s2, val)
            res.append((s2, val))
        thr = self.join_threshold
        if self.ts is not None and not self.join_exits(body) and (body.get("impl_self_ty") or {}).get("def") in getattr(self.ts, "ts_types", ()) \
                and body.get("vis") != "pub" and not body.get("impl_trait"):
            # a private method of a stateful type is a piece of one of its interface methods (e.g. one arm of the state
            # machine moved into its own function): its paths stay apart like the paths of the arm would
            thr = max(thr, 48)
        if (len(res) > 1 or self.sum_stack) and (self.join_exits(body) or len(res) > thr):
            # a symbolic boolean result is split into its two truth values so that callers (and summaries)
            # keep the conditions under which it is true / false
            split = []
            for s2, val in res:
                if isinstance(val, VBool) and val.e[0] != "c":
                    for s3 in self.branch(s2, val.e, True):
                        split.append((s3, TRUE))
                    for s3 in self.branch(s2, val.e, False):
                        split.append((s3, FALSE))
                else:
                    split.append((s2, val))
            res = split
            if len(res) > 1:
                res = self.join_outcomes(res, mark, args)
        return res

    def outcome_key(self, st, v, depth=2):
        if isinstance(v, VEnum):
            c = st.const_of(v.disc)
            if c is None:
                return ("?",)
            if depth > 1 and v.pay.get(c):
                return (c,) + self.outcome_key(st, v.pay[c][0], depth - 1)
            return (c,)
        if isinstance(v, VAgg) and v.kind == "tuple" and depth > 1 and len(v.elems) == 2:
            return self.outcome_key(st, v.elems[1], depth - 1)
        if isinstance(v, VBool) and v.e[0] == "c":
            return (v.e[1],)
        return ()

    def shape_sig(self, st, v, depth=0):
        """constant discriminants of the enums inside a value (typestate signature of an object)"""
        if depth > 4 or v is None:
            return ()
        if isinstance(v, VEnum):
            c = st.const_of(v.disc)
            if c is None:
                return ("?",)
            r = (c,)
            for e in v.pay.get(c, ()):
                r = r + self.shape_sig(st, e, depth + 1)
            return r
        if isinstance(v, (VAgg, VClos)):
            r = ()
            for e in v.elems:
                r = r + self.shape_sig(st, e, depth + 1)
            return r
        return ()

    def int_sig(self, st, v, depth=0):
        """which integer components of a returned value are constants (and which constants): outcomes of a small pure helper
        such as `(next_state, consumed)` are kept apart when they differ in their constant components"""
        if depth > 2 or v is None:
            return ()
        if isinstance(v, VInt):
            c = st.const_of(v.lin)
            return (c if c is not None and -64 <= c <= 64 else "s",)
        if isinstance(v, VAgg) and v.kind == "tuple" and len(v.elems) <= 4:
            r = ()
            for e in v.elems:
                r = r + self.int_sig(st, e, depth + 1)
            return r
        return ()

    def join_outcomes(self, outs, mark, args=()):
        from .join import join_pair
        groups = {}
        order = []
        mrefs = [a for a in args if isinstance(a, VRef) and a.mut]
        refined = {}
        for s2, val in outs:
            if (isinstance(val, VAgg) and val.kind == "tuple") or isinstance(val, VInt):
                refined[id(s2)] = self.int_sig(s2, val)
        use_refined = 1 < len(set(refined.values())) <= 12
        for s2, val in outs:
            k = self.outcome_key(s2, val, 3)
            if use_refined:
                k = k + ("#",) + refined.get(id(s2), ())
            for a in mrefs:
                try:
                    k = k + ("|",) + self.shape_sig(s2, self.read_raw(s2, a.root, a.steps))
                except Unsupported:
                    pass
            if k not in groups:
                groups[k] = (s2, val)
                order.append(k)
            else:
                a_st, a_val = groups[k]
                self.stats["joins"] += 1
                groups[k] = join_pair(self, a_st, a_val, s2, val, mark)
        return [groups[k] for k in order]

    # =============================================================== bodies, regions, loops
    def loops(self, body):
        key = (body["def"], body.get("promoted"))
        if key not in self._loops:
            self._loops[key] = loops_of(body)
        return self._loops[key]

    def run_body_frames(self, fr, st, root_kind="L"):
        if root_kind == "P":
            # promoted: straight-line, keep roots under 'L' namespace of this fid but never free them
            for i in range(len(fr.body["locals"])):
                st.mem[("L", fr.fid, i)] = None
            st.mem.pop(("P", fr.fid, 0), None)
        r = self.run_region(fr, 0, st, None, None)
        if r["exit"] or r["arrive"]:
            raise Unsupported("region escape at top level")
        return r["ret"]

    def run_region(self, fr, start, st, head, lbody):
        ret, arrive, exits = [], [], []
        loops = self.loops(fr.body)
        work = [(start, st, True)]
        while work:
            bb, s, first = work.pop()
            if bb in loops and not (first and bb == head):
                lx, lr = self.run_loop(fr, bb, s)
                ret.extend(lr)
                succs = [("goto", tb, ts) for tb, ts in lx]
            else:
                try:
                    succs = self.exec_block(fr, bb, s)
                except Unsupported as e:
                    self.oblige("UNSUPPORTED", fr, bb, False, str(e), s)
                    succs = []
            for sc in succs:
                if sc[0] == "ret":
                    self.stats["paths"] += 1
                    ret.append((sc[1], sc[2]))
                    continue
                _, tb, ts = sc
                if head is not None:
                    if tb == head:
                        arrive.append(ts)
                        continue
                    if tb not in lbody:
                        exits.append((tb, ts))
                        continue
                work.append((tb, ts, False))
        return {"ret": ret, "arrive": arrive, "exit": exits}

    def run_loop(self, fr, head, st):
        lbody = self.loops(fr.body)[head]
        st.ghost.pop("source-exhausted", None)
        # ---- 1. bounded unrolling (fully path-sensitive)
        mark = len(self.log)
        states = [st.copy()]
        exits, rets = [], []
        done = False
        lkey = (fr.body["def"], fr.body.get("promoted"), head)
        for _ in range(0 if lkey in self._no_unroll else UNROLL + 1):
            nxt = []
            for s in states:
                r = self.run_region(fr, head, s, head, lbody)
                exits.extend(r["exit"])
                rets.extend(r["ret"])
                nxt.extend(r["arrive"])
            if not nxt:
                done = True
                break
            if len(nxt) > MAX_UNROLL_STATES:
                break
            states = nxt
        if done:
            self.stats["loops_unrolled"] += 1
            self.observe({"kind": "loop", "fn": fr.body["def"], "head": head, "mode": "unrolled",
                          "inst": self.inst_key(fr)})
            return exits, rets
        del self.log[mark:]
        self._no_unroll.add(lkey)
        # ---- 2. fixpoint with join/widening at the head.  The head invariant is a disjunction keyed by the
        #         typestate signature (partition keys of the stateful objects reachable from the frame);
        #         those objects are summarised by their inferred object invariant.
        from .join import join_into
        self.stats["loops_fix"] += 1
        symmark = len(self.tab.info)
        sigstates = {}
        th = self.thresholds(fr.body)

        def add(stt, widen, table=None, tag="loop"):
            table = sigstates if table is None else table
            ch = False
            self.kill_dead(fr, head, stt)
            for s1 in self.ts_split(fr, stt):
                sig = (self.ts_sig(fr, s1), self.flag_sig(fr, head, s1))
                old = table.get(sig)
                if old is None:
                    table[sig] = s1
                    ch = True
                else:
                    new, c = join_into(self, old, s1, symmark, (tag, fr.fid, head, sig), widen=bool(widen),
                                       thresholds=(th if widen == 1 else None))
                    if c:
                        table[sig] = new
                        ch = True
            return ch

        add(st.copy(), False)
        for it in range(MAX_FIX_ITERS):
            mark = len(self.log)
            exits, rets, arrs = [], [], []
            changed = False
            for sig in list(sigstates):
                inv = sigstates[sig]
                r = self.run_region(fr, head, inv.copy(), head, lbody)
                exits.extend(r["exit"])
                rets.extend(r["ret"])
                arrs.append((inv, r["arrive"]))
            for inv, arrive in arrs:
                for a in arrive:
                    # widening is delayed: small counters that are reset inside the loop settle within a few plain joins
                    if add(a, 0 if it < 4 else (1 if it < 7 else 2)):
                        changed = True
            if not changed:
                ms = [self.loop_measure(fr, inv, arrive) for inv, arrive in arrs]
                self.observe({"kind": "loop", "fn": fr.body["def"], "head": head, "mode": "fixpoint",
                              "inst": self.inst_key(fr), "iters": it + 1, "disjuncts": len(sigstates),
                              "measure": ms[0] if ms and all(m == ms[0] for m in ms) else None})
                return exits, rets
            del self.log[mark:]
        self.oblige("LOOP", fr, head, False, "no fixpoint for loop at bb%d after %d iterations" % (head, MAX_FIX_ITERS), st)
        return [], []

    # typestate hooks (set by the engine): summarise stateful objects by their object invariant at loop heads
    def ts_split(self, fr, st):
        if self.ts is None:
            return [st]
        return self.ts.split(self, fr, st)

    def ts_sig(self, fr, st):
        if self.ts is None:
            return ()
        return self.ts.signature(self, fr, st)

    def liveness(self, body):
        """(live_in: {bb: set(locals)}, address_taken: set(locals)) by backward dataflow over whole locals"""
        key = (body["def"], body.get("promoted"))
        r = self._live.get(key)
        if r is not None:
            return r
        blocks = [b for b in body["blocks"] if not b["cleanup"]]
        use = {}
        defs = {}
        addr = set()

        def place_uses(p, acc, is_def=False):
            for e in p["proj"]:
                if e["k"] == "index":
                    acc.add(e["local"])
            if not is_def or p["proj"]:
                acc.add(p["local"])

        def op_uses(o, acc):
            if isinstance(o, dict) and o.get("k") in ("copy", "move"):
                place_uses(o["place"], acc)

        for b in blocks:
            u, d = set(), set()
            def note_use(xs):
                for x in xs:
                    if x not in d:
                        u.add(x)
            for stt in b["stmts"]:
                if stt["k"] != "assign":
                    continue
                rv = stt["rv"]
                acc = set()
                for kk in ("op", "l", "r", "x"):
                    if kk in rv:
                        op_uses(rv[kk], acc)
                for o in rv.get("ops", []):
                    op_uses(o, acc)
                if "place" in rv:
                    place_uses(rv["place"], acc)
                    if rv["k"] in ("ref", "rawptr"):
                        addr.add(rv["place"]["local"])
                place_uses(stt["place"], acc, is_def=True)
                note_use(acc)
                if not stt["place"]["proj"]:
                    d.add(stt["place"]["local"])
            t = b["term"]
            acc = set()
            for kk in ("discr", "cond", "callee_op", "l", "r", "x", "index", "len"):
                if kk in t:
                    op_uses(t[kk], acc)
            for a in t.get("args", []):
                op_uses(a, acc)
            if t["k"] == "drop":
                place_uses(t["place"], acc)
            if t["k"] == "return":
                acc.add(0)
            if "dest" in t:
                place_uses(t["dest"], acc, is_def=True)
            note_use(acc)
            if "dest" in t and not t["dest"]["proj"]:
                d.add(t["dest"]["local"])
            use[b["idx"]] = u
            defs[b["idx"]] = d
        live_in = {b["idx"]: set() for b in blocks}
        changed = True
        while changed:
            changed = False
            for b in reversed(blocks):
                out = set()
                for sx in term_succs(b["term"]):
                    out |= live_in.get(sx, set())
                new = use[b["idx"]] | (out - defs[b["idx"]])
                if new != live_in[b["idx"]]:
                    live_in[b["idx"]] = new
                    changed = True
        r = (live_in, addr)
        self._live[key] = r
        return r

    def flag_sig(self, fr, head, st):
        """known truth values of the (at most 3) boolean locals live at the loop head: the head invariant is kept as a
        disjunction over them (loops steered by a `done` flag keep what was established when the flag was set)"""
        live_in, _addr = self.liveness(fr.body)
        out = []
        for i in sorted(live_in.get(head, ())):
            if fr.body["locals"][i]["ty"].get("k") != "bool":
                continue
            v = st.mem.get(("L", fr.fid, i))
            if isinstance(v, VBool) and v.e[0] == "c":
                out.append((i, v.e[1]))
            else:
                out.append((i, None))
        if len(out) > 3:
            return ()
        return tuple(out)

    def kill_dead(self, fr, head, st):
        live_in, addr = self.liveness(fr.body)
        live = live_in.get(head, set())
        for i in range(len(fr.body["locals"])):
            if i not in live and i not in addr:
                k = ("L", fr.fid, i)
                if st.mem.get(k) is not None:
                    st.mem[k] = None
        return st

    def thresholds(self, body):
        """integer constants of a body (+-1): candidate bounds for threshold widening"""
        key = (body["def"], body.get("promoted"))
        th = self._thresholds.get(key)
        if th is None:
            cs = set()

            def op(o):
                if isinstance(o, dict) and o.get("k") == "const" and "v" in o and isinstance(o["v"], int):
                    cs.update((o["v"] - 1, o["v"], o["v"] + 1))
            for blk in body["blocks"]:
                for stt in blk["stmts"]:
                    if stt["k"] == "assign":
                        rv = stt["rv"]
                        for kk in ("l", "r", "x", "op"):
                            if kk in rv and isinstance(rv[kk], dict):
                                op(rv[kk])
                        for o in rv.get("ops", []):
                            op(o)
                t = blk["term"]
                if t["k"] == "switch":
                    for v, _ in t["targets"]:
                        cs.update((v - 1, v, v + 1))
                for a in t.get("args", []):
                    op(a)
            th = sorted(cs)
            self._thresholds[key] = th
        return th

    SOURCE_METHODS = (("std::iter::Iterator", "next"), ("util::ByteSource", "read_byte"))
    G_SRC = ("G", "source-calls")

    def is_source_call(self, callee):
        """a call that takes one item from a caller-supplied (abstract) source"""
        if (callee.get("trait"), callee.get("method")) not in self.SOURCE_METHODS:
            return False
        sty = callee.get("self_ty") or {}
        return sty.get("k") in ("param", "alias", "other", "deep") or (sty.get("k") == "ref" and (sty.get("to") or {}).get("k") in ("param", "alias"))

    def note_source_call(self, callee, outs):
        """ghost bookkeeping for the termination argument L4: count the items taken from abstract sources and mark the paths on
        which the source reported exhaustion (None / Err)"""
        from .stdsum import split_enum
        exhausted = 0 if callee.get("method") == "next" else 1
        res = []
        for (s2, val) in outs:
            if not isinstance(val, VEnum):
                res.append((s2, val))
                continue
            cur = s2.mem.get(self.G_SRC)
            base = cur.lin if isinstance(cur, VInt) else Lin.const(0)
            for s3, var, pay in split_enum(self, s2, val, "source item"):
                s3.mem[self.G_SRC] = VInt(base + 1, 64, False)
                if var == exhausted:
                    s3.ghost["source-exhausted"] = 1
                res.append((s3, VEnum(val.defn, Lin.const(var), {var: pay})))
        return res

    def loop_measure(self, fr, inv, arrivals):
        """a frame local holding a slice whose length provably shrinks by >= 1 on every back edge (L3), or: every back edge
        has taken at least one item from a caller-supplied source and no path on which the source was exhausted comes back (L4)"""
        if not arrivals:
            return "no-back-edge"
        if self.source_calls:
            g0 = inv.mem.get(self.G_SRC)
            base = g0.lin if isinstance(g0, VInt) else Lin.const(0)
            ok = True
            for a in arrivals:
                g1 = a.mem.get(self.G_SRC)
                if a.ghost.get("source-exhausted") or not isinstance(g1, VInt) or not a.prove_ge0(g1.lin - base - 1):
                    ok = False
                    break
            if ok:
                return "source-item-consumed"
        for i in range(len(fr.body["locals"])):
            v = inv.mem.get(("L", fr.fid, i))
            if not isinstance(v, VSlice):
                continue
            ok = True
            for a in arrivals:
                va = a.mem.get(("L", fr.fid, i))
                if not isinstance(va, VSlice) or not a.prove_ge0(v.n - va.n - 1):
                    ok = False
                    break
            if ok:
                return "slice-local-%d-shrinks" % i
        return None

    # =============================================================== entry points
    def new_state(self):
        return State(self.tab)

    def run_root(self, body, env, args, st):
        """analyse body from an explicit entry state; returns outcomes [(state, retval)]"""
        self.fid += 1
        fr = Frame(self.fid, body, env, 0, None)
        for i in range(len(body["locals"])):
            st.mem[("L", fr.fid, i)] = None
        for i, a in enumerate(args):
            st.mem[("L", fr.fid, i + 1)] = a
        self.stack.append(body["def"])
        key = self.inst_key(fr)
        self.visited[key] = self.visited.get(key, 0) + 1
        try:
            outs = self.run_body_frames(fr, st)
        finally:
            self.stack.pop()
        for s2, _ in outs:
            for i in range(len(body["locals"])):
                s2.mem.pop(("L", fr.fid, i), None)
        return outs

    def fresh_args(self, body, env, st):
        args = []
        for i in range(body["arg_count"]):
            ty = subst(body["locals"][i + 1]["ty"], env)
            nm = [d["name"] for d in body["debug"] if d["place"]["local"] == i + 1 and not d["place"]["proj"]]
            args.append(self.fresh_value(st, ty, "arg:" + (nm[0] if nm else str(i + 1))))
        return args

"""Joins of abstract states: sibling outcomes at a callee exit (join_pair) and
loop-head / object-invariant accumulation with delayed widening (join_into)."""
from ..lin import Lin
from .state import State, ty_range
from .values import *


def _hull(a, b):
    lo = None if (a[0] is None or b[0] is None) else min(a[0], b[0])
    hi = None if (a[1] is None or b[1] is None) else max(a[1], b[1])
    return lo, hi


def _within(inner, outer):
    (il, ih), (ol, oh) = inner, outer
    if ol is not None and (il is None or il < ol):
        return False
    if oh is not None and (ih is None or ih > oh):
        return False
    return True


MIX = VOpq(None, "mix")
# ghost flags that must survive joins (a may-have-happened on some path): merged by max
STICKY_GHOST = ("buf-write-failed", "c07-unresolved", "c07-foreign-push", "c12-acc-lost", "c03-bad", "c15-bad")


class Joiner:
    def __init__(self, ip, A, B, mark, key, keep, widen, descends=True, roots=None, thresholds=None):
        self.ip, self.A, self.B, self.mark, self.key = ip, A, B, mark, key
        self.keep, self.widen = keep, widen
        self.descends = descends      # B was computed from a copy of A (loop body from the loop invariant)
        self.roots = roots            # restrict the memory join to these roots (None = all of A)
        self.shared = set()
        self.int_leaves = []
        self.ty_facts = []
        self.hull_facts = []
        self.sib_anchors = {}
        self.collect_leaves = False
        self.jroots = 0
        self.why = []
        self.thresholds = thresholds or []
        self.out = A.copy()
        self.sigma = {}
        self.conflict = set()
        self.news = []       # (new sym, linA, linB, old join sym or None)
        self.changed = False

    # ---------------------------------------------------------------- leaves
    def is_join_sym(self, lin):
        sg = lin.single()
        if sg is None or sg[1] != 1 or lin.c != 0:
            return None
        s = sg[0]
        if self.ip.tab.origin(s) == ("join", self.key):
            return s
        return None

    def bounds_of(self, st, lin):
        lo, hi = st.interval(lin)
        if lo is None and st.prove_ge0(lin):
            lo = 0
        if len(lin.t) > 1:
            # a recorded fact may bound the expression as a whole more tightly than interval arithmetic over its symbols
            for f in st.facts:
                d = f + lin
                if d.is_const() and (hi is None or d.c < hi):
                    hi = d.c            # f = c - lin >= 0
                d = f - lin
                if d.is_const() and (lo is None or -d.c > lo):
                    lo = -d.c           # f = lin - c >= 0
        return lo, hi

    def common(self, s):
        if callable(self.mark):
            return self.mark(s) or s in self.shared
        return s < self.mark or s in self.shared

    def jlin(self, la, lb, w, sg, nonneg=False):
        """join of two linear values.  The part both sides share (same coefficient on symbols that mean
        the same in both states) is factored out; only the differing remainder is generalised to a fresh
        symbol.  In keep mode a join symbol of this key inside `la` stands for the varying part."""
        if la == lb:
            for s in la.syms():
                self.shared.add(s)
            return la
        if self.keep:
            for s_, a_ in la.t:
                if a_ in (1, -1) and self.ip.tab.origin(s_) == ("join", self.key):
                    C = la - Lin.sym(s_, a_)
                    if all(self.common(x) for x in C.syms()):
                        pl = (a_ == 1 and not C.t and C.c == 0)
                        r = self.jsym(s_, (lb - C).scale(a_), w, sg, nonneg and pl, plain=pl)
                        for x in C.syms():
                            self.shared.add(x)
                        return C + r.scale(a_)
        # factor the common part
        db_ = dict(lb.t)
        ct = []
        for s_, a_ in la.t:
            if db_.get(s_) == a_ and self.common(s_):
                ct.append((s_, a_))
        C = Lin(0, tuple(ct))
        for s_, _ in ct:
            self.shared.add(s_)
        da, dbb = la - C, lb - C
        plain = not ct
        r = self.gen(da, dbb, w, sg, nonneg and plain, None, plain)
        return C + r

    def jsym(self, old, rb, w, sg, nonneg, plain):
        """keep-mode: `old` (a join symbol of this key) against the arrival's remainder rb"""
        A, B = self.A, self.B
        if old not in self.conflict:
            ol, oh = A.bounds(old)
            tl0, th0 = ty_range(w, sg) if plain else (None, None)
            if th0 is not None and self.counter_leaf(w, sg, plain):
                th0 = COUNTER_MAX
            lo_ok = ol is None or (tl0 is not None and ol <= tl0) or B.prove_ge0(rb - ol)
            hi_ok = oh is None or (th0 is not None and oh >= th0) or B.prove_ge0(Lin.const(oh) - rb)
            if lo_ok and hi_ok:
                prev = self.sigma.get(old)
                if prev is None or prev == rb:
                    self.sigma[old] = rb
                    return Lin.sym(old)
                self.conflict.add(old)
        return self.gen(Lin.sym(old), rb, w, sg, nonneg, old, plain)

    def counter_leaf(self, w, sg, plain):
        return plain and w == 64 and not sg and isinstance(self.key, tuple) and bool(self.key) and self.key[0] == "inv"

    def gen(self, la, lb, w, sg, nonneg, old, plain):
        """fresh symbol covering la (in A) and lb (in B)"""
        A, B = self.A, self.B
        ab = self.bounds_of(A, la)
        bb = self.bounds_of(B, lb)
        lo, hi = _hull(ab, bb)
        tlo, thi = ty_range(w, sg) if plain else (None, None)
        if self.counter_leaf(w, sg, plain):
            # A3: a 64-bit unsigned leaf of a stateful object only ever grows by a bounded amount per method call (checked on the
            # inferred invariant: engine.Analysis.growth, rule COUNTER) and an object sees fewer than 2^40 calls: it stays below 2^62
            thi = COUNTER_MAX
        if self.widen and old is not None:
            ol, oh = A.bounds(old)
            if lo is None or (ol is not None and lo < ol):
                cand = [t for t in self.thresholds if lo is not None and (tlo is None or tlo <= t) and t <= lo]
                lo = max(cand) if cand else tlo
            if hi is None or (oh is not None and hi > oh):
                cand = [t for t in self.thresholds if hi is not None and hi <= t and (thi is None or t <= thi)]
                hi = min(cand) if cand else thi
        if plain:
            if lo is None or lo < tlo:
                lo = tlo
            if hi is None or hi > thi:
                hi = thi
        if nonneg and (lo is None or lo < 0):
            lo = 0
        s = self.ip.tab.fresh(lo, hi, ("join", self.key))
        self.news.append((s, la, lb, old))
        self.why.append("leaf %r (%s) vs %r (%s) -> [%s,%s]" % (la, ab, lb, bb, lo, hi))
        self.changed = True
        return Lin.sym(s)

    def note_shared(self, v):
        from .typestate import value_syms
        self.shared |= value_syms(None, [v])

    def jval(self, a, b):
        if a is b:
            if a is not None:
                self.note_shared(a)
            return a
        if a is None or b is None:
            return None
        ta = type(a)
        if ta is not type(b):
            if isinstance(a, VOpq):
                return a
            self.changed = True
            return MIX
        if a == b:
            self.note_shared(a)
            return a
        if ta is VInt:
            if a.w != b.w or a.sg != b.sg:
                self.changed = True
                return MIX
            r = self.jlin(a.lin, b.lin, a.w, a.sg)
            if not r.is_const() and not (r.single() is not None and r.c == 0 and r.single()[1] == 1):
                self.ty_facts.append((r, a.w, a.sg))
                # the joined value as a whole stays within the hull of its two sides (e.g. `n + 1` under the guard n <= 3
                # joined with `n` under n <= 4 is `n + d` with n + d <= 4, not just d in [0,1])
                la_, ha_ = self.A.interval(a.lin)
                lb_, hb_ = self.B.interval(b.lin)
                lo_ = None if la_ is None or lb_ is None else min(la_, lb_)
                hi_ = None if ha_ is None or hb_ is None else max(ha_, hb_)
                if (lo_ is not None or hi_ is not None) and not self.keep:
                    # (only for joins of sibling outcomes: in an accumulating join such a fact would be re-derived and dropped
                    #  again round after round and keep the fixpoint from settling)
                    self.hull_facts.append((r, lo_, hi_))
            if self.collect_leaves and len(self.int_leaves) < 8:
                self.int_leaves.append((a.lin, b.lin, r, a.w))
            return VInt(r, a.w, a.sg)
        if ta is VBool:
            if self.keep and a.e[0] == "sym" and self.ip.tab.origin(a.e[1]) == ("join", self.key):
                return a
            s = self.ip.tab.fresh(0, 1, ("join", self.key))
            self.changed = True
            return VBool(("sym", s))
        if ta is VAgg:
            if a.kind != b.kind or a.defn != b.defn or len(a.elems) != len(b.elems):
                self.changed = True
                return MIX
            n0 = len(self.news)
            kids = [self.jval(x, y) for x, y in zip(a.elems, b.elems)]
            if len(self.news) > n0 and len(kids) <= 8:
                # siblings of a generalised field that are one common symbol on both sides are natural anchors for it
                fresh = [t[0] for t in self.news[n0:]]
                for x, y in zip(a.elems, b.elems):
                    if isinstance(x, VInt) and x == y and x.lin.single() is not None and x.lin.c == 0 and x.lin.single()[1] == 1:
                        for f_ in fresh:
                            self.sib_anchors.setdefault(f_, []).append(x.lin.single()[0])
                    elif isinstance(x, VSlice) and isinstance(y, VSlice) and x.n == y.n and x.n.single() is not None and x.n.c == 0 \
                            and x.n.single()[1] == 1:
                        # the length of a sibling slice field (an index into it is naturally bounded by it)
                        for f_ in fresh:
                            self.sib_anchors.setdefault(f_, []).append(x.n.single()[0])
            return VAgg(a.kind, a.defn, kids)
        if ta is VEnum:
            if a.defn != b.defn:
                self.changed = True
                return MIX
            disc = self.jlin(a.disc, b.disc, 64, True)
            pay = {}
            for v in set(a.pay) | set(b.pay):
                pa, pb = a.pay.get(v), b.pay.get(v)
                fa = pa is not None and self.feasible(self.A, a.disc, v)
                fb = pb is not None and self.feasible(self.B, b.disc, v)
                if fa and fb:
                    pay[v] = tuple(self.jval(x, y) for x, y in zip(pa, pb))
                elif fa:
                    pay[v] = pa
                elif fb:
                    pay[v] = pb
                    self.changed = True
                elif pa is not None:
                    pay[v] = pa
            return VEnum(a.defn, disc, pay)
        if ta is VArr:
            if len(a.elems) != len(b.elems):
                self.changed = True
                return MIX
            return VArr([self.jval(x, y) for x, y in zip(a.elems, b.elems)])
        if ta is VArrS:
            n = self.jlin(a.n, b.n, 64, False, True)
            allv = a.allv if (a.allv is not None and a.allv == b.allv) else None
            if a.allv is not None and allv is None:
                self.changed = True
            return VArrS(a.ety, n, allv)
        if ta is VSlice:
            # slice lengths are non-negative by construction (language invariant)
            try:
                self.A.assume_ge0(a.n)
                self.B.assume_ge0(b.n)
            except Exception:
                pass
            self.jroots += 1
            jr = ("J", self.key, self.jroots)
            if a.root == jr:
                # already generalised at this leaf position: the anonymous byte object absorbs any arrival
                return VSlice(jr, (), Lin.const(0), self.jlin(a.n, b.n, 64, False, True), a.mut)
            if a.root != b.root or a.steps != b.steps:
                # slices into different byte objects: generalise to a slice of a summarised anonymous byte
                # object (deterministic root per join key and slice-leaf ordinal, so fixpoints stabilise)
                base = self.A.mem.get(a.root)
                ety = base.ety if isinstance(base, VArrS) else {"k": "int", "w": 8, "sg": False, "ptr": False, "s": "u8"}
                self.out.mem[jr] = VArrS(ety, Lin.const(0))
                self.changed = True
                self.why.append("slice roots differ %r vs %r" % (a.root, b.root))
                return VSlice(jr, (), Lin.const(0), self.jlin(a.n, b.n, 64, False, True), a.mut)
            return VSlice(a.root, a.steps, self.jlin(a.start, b.start, 64, False, True),
                          self.jlin(a.n, b.n, 64, False, True), a.mut)
        if ta is VOpq:
            return a
        # VRef / VFn / VClos / VUnit with a != b
        self.changed = True
        return MIX

    def feasible(self, st, disc, v):
        lo, hi = st.interval(disc)
        if (lo is not None and v < lo) or (hi is not None and v > hi):
            return False
        sg = disc.single()
        if sg is not None and sg[1] == 1 and disc.c == 0:
            vs = st.sets.get(sg[0])
            if vs is not None and v not in vs:
                return False
        return True

    # ---------------------------------------------------------------- whole states
    def nonneg_slices(self, vals):
        """slice lengths in the joined values are non-negative (language invariant): record it"""
        from .summary import value_syms_roots
        work = list(vals)
        seen = 0
        while work and seen < 400:
            v = work.pop()
            seen += 1
            if isinstance(v, VSlice):
                if v.n.t and len(v.n.t) > 1:
                    try:
                        self.out.assume_ge0(v.n)
                    except Exception:
                        pass
            elif isinstance(v, (VAgg, VArr, VClos)):
                work.extend(v.elems)
            elif isinstance(v, VEnum):
                for p in v.pay.values():
                    work.extend(p)

    def run(self, extra_vals=()):
        A, B, out = self.A, self.B, self.out
        # memory
        for root, va in list(A.mem.items()):
            if self.roots is not None and root not in self.roots:
                continue
            if root in B.mem:
                self.collect_leaves = (root == ("INV", 0))
                out.mem[root] = self.jval(va, B.mem[root])
                self.collect_leaves = False
            elif root[0] == "J":
                pass
            else:
                out.mem.pop(root, None)
        outs = [self.jval(x, y) for x, y in extra_vals]
        # common symbols: hull of ranges / union of sets
        for s in set(A.rng) | set(B.rng) | set(A.sets) | set(B.sets):
            if not self.common(s):
                continue
            h = _hull(A.bounds(s), B.bounds(s))
            if h != A.bounds(s):
                out.rng[s] = h
                self.why.append("range of common s%d %s -> %s" % (s, A.bounds(s), h))
                self.changed = True
            sa, sb = A.sets.get(s), B.sets.get(s)
            if sa is not None:
                if sb is not None:
                    out.sets[s] = sa | sb
                else:
                    bl, bh = B.bounds(s)
                    if bl is not None and bh is not None and bh - bl < 300:
                        out.sets[s] = sa | frozenset(range(bl, bh + 1))
                    else:
                        out.sets.pop(s, None)
                if out.sets.get(s) != sa:
                    self.changed = True
        # facts of A that survive in B (under sigma in keep mode)
        facts = []
        dropped_dirs = set()
        for f in A.facts:
            if self.keep:
                g = f.subst(self.sigma) if self.sigma else f
                if any(s in self.conflict for s in f.syms()):
                    self.changed = True
                    continue
                known = self.descends or all((s in self.sigma or self.common(s)) for s in f.syms())
                ok = known and B.prove_ge0(g)
                if DEBUG and not ok:
                    print("  DROP", f, "known", known, "shared", sorted(self.shared)[:10], "prove", B.prove_ge0(g), "Brng", {x: B.bounds(x) for x in g.syms()})
            else:
                ok = all(self.common(s) for s in f.syms()) and B.prove_ge0(f)
            if ok:
                facts.append(f)
                continue
            # weaken the constant before giving the relation up:  e - c >= 0  ~>  e - 1 >= 0  ~>  e >= 0
            weak = None
            if self.keep and f.t and f.c < 0:
                for c2 in (1, 0):
                    if -f.c > c2:
                        f2 = f - f.c - c2
                        g2 = f2.subst(self.sigma) if self.sigma else f2
                        if (self.descends or all((s in self.sigma or self.common(s)) for s in f2.syms())) and B.prove_ge0(g2):
                            weak = f2
                            break
            if weak is not None:
                facts.append(weak)
                self.changed = True
                self.why.append("fact weakened %r -> %r" % (f, weak))
                continue
            else:
                if self.keep:
                    self.why.append("fact dropped %r (as %r; sigma=%r; Bfacts=%r)" % (f, f.subst(self.sigma) if self.sigma else f, self.sigma, B.facts[:8]))
                    if self.widen:
                        dropped_dirs.add(f - f.c)
                self.changed = self.changed or self.keep
        if not self.keep:
            for f in B.facts:
                if f not in facts and all(self.common(s) for s in f.syms()) and A.prove_ge0(f):
                    facts.append(f)
        if dropped_dirs:
            # widening: once a bound e + c >= 0 failed, the whole family e + c' >= 0 (a staircase of ever weaker constants
            # accumulated during the non-widening rounds) is given up at once
            facts = [f for f in facts if (f - f.c) not in dropped_dirs]
        out.facts = facts
        # a joined integer expressed as (common part + fresh symbol) still lies in its type's range
        for lin, w, sg in self.ty_facts:
            tl, th = ty_range(w, sg)
            l, h = out.interval(lin)
            try:
                if (l is None or l < tl) and (not sg or w <= 16):
                    out.assume_ge0(lin - tl)
                if (h is None or h > th) and w <= 16:
                    out.assume_ge0(Lin.const(th) - lin)
            except Exception:
                pass
        for lin, lo_, hi_ in self.hull_facts:
            l, h = out.interval(lin)
            try:
                if lo_ is not None and (l is None or l < lo_) and abs(lo_) < (1 << 62):
                    out.assume_ge0(lin - lo_)
                if hi_ is not None and (h is None or h > hi_) and abs(hi_) < (1 << 62):
                    out.assume_ge0(Lin.const(hi_) - lin)
            except Exception:
                pass
        out.neqs = [d for d in A.neqs if d in B.neqs]
        out.ghost = {k: v for k, v in A.ghost.items() if B.ghost.get(k) == v}
        for k in STICKY_GHOST:
            va, vb = A.ghost.get(k, 0), B.ghost.get(k, 0)
            if va or vb:
                out.ghost[k] = max(va, vb)
                if vb > va and self.keep:
                    self.changed = True
        # relational facts for the new symbols
        self.post_sub = None
        self.relate()
        if self.post_sub:
            from .summary import subst_value
            outs = [subst_value(v, self.post_sub, {}) if v is not None else None for v in outs]
        self.nonneg_slices([v for v in outs if v is not None])
        return outs

    def relate(self):
        A, B, out = self.A, self.B, self.out
        for (s, la, lb, old) in self.news:
            anchors = []
            for x in la.syms() + lb.syms() + list(self.ip.cparams.values()):
                if self.common(x) and x not in anchors:
                    anchors.append(x)
            anchors = anchors[:6]
            for x in self.sib_anchors.get(s, ())[:4]:
                if self.common(x) and x not in anchors:
                    anchors.append(x)
            for r in anchors:
                rl = Lin.sym(r)
                da = A.interval(la - rl)
                db = B.interval(lb - rl)
                lo, hi = _hull(da, db)
                if self.widen:
                    # widening of relational constants: a bound that the arrival has just weakened is given up
                    if lo != da[0]:
                        lo = None
                    if hi != da[1]:
                        hi = None
                if lo is not None and (lo == hi or abs(lo) <= 4096):
                    out.facts.append(Lin.sym(s) - rl - lo)
                else:
                    for c in (1, 0):
                        if A.prove_ge0(la - rl - c) and B.prove_ge0(lb - rl - c):
                            out.facts.append(Lin.sym(s) - rl - c)
                            break
                if hi is not None and (lo == hi or abs(hi) <= 4096):
                    out.facts.append(rl - Lin.sym(s) + hi)
                else:
                    for c in (-1, 0):
                        if A.prove_ge0(rl - la + c) and B.prove_ge0(rl - lb + c):
                            out.facts.append(rl - Lin.sym(s) + c)
                            break
        # facts about join symbols that are being replaced carry over (all replacements applied at once)
        # if they hold for the arrival; constants are weakened before a relation is given up
        repl_b = {old: lb for (s, la, lb, old) in self.news if old is not None}
        repl_n = {old: Lin.sym(s) for (s, la, lb, old) in self.news if old is not None}
        if repl_b:
            for f in A.facts:
                if not any(x in repl_b for x in f.syms()):
                    continue
                cands = [f]
                if f.c < 0:
                    cands += [f - f.c - c2 for c2 in (1, 0) if -f.c > c2]
                for f1 in cands:
                    g = f1.subst(repl_b)
                    if self.sigma:
                        g = g.subst(self.sigma)
                    if not (self.descends or all((x in self.sigma or self.common(x) or x in repl_b) for x in f1.syms())):
                        continue
                    if B.prove_ge0(g):
                        nf = f1.subst(repl_n)
                        if nf not in out.facts:
                            out.facts.append(nf)
                        break
        # pairwise relations between new symbols: if the sum (difference) of two generalised values is the
        # same expression over common symbols on both sides, the second symbol is *defined* by the first
        n = self.news[:16]
        sub = {}
        for i in range(len(n)):
            for j in range(i + 1, len(n)):
                (s1, a1, b1, _), (s2, a2, b2, _) = n[i], n[j]
                if s1 in sub or s2 in sub:
                    continue
                for sign in (1, -1):
                    ea = a1 + a2.scale(sign)
                    eb = b1 + b2.scale(sign)
                    if ea == eb and all(self.common(x) for x in ea.syms()):
                        # s1 + sign*s2 = ea   =>   s2 = sign*(ea - s1)
                        sub[s2] = (ea - Lin.sym(s1)).scale(sign)
                        break
                    if i >= 8 or j >= 8:
                        continue      # beyond the first few symbols only the (cheap) definitional relation is tried
                    ia = A.interval(ea)
                    lo, hi = _hull(ia, B.interval(eb))
                    if self.widen:
                        if lo != ia[0]:
                            lo = None
                        if hi != ia[1]:
                            hi = None
                    e = Lin.sym(s1) + Lin.sym(s2, sign)
                    if sign == -1:
                        if lo is not None and abs(lo) <= 64:
                            out.facts.append(e - lo)
                        else:
                            for c in (1, 0):
                                if A.prove_ge0(ea - c) and B.prove_ge0(eb - c):
                                    out.facts.append(e - c)
                                    break
                        if hi is not None and abs(hi) <= 64:
                            out.facts.append(Lin.const(hi) - e)
                        else:
                            for c in (-1, 0):
                                if A.prove_ge0(Lin.const(c) - ea) and B.prove_ge0(Lin.const(c) - eb):
                                    out.facts.append(Lin.const(c) - e)
                                    break
        # three-way sums among the new symbols (Houdini-style candidate  s1 = s2 + s3, kept while inductive)
        if self.keep and 3 <= len(n) <= 6:
            for i in range(len(n)):
                for j in range(len(n)):
                    for k in range(j + 1, len(n)):
                        if i == j or i == k:
                            continue
                        (s1, a1, b1, _), (s2, a2, b2, _), (s3, a3, b3, _) = n[i], n[j], n[k]
                        if s1 in sub or s2 in sub or s3 in sub:
                            continue
                        if A.prove_eq0(a1 - a2 - a3) and B.prove_eq0(b1 - b2 - b3):
                            e = Lin.sym(s1) - Lin.sym(s2) - Lin.sym(s3)
                            out.facts.append(e)
                            out.facts.append(-e)
        # Houdini-style relational templates over the integer fields of a stateful object:
        # field_i = field_j + field_k is kept as long as both sides of every join entail it
        L = self.int_leaves
        for i in range(len(L)):
            if not L[i][2].t:
                continue
            for j in range(len(L)):
                for k in range(j + 1, len(L)):
                    if i == j or i == k or L[i][3] < max(L[j][3], L[k][3]):
                        continue
                    if not (L[j][2].t or L[k][2].t):
                        continue
                    if A.prove_eq0(L[i][0] - L[j][0] - L[k][0]) and B.prove_eq0(L[i][1] - L[j][1] - L[k][1]):
                        e = L[i][2] - L[j][2] - L[k][2]
                        if e.t:
                            for ee in (e, -e):
                                if ee not in out.facts:
                                    out.facts.append(ee)
        if sub:
            self.apply_sub(sub)
        self.gc()

    def apply_sub(self, sub):
        from .summary import subst_value
        out = self.out
        for s2, e in sub.items():
            lo, hi = out.bounds(s2)
            try:
                if lo is not None:
                    out.assume_ge0(e - lo)
                if hi is not None:
                    out.assume_ge0(Lin.const(hi) - e)
            except Exception:
                pass
        for r, v in list(out.mem.items()):
            if v is not None:
                out.mem[r] = subst_value(v, sub, {})
        out.facts = [f.subst(sub) for f in out.facts]
        self.post_sub = sub

    def gc(self):
        """drop facts that only talk about symbols no value refers to any more (always sound)"""
        from .typestate import value_syms
        out = self.out
        live = value_syms(out, [v for v in out.mem.values() if v is not None])
        live |= set(self.ip.cparams.values())
        keep = []
        for f in out.facts:
            dead = [x for x in f.syms() if x not in live]
            if len(dead) <= 1 and len(dead) < len(f.t):
                keep.append(f)
        out.facts = keep


def join_pair(ip, a_st, a_val, b_st, b_val, mark):
    j = Joiner(ip, a_st, b_st, mark, ("exit", mark), keep=False, widen=False)
    (v,) = j.run([(a_val, b_val)])
    return j.out, v


def join_into(ip, inv, arr, mark, key, widen=False, descends=True, roots=None, thresholds=None):
    """inv := inv JOIN arr, reusing inv's join symbols where arr stays within them.
    mark: symbol-count watermark or predicate telling which symbols mean the same in both states.
    returns (state, changed)"""
    j = Joiner(ip, inv, arr, mark, key, keep=True, widen=widen, descends=descends, roots=roots, thresholds=thresholds)
    j.run()
    if DEBUG and j.changed:
        print("JOIN", key, j.why[:6], "FACTS", j.out.facts[:10])
    return j.out, j.changed


DEBUG = False
COUNTER_MAX = 1 << 62

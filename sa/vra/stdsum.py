"""Reviewed summaries of external (core/alloc/std/crc) callees and contract summaries of
trait-method calls on type parameters.  A callee that is not listed here is reported as an
EXT violation ("unreviewed external callee"), so new library calls cannot slip in unnoticed.

Each summary states the panic precondition (as an obligation), the abstract result and the
effect on memory.  References are to rust-src (library/core, library/alloc) and crc-3.x."""
from ..lin import Lin
from .state import Infeasible, ISIZE_MAX, ty_range
from .values import *
from . import types as T
from .types import ty_str, subst, ty_args

OPT = "std::option::Option"
RES = "std::result::Result"
CF = "std::ops::ControlFlow"


def mk(defn, variant, *fields):
    return VEnum(defn, Lin.const(variant), {variant: tuple(fields)})


def split_enum(ip, st, v, what=""):
    """[(state, variant, payload)] for every feasible variant of enum value v"""
    from .interp import Unsupported
    if not isinstance(v, VEnum):
        raise Unsupported("expected enum in %s, got %r" % (what, v))
    c = st.const_of(v.disc)
    if c is not None:
        return [(st, c, v.pay.get(c, ()))]
    out = []
    for var, pay in sorted(v.pay.items()):
        s2 = st.copy()
        try:
            s2.assume_eq0(v.disc - var)
        except Infeasible:
            continue
        out.append((s2, var, pay))
    return out


def deref(ip, st, v):
    from .interp import Unsupported
    if isinstance(v, VRef):
        return ip.read_raw(st, v.root, v.steps)
    raise Unsupported("deref of %r" % (v,))


def as_slice(ip, st, v):
    """normalise &[T;N] / &[T] / &mut variants to a VSlice"""
    from .interp import Unsupported
    if isinstance(v, VSlice):
        return v
    if isinstance(v, VRef):
        t = ip.read_raw(st, v.root, v.steps)
        if isinstance(t, VArr):
            return VSlice(v.root, v.steps, Lin.const(0), Lin.const(len(t.elems)), v.mut)
        if isinstance(t, VArrS):
            return VSlice(v.root, v.steps, Lin.const(0), t.n, v.mut)
        if isinstance(t, (VInt, VBool)):
            return VSlice(v.root, v.steps, Lin.const(0), Lin.const(1), v.mut)
    raise Unsupported("not a slice: %r" % (v,))


def slice_elem(ip, st, sl, idx):
    """abstract value of element idx (Lin, relative) of slice sl"""
    return ip.read_raw(st, sl.root, sl.steps + (("ix", sl.start + idx),))


def havoc_slice(ip, st, sl):
    base = ip.read_raw(st, sl.root, sl.steps)
    if isinstance(base, VArr):
        lo, hi = st.interval(sl.start)
        nlo, nhi = st.interval(sl.start + sl.n)
        el = list(base.elems)
        for i in range(len(el)):
            if (lo is None or i >= lo) and (nhi is None or i < nhi):
                el[i] = ip.havoc_value(st, el[i], "slice-write")
        ip.write_raw(st, sl.root, sl.steps, VArr(el))
    elif isinstance(base, VArrS):
        ip.write_raw(st, sl.root, sl.steps, VArrS(base.ety, base.n, None))
    elif isinstance(base, (VInt, VBool)):
        ip.write_raw(st, sl.root, sl.steps, ip.havoc_value(st, base, "slice-write"))


def require(ip, frame, bb, st, kind, op, l, r, detail):
    """obligation  l op r ; afterwards assume it (execution continues only if it holds)"""
    ok = st.prove_cmp(op, l, r)
    ip.oblige(kind, frame, bb, ok, "%s: need %s %s %s" % (detail, st.describe(l), op, st.describe(r)), st, label=detail,
              goal=(("cmp", op, l, r), True))
    try:
        st.assume_cmp(op, l, r)
    except Infeasible:
        return False
    return True


def fork_cmp(st, op, l, r):
    """(state where l op r, state where not) ; None for infeasible sides"""
    from .state import NEG
    a = st.copy()
    try:
        a.assume_cmp(op, l, r)
    except Infeasible:
        a = None
    b = st.copy()
    try:
        b.assume_cmp(NEG[op], l, r)
    except Infeasible:
        b = None
    return a, b


# ====================================================================== Try / conversions

def s_result_branch(ip, frame, bb, st, callee, args, dty):
    out = []
    for s2, var, pay in split_enum(ip, st, args[0], "Result::branch"):
        if var == 0:
            out.append((s2, mk(CF, 0, pay[0])))
        else:
            out.append((s2, mk(CF, 1, mk(RES, 1, pay[0]))))
    return out


def s_option_branch(ip, frame, bb, st, callee, args, dty):
    out = []
    for s2, var, pay in split_enum(ip, st, args[0], "Option::branch"):
        if var == 1:
            out.append((s2, mk(CF, 0, pay[0])))
        else:
            out.append((s2, mk(CF, 1, mk(OPT, 0))))
    return out


def convert(ip, frame, bb, st, val, from_ty, to_ty):
    """From::from(val): identity when types agree, else the local From impl"""
    from .interp import Unsupported
    if ty_str(from_ty) == ty_str(to_ty):
        return [(st, val)]
    hit = ip.find_impl_method("std::convert::From", "from", to_ty, [{"g": "ty", "ty": from_ty}])
    if hit is None:
        raise Unsupported("no local From<%s> for %s" % (ty_str(from_ty), ty_str(to_ty)))
    body, env = hit
    return ip.call_local(frame, bb, st, body, env, [val])


def s_result_from_residual(ip, frame, bb, st, callee, args, dty):
    gargs = [a for a in callee["args"] if a["g"] == "ty"]
    to_res = subst(gargs[0]["ty"], frame.env)
    from_res = subst(gargs[1]["ty"], frame.env)
    to_e = ty_args(to_res)[1]
    from_e = ty_args(from_res)[1]
    out = []
    for s2, var, pay in split_enum(ip, st, args[0], "from_residual"):
        if var != 1:
            continue
        for s3, v in convert(ip, frame, bb, s2, pay[0], from_e, to_e):
            out.append((s3, mk(RES, 1, v)))
    return out


def s_option_from_residual(ip, frame, bb, st, callee, args, dty):
    return [(st, mk(OPT, 0))]


def s_into(ip, frame, bb, st, callee, args, dty):
    gargs = [a for a in callee["args"] if a["g"] == "ty"]
    ft = subst(gargs[0]["ty"], frame.env)
    tt = subst(gargs[1]["ty"], frame.env)
    return convert(ip, frame, bb, st, args[0], ft, tt)


def s_try_into(ip, frame, bb, st, callee, args, dty):
    # <&[T] as TryInto<&[T; N]>>::try_into : Ok iff len == N   (core::array TryFrom<&[T]> for &[T; N])
    from .interp import Unsupported
    sl = as_slice(ip, st, args[0])
    okty = ty_args(dty)[0]
    if okty.get("k") != "ref" or okty["to"].get("k") != "array":
        raise Unsupported("try_into to " + ty_str(okty))
    ln = okty["to"]["len"]
    if ln.get("ck") == "param":
        n = ip.const_param(st, ln["name"], frame)
    else:
        n = Lin.const(ln["v"])
    a, b = fork_cmp(st, "Eq", sl.n, n)
    out = []
    if a is not None:
        root = ip.new_oid("arrayview")
        c = a.const_of(n)
        if c is not None and c <= 16:
            a.mem[root] = VArr([slice_elem(ip, a, sl, Lin.const(i)) for i in range(c)])
        else:
            a.mem[root] = VArrS(okty["to"]["of"], n)
        out.append((a, mk(RES, 0, VRef(root, (), False))))
    if b is not None:
        out.append((b, mk(RES, 1, VOpq(ty_args(dty)[1], "TryFromSliceError"))))
    return out


def s_identity(ip, frame, bb, st, callee, args, dty):
    return [(st, args[0])]


def s_unwrap(ip, frame, bb, st, callee, args, dty):
    out = []
    for s2, var, pay in split_enum(ip, st, args[0], "unwrap"):
        good = 0 if args[0].defn == RES else 1
        if var == good:
            out.append((s2, pay[0]))
        else:
            ip.oblige("PANIC", frame, bb, False, "unwrap() on a value that may be Err/None", s2)
    if len(out) == len(split_enum(ip, st, args[0])):
        ip.oblige("PANIC", frame, bb, True, "unwrap() on a value that is always Ok/Some", st)
    return out


# ====================================================================== Option / Result combinators

def s_ok_or(ip, frame, bb, st, callee, args, dty):
    # Option::ok_or(self, err): Some(v) -> Ok(v), None -> Err(err)
    out = []
    for s2, var, pay in split_enum(ip, st, args[0], "ok_or"):
        if var == 1:
            out.append((s2, mk(RES, 0, pay[0])))
        else:
            out.append((s2, mk(RES, 1, args[1])))
    return out


def s_is_variant(variant):
    def f(ip, frame, bb, st, callee, args, dty):
        v = deref(ip, st, args[0])
        c = st.const_of(v.disc)
        if c is not None:
            return [(st, TRUE if c == variant else FALSE)]
        return [(st, VBool(("cmp", "Eq", v.disc, Lin.const(variant))))]
    return f


def s_map(defn, mapped_variant):
    def f(ip, frame, bb, st, callee, args, dty):
        out = []
        for s2, var, pay in split_enum(ip, st, args[0], "map"):
            if var == mapped_variant:
                inner_ty = None
                ta = ty_args(dty)
                if defn == OPT:
                    inner_ty = ta[0]
                else:
                    inner_ty = ta[0] if mapped_variant == 0 else ta[1]
                for s3, v in ip.call_value(frame, bb, s2, args[1], [pay[0]], inner_ty):
                    out.append((s3, mk(defn, var, v)))
            else:
                out.append((s2, VEnum(defn, Lin.const(var), {var: pay})))
        return out
    return f


def s_transpose_res(ip, frame, bb, st, callee, args, dty):
    # Result<Option<T>, E>::transpose -> Option<Result<T, E>>: Ok(None) -> None, Ok(Some(x)) -> Some(Ok(x)), Err(e) -> Some(Err(e))
    out = []
    for s2, var, pay in split_enum(ip, st, args[0], "transpose"):
        if var == 1:
            out.append((s2, mk(OPT, 1, mk(RES, 1, pay[0]))))
        else:
            for s3, v2, p2 in split_enum(ip, s2, pay[0], "transpose.inner"):
                out.append((s3, mk(OPT, 1, mk(RES, 0, p2[0])) if v2 == 1 else mk(OPT, 0)))
    return out


def s_transpose_opt(ip, frame, bb, st, callee, args, dty):
    # Option<Result<T, E>>::transpose -> Result<Option<T>, E>
    out = []
    for s2, var, pay in split_enum(ip, st, args[0], "transpose"):
        if var == 0:
            out.append((s2, mk(RES, 0, mk(OPT, 0))))
        else:
            for s3, v2, p2 in split_enum(ip, s2, pay[0], "transpose.inner"):
                out.append((s3, mk(RES, 0, mk(OPT, 1, p2[0])) if v2 == 0 else mk(RES, 1, p2[0])))
    return out


def s_res_ok(ip, frame, bb, st, callee, args, dty):
    return [(s2, mk(OPT, 1, pay[0]) if var == 0 else mk(OPT, 0)) for s2, var, pay in split_enum(ip, st, args[0], "ok")]


def s_res_err(ip, frame, bb, st, callee, args, dty):
    return [(s2, mk(OPT, 1, pay[0]) if var == 1 else mk(OPT, 0)) for s2, var, pay in split_enum(ip, st, args[0], "err")]


def s_and_then(defn):
    good = 0 if defn == RES else 1

    def f(ip, frame, bb, st, callee, args, dty):
        out = []
        for s2, var, pay in split_enum(ip, st, args[0], "and_then"):
            if var == good:
                out.extend(ip.call_value(frame, bb, s2, args[1], [pay[0]], dty))
            else:
                out.append((s2, VEnum(defn, Lin.const(var), {var: pay})))
        return out
    return f


def s_and(defn):
    # Result::and / Option::and: the second value if the first is Ok / Some, else the first's Err / None
    good = 0 if defn == RES else 1

    def f(ip, frame, bb, st, callee, args, dty):
        out = []
        for s2, var, pay in split_enum(ip, st, args[0], "and"):
            if var == good:
                out.append((s2, args[1]))
            else:
                out.append((s2, mk(defn, var, *pay)))
        return out
    return f


def s_or(defn):
    good = 0 if defn == RES else 1

    def f(ip, frame, bb, st, callee, args, dty):
        out = []
        for s2, var, pay in split_enum(ip, st, args[0], "or"):
            if var == good:
                out.append((s2, mk(defn, var, *pay)))
            else:
                out.append((s2, args[1]))
        return out
    return f


def s_or_else(defn):
    good = 0 if defn == RES else 1

    def f(ip, frame, bb, st, callee, args, dty):
        out = []
        for s2, var, pay in split_enum(ip, st, args[0], "or_else"):
            if var == good:
                out.append((s2, VEnum(defn, Lin.const(var), {var: pay})))
            else:
                out.extend(ip.call_value(frame, bb, s2, args[1], list(pay), dty))
        return out
    return f


def s_unwrap_or(defn, lazy):
    good = 0 if defn == RES else 1

    def f(ip, frame, bb, st, callee, args, dty):
        out = []
        for s2, var, pay in split_enum(ip, st, args[0], "unwrap_or"):
            if var == good:
                out.append((s2, pay[0]))
            elif lazy:
                out.extend(ip.call_value(frame, bb, s2, args[1], list(pay), dty))
            else:
                out.append((s2, args[1]))
        return out
    return f


def s_ok_or_else(ip, frame, bb, st, callee, args, dty):
    out = []
    for s2, var, pay in split_enum(ip, st, args[0], "ok_or_else"):
        if var == 1:
            out.append((s2, mk(RES, 0, pay[0])))
        else:
            for s3, v in ip.call_value(frame, bb, s2, args[1], [], ty_args(dty)[1]):
                out.append((s3, mk(RES, 1, v)))
    return out


def s_map_or(defn, lazy):
    good = 0 if defn == RES else 1

    def f(ip, frame, bb, st, callee, args, dty):
        out = []
        for s2, var, pay in split_enum(ip, st, args[0], "map_or"):
            if var == good:
                out.extend(ip.call_value(frame, bb, s2, args[2], [pay[0]], dty))
            elif lazy:
                out.extend(ip.call_value(frame, bb, s2, args[1], list(pay), dty))
            else:
                out.append((s2, args[1]))
        return out
    return f


def s_is_and(defn):
    good = 0 if defn == RES else 1

    def f(ip, frame, bb, st, callee, args, dty):
        out = []
        for s2, var, pay in split_enum(ip, st, args[0], "is_some_and"):
            if var == good:
                out.extend(ip.call_value(frame, bb, s2, args[1], [pay[0]], dty))
            else:
                out.append((s2, FALSE))
        return out
    return f


def s_opt_copied(ip, frame, bb, st, callee, args, dty):
    out = []
    for s2, var, pay in split_enum(ip, st, args[0], "copied"):
        if var == 1:
            out.append((s2, mk(OPT, 1, deref(ip, s2, pay[0]))))
        else:
            out.append((s2, mk(OPT, 0)))
    return out


def s_minmax(is_min):
    def f(ip, frame, bb, st, callee, args, dty):
        from .interp import Unsupported
        a, b = args[0], args[1]
        if isinstance(a, VRef):
            a = deref(ip, st, a)
            b = deref(ip, st, b)
        if not (isinstance(a, VInt) and isinstance(b, VInt)):
            raise Unsupported("min/max of non-integers")
        x, y = fork_cmp(st, "Le", a.lin, b.lin)
        out = []
        if x is not None:
            out.append((x, a if is_min else b))
        if y is not None:
            out.append((y, b if is_min else a))
        return out
    return f


def s_opt_zip(ip, frame, bb, st, callee, args, dty):
    out = []
    for s2, va, pa in split_enum(ip, st, args[0], "zip.a"):
        if va == 0:
            out.append((s2, mk(OPT, 0)))
            continue
        for s3, vb, pb in split_enum(ip, s2, args[1], "zip.b"):
            out.append((s3, mk(OPT, 1, VAgg("tuple", None, [pa[0], pb[0]])) if vb == 1 else mk(OPT, 0)))
    return out


def s_opt_filter(ip, frame, bb, st, callee, args, dty):
    out = []
    for s2, var, pay in split_enum(ip, st, args[0], "filter"):
        if var == 0:
            out.append((s2, mk(OPT, 0)))
            continue
        root = ip.new_oid("filter-arg")
        s2.mem[root] = pay[0]
        for s3, bv in ip.call_value(frame, bb, s2, args[1], [VRef(root, (), False)], T.BOOL_TY):
            if isinstance(bv, VBool):
                for s4 in ip.branch(s3, bv.e, True):
                    out.append((s4, mk(OPT, 1, pay[0])))
                for s4 in ip.branch(s3, bv.e, False):
                    out.append((s4, mk(OPT, 0)))
    return out


def s_bool_then(lazy):
    def f(ip, frame, bb, st, callee, args, dty):
        out = []
        bv = args[0]
        for s2 in ip.branch(st, bv.e, True):
            if lazy:
                for s3, v in ip.call_value(frame, bb, s2, args[1], [], ty_args(dty)[0]):
                    out.append((s3, mk(OPT, 1, v)))
            else:
                out.append((s2, mk(OPT, 1, args[1])))
        for s2 in ip.branch(st, bv.e, False):
            out.append((s2, mk(OPT, 0)))
        return out
    return f


def s_split_at_mut(ip, frame, bb, st, callee, args, dty):
    sl = as_slice(ip, st, args[0])
    mid = args[1].lin
    if not require(ip, frame, bb, st, "IDX", "Le", mid, sl.n, "split_at_mut mid<=len"):
        return []
    return [(st, VAgg("tuple", None, [VSlice(sl.root, sl.steps, sl.start, mid, True), VSlice(sl.root, sl.steps, sl.start + mid, sl.n - mid, True)]))]


def s_slice_fill(ip, frame, bb, st, callee, args, dty):
    sl = as_slice(ip, st, args[0])
    base = ip.read_raw(st, sl.root, sl.steps)
    c0, cn = st.const_of(sl.start), st.const_of(sl.n)
    if isinstance(base, VArr) and c0 is not None and cn is not None:
        el = list(base.elems)
        for i in range(c0, c0 + cn):
            el[i] = args[1]
        ip.write_raw(st, sl.root, sl.steps, VArr(el))
    else:
        havoc_slice(ip, st, sl)
    return [(st, UNIT)]


def s_expect(ip, frame, bb, st, callee, args, dty):
    return s_unwrap(ip, frame, bb, st, callee, args[:1], dty)


# ====================================================================== iterators

def s_array_into_iter(ip, frame, bb, st, callee, args, dty):
    return [(st, VAgg("struct", "<ArrayIntoIter>", (args[0], cint(0, 64, False))))]


def s_array_iter_next(ip, frame, bb, st, callee, args, dty):
    from .interp import Unsupported
    it = deref(ip, st, args[0])
    if not (isinstance(it, VAgg) and it.defn == "<ArrayIntoIter>"):
        raise Unsupported("array IntoIter state %r" % (it,))
    arr, idx = it.elems
    n = len(arr.elems) if isinstance(arr, VArr) else None
    c = st.const_of(idx.lin)
    if n is None or c is None:
        raise Unsupported("symbolic array iterator")
    if c < n:
        ip.write_raw(st, args[0].root, args[0].steps, VAgg("struct", "<ArrayIntoIter>", (arr, cint(c + 1, 64, False))))
        return [(st, mk(OPT, 1, arr.elems[c]))]
    return [(st, mk(OPT, 0))]


def s_range_next(ip, frame, bb, st, callee, args, dty):
    r = deref(ip, st, args[0])
    start, end = r.elems
    a, b = fork_cmp(st, "Lt", start.lin, end.lin)
    out = []
    if a is not None:
        nv = VAgg(r.kind, r.defn, (VInt(start.lin + 1, start.w, start.sg), end))
        ip.write_raw(a, args[0].root, args[0].steps, nv)
        out.append((a, mk(OPT, 1, start)))
    if b is not None:
        out.append((b, mk(OPT, 0)))
    return out


def _iter_items(ip, st, it, limit=16):
    """[(state, [items...])] for a concrete finite iterator value (Range / array IntoIter / slice Iter) with at most `limit` items"""
    from .interp import Unsupported
    if isinstance(it, VAgg) and it.defn == "std::ops::Range" and len(it.elems) == 2:
        start, end = it.elems
        res = []
        cur = [(st, [])]
        for k in range(limit + 1):
            nxt = []
            for s2, items in cur:
                a, b = fork_cmp(s2, "Lt", start.lin + k, end.lin)
                if b is not None:
                    res.append((b, items))
                if a is not None:
                    nxt.append((a, items + [VInt(start.lin + k, start.w, start.sg)]))
            cur = nxt
            if not cur:
                return res
        raise Unsupported("range longer than %d" % limit)
    if isinstance(it, VAgg) and it.defn == "<ArrayIntoIter>":
        arr, idx = it.elems
        c = st.const_of(idx.lin)
        if isinstance(arr, VArr) and c is not None and len(arr.elems) - c <= limit:
            return [(st, list(arr.elems[c:]))]
    if isinstance(it, VAgg) and it.defn == "<SliceIter>":
        sl = it.elems[0]
        lo, hi = st.interval(sl.n)
        if lo is not None and hi is not None and hi <= limit:
            res = []
            for n in range(max(lo, 0), hi + 1):
                s2 = st if lo == hi else st.copy()
                try:
                    s2.assume_eq0(sl.n - n)
                except Infeasible:
                    continue
                res.append((s2, [VRef(sl.root, sl.steps + (("ix", sl.start + i),), False) for i in range(n)]))
            return res
    if isinstance(it, VAgg) and it.defn == "std::ops::RangeInclusive" and len(it.elems) == 3:
        start, end, exh = it.elems
        if not (isinstance(exh, VBool) and exh.e == ("c", False)):
            raise Unsupported("RangeInclusive that was already iterated")
        return _iter_items(ip, st, VAgg("struct", "std::ops::Range", (start, VInt(end.lin + 1, end.w, end.sg))), limit)
    if isinstance(it, VAgg) and it.defn == "<Rev>":
        return [(s2, items[::-1]) for s2, items in _iter_items(ip, st, it.elems[0], limit)]
    raise Unsupported("iterator value %r" % (it,))


def s_try_for_each(ip, frame, bb, st, callee, args, dty):
    # Iterator::try_for_each(f) over a concrete finite iterator, for f returning Result<(), E>: stops at the first Err
    from .interp import Unsupported
    if not (dty.get("k") == "adt" and dty["def"] == RES):
        raise Unsupported("try_for_each with result " + ty_str(dty))
    it = args[0] if not isinstance(args[0], VRef) else deref(ip, st, args[0])
    out = []
    for s0, items in _iter_items(ip, st, it):
        cur = [s0]
        for item in items:
            nxt = []
            for s2 in cur:
                for s3, rv in ip.call_value(frame, bb, s2, args[1], [item], dty):
                    for s4, var, pay in split_enum(ip, s3, rv, "try_for_each"):
                        if var == 0:
                            nxt.append(s4)
                        else:
                            out.append((s4, mk(RES, 1, pay[0])))
            cur = nxt
        for s2 in cur:
            out.append((s2, mk(RES, 0, UNIT)))
    return out


def s_iter_position(ip, frame, bb, st, callee, args, dty):
    from .interp import Unsupported
    it = deref(ip, st, args[0])
    out = []
    for s0, items in _iter_items(ip, st, it, limit=8):
        cur = [s0]
        for i, item in enumerate(items):
            nxt = []
            for s2 in cur:
                for s3, bv in ip.call_value(frame, bb, s2, args[1], [item], T.BOOL_TY):
                    if not isinstance(bv, VBool):
                        raise Unsupported("position predicate result")
                    for s4 in ip.branch(s3, bv.e, True):
                        out.append((s4, mk(OPT, 1, cint(i, 64, False))))
                    for s4 in ip.branch(s3, bv.e, False):
                        nxt.append(s4)
            cur = nxt
        for s2 in cur:
            out.append((s2, mk(OPT, 0)))
    return out


def _iter_arg(ip, st, a):
    return deref(ip, st, a) if isinstance(a, VRef) else a


def _pred_once(ip, frame, bb, st, it, f, what):
    """fallback for a predicate adaptor over a slice iterator of unknown length: analyse the predicate once on an arbitrary element
    (for its obligations) and return an unknown bool"""
    from .interp import Unsupported
    if not (isinstance(it, VAgg) and it.defn == "<SliceIter>"):
        raise Unsupported("%s over %r" % (what, it))
    sl = it.elems[0]
    s2 = st.copy()
    root = ip.new_oid("iter-elem")
    base = ip.read_raw(s2, sl.root, sl.steps)
    ety = base.ety if isinstance(base, VArrS) else T.INT_TYS["u8"]
    if isinstance(base, VArr) and base.elems:
        cands = list(base.elems)
        s2.mem[root] = cands[0] if all(c == cands[0] for c in cands) else ip.generalize(s2, cands)
    else:
        s2.mem[root] = ip.fresh_value(s2, ety, "elem")
    ip.call_value(frame, bb, s2, f, [VRef(root, (), False)], T.BOOL_TY)
    return [(st, VBool(("sym", st.fresh(0, 1, what))))]


def _search(ip, frame, bb, st, it, f, hit, miss, by_ref=False):
    """run predicate f over the items in order; the first item it accepts ends the search with hit(i, item), none with miss()"""
    from .interp import Unsupported
    out = []
    for s0, items in _iter_items(ip, st, it, limit=16):
        cur = [s0]
        for i, item in enumerate(items):
            nxt = []
            for s2 in cur:
                arg = item
                if by_ref:
                    root = ip.new_oid("iter-item")
                    s2.mem[root] = item
                    arg = VRef(root, (), False)
                for s3, bv in ip.call_value(frame, bb, s2, f, [arg], T.BOOL_TY):
                    if not isinstance(bv, VBool):
                        raise Unsupported("predicate result")
                    for s4 in ip.branch(s3, bv.e, True):
                        out.append((s4, hit(i, item)))
                    for s4 in ip.branch(s3, bv.e, False):
                        nxt.append(s4)
            cur = nxt
        for s2 in cur:
            out.append((s2, miss()))
    return out


def s_iter_any(ip, frame, bb, st, callee, args, dty):
    from .interp import Unsupported
    it = _iter_arg(ip, st, args[0])
    try:
        mark = len(ip.log)
        return _search(ip, frame, bb, st.copy(), it, args[1], lambda i, x: TRUE, lambda: FALSE)
    except Unsupported:
        del ip.log[mark:]
        return _pred_once(ip, frame, bb, st, it, args[1], "Iterator::any")


def s_iter_find(ip, frame, bb, st, callee, args, dty):
    it = _iter_arg(ip, st, args[0])
    return _search(ip, frame, bb, st, it, args[1], lambda i, x: mk(OPT, 1, x), lambda: mk(OPT, 0), by_ref=True)


def _pure_closure(ip, st, f):
    """the callable captures nothing it could write through (no &mut, no closure that does)"""
    if isinstance(f, VRef):
        if f.mut:
            return False
        f = ip.read_raw(st, f.root, f.steps)
    if isinstance(f, VFn):
        return True
    if isinstance(f, VClos):
        return all(not (isinstance(e, (VRef, VSlice)) and e.mut) and (not isinstance(e, VClos) or _pure_closure(ip, st, e)) for e in f.elems)
    return False


def s_iter_fold(ip, frame, bb, st, callee, args, dty):
    from .interp import Unsupported
    it = _iter_arg(ip, st, args[0])
    out = []
    try:
        mark = len(ip.log)
        groups = _iter_items(ip, st.copy(), it, limit=16)
    except Unsupported:
        # unknown number of items of a slice: the accumulator is any value of its type; the step function is analysed once on an
        # arbitrary accumulator and element for its obligations (only for step functions without captured mutable state)
        del ip.log[mark:]
        if not (isinstance(it, VAgg) and it.defn == "<SliceIter>" and _pure_closure(ip, st, args[2])):
            raise
        sl = it.elems[0]
        s2 = st.copy()
        root = ip.new_oid("iter-elem")
        base = ip.read_raw(s2, sl.root, sl.steps)
        ety = base.ety if isinstance(base, VArrS) else T.INT_TYS["u8"]
        s2.mem[root] = ip.fresh_value(s2, ety, "elem")
        ip.call_value(frame, bb, s2, args[2], [ip.fresh_value(s2, dty, "fold acc"), VRef(root, (), False)], dty)
        return [(st, ip.fresh_value(st, dty, "fold"))]
    for s0, items in groups:
        cur = [(s0, args[1])]
        for item in items:
            nxt = []
            for s2, acc in cur:
                nxt.extend(ip.call_value(frame, bb, s2, args[2], [acc, item], dty))
            cur = nxt
        out.extend(cur)
    return out


def _for_each_opaque(ip, frame, bb, st, f, dty):
    """for_each over an iterator the analysis knows nothing about (caller-supplied, A4: it ends): the closure runs an unknown number
    of times on arbitrary items; the state after the call is the least fixpoint of `state JOIN closure(state)` (widened)"""
    from .interp import Unsupported
    from .join import join_into
    fv = ip.read_raw(st, f.root, f.steps) if isinstance(f, VRef) else f
    if not isinstance(fv, VClos) or fv.defn not in ip.f.bodies:
        raise Unsupported("for_each with %r" % (fv,))
    body = ip.f.bodies[fv.defn]
    if body["arg_count"] != 2:
        raise Unsupported("for_each closure arity")
    item_ty = subst(body["locals"][2]["ty"], fv.env or {})
    symmark = len(ip.tab.info)
    inv = st.copy()
    for n in range(14):
        mark = len(ip.log)
        s_in = inv.copy()
        item = ip.fresh_value(s_in, item_ty, "for_each item")
        changed = False
        for s2, _rv in ip.call_value(frame, bb, s_in, f, [item], dty):
            new, c = join_into(ip, inv, s2, symmark, ("for_each", frame.fid if frame is not None else 0, bb), widen=n >= 4)
            if c:
                inv, changed = new, True
        if not changed:
            return [(inv, UNIT)]
        del ip.log[mark:]
    raise Unsupported("for_each: no fixpoint")


def s_iter_for_each(ip, frame, bb, st, callee, args, dty):
    from .interp import Unsupported
    it = _iter_arg(ip, st, args[0])
    out = []
    try:
        mark = len(ip.log)
        groups = _iter_items(ip, st.copy(), it, limit=16)
    except Unsupported:
        del ip.log[mark:]
        return _for_each_opaque(ip, frame, bb, st, args[1], dty)
    for s0, items in groups:
        cur = [s0]
        for item in items:
            nxt = []
            for s2 in cur:
                nxt.extend(s3 for s3, _rv in ip.call_value(frame, bb, s2, args[1], [item], dty))
            cur = nxt
        out.extend((s2, UNIT) for s2 in cur)
    return out


def s_iter_rev(ip, frame, bb, st, callee, args, dty):
    return [(st, VAgg("struct", "<Rev>", (_iter_arg(ip, st, args[0]),)))]


def s_slice_iter_next(ip, frame, bb, st, callee, args, dty):
    from .interp import Unsupported
    it = deref(ip, st, args[0])
    if not (isinstance(it, VAgg) and it.defn == "<SliceIter>"):
        raise Unsupported("slice iterator state %r" % (it,))
    sl = it.elems[0]
    out = []
    a, b = fork_cmp(st, "Lt", Lin.const(0), sl.n)
    if a is not None:
        nv = VAgg("struct", "<SliceIter>", (VSlice(sl.root, sl.steps, sl.start + 1, sl.n - 1, sl.mut),))
        ip.write_raw(a, args[0].root, args[0].steps, nv)
        out.append((a, mk(OPT, 1, VRef(sl.root, sl.steps + (("ix", sl.start),), False))))
    if b is not None:
        out.append((b, mk(OPT, 0)))
    return out


def s_range_incl_new(ip, frame, bb, st, callee, args, dty):
    return [(st, VAgg("struct", "std::ops::RangeInclusive", (args[0], args[1], FALSE)))]


def s_range_incl_contains(ip, frame, bb, st, callee, args, dty):
    from .interp import Unsupported
    r = deref(ip, st, args[0])
    x = deref(ip, st, args[1])
    if not (isinstance(r, VAgg) and len(r.elems) == 3 and isinstance(x, VInt)):
        raise Unsupported("RangeInclusive::contains on %r" % (r,))
    lo, hi, exh = r.elems
    e = ("and", ("cmp", "Le", lo.lin, x.lin), ("cmp", "Le", x.lin, hi.lin))
    if not (isinstance(exh, VBool) and exh.e == ("c", False)):
        raise Unsupported("RangeInclusive::contains after iteration")
    return [(st, VBool(e))]


def s_range_contains(ip, frame, bb, st, callee, args, dty):
    from .interp import Unsupported
    r = deref(ip, st, args[0])
    x = deref(ip, st, args[1])
    if not (isinstance(r, VAgg) and len(r.elems) == 2 and isinstance(x, VInt)):
        raise Unsupported("Range::contains on %r" % (r,))
    lo, hi = r.elems
    return [(st, VBool(("and", ("cmp", "Le", lo.lin, x.lin), ("cmp", "Lt", x.lin, hi.lin))))]


def s_slice_iter(ip, frame, bb, st, callee, args, dty):
    return [(st, VAgg("struct", "<SliceIter>", (as_slice(ip, st, args[0]),)))]


def s_iter_all(ip, frame, bb, st, callee, args, dty):
    it = deref(ip, st, args[0])
    sl = it.elems[0]
    if st.prove_eq0(sl.n):
        return [(st, TRUE)]
    # small slice of a known array: evaluate the predicate element by element (one outcome per feasible length)
    base0 = ip.read_raw(st, sl.root, sl.steps)
    nlo, nhi = st.interval(sl.n)
    s0 = st.const_of(sl.start)
    if isinstance(base0, VArr) and s0 is not None and nlo is not None and nhi is not None and nhi - nlo <= 8 and nhi <= len(base0.elems):
        outs = []
        precise = True
        for n in range(nlo, nhi + 1):
            s2 = st.copy()
            try:
                s2.assume_eq0(sl.n - n)
            except Infeasible:
                continue
            e = ("c", True)
            for i in range(n):
                root = ip.new_oid("iter-elem")
                s2.mem[root] = base0.elems[s0 + i]
                r = ip.call_value(frame, bb, s2, args[1], [VRef(root, (), False)], T.BOOL_TY)
                if len(r) != 1 or r[0][0] is not s2 or not isinstance(r[0][1], VBool):
                    precise = False
                    break
                ce = r[0][1].e
                e = ce if e == ("c", True) else ("and", e, ce)
            if not precise:
                break
            outs.append((s2, VBool(e)))
        if precise and outs:
            return outs
    # analyse the predicate once on an arbitrary element (for its obligations); it takes its item by value
    s2 = st.copy()
    root = ip.new_oid("iter-elem")
    base = ip.read_raw(s2, sl.root, sl.steps)
    ety = base.ety if isinstance(base, VArrS) else T.INT_TYS["u8"]
    lo, hi = s2.interval(sl.n)
    if isinstance(base, VArr):
        cands = list(base.elems)
        s2.mem[root] = cands[0] if all(c == cands[0] for c in cands) else ip.generalize(s2, cands)
    else:
        s2.mem[root] = ip.fresh_value(s2, ety, "elem")
    ip.call_value(frame, bb, s2, args[1], [VRef(root, (), False)], T.BOOL_TY)
    s = st.fresh(0, 1, "Iterator::all")
    return [(st, VBool(("sym", s)))]


# ====================================================================== integers

def s_from_bytes(big):
    def f(ip, frame, bb, st, callee, args, dty):
        from .interp import Unsupported
        arr = args[0]
        w, sg = ip.int_ty(dty)
        if isinstance(arr, VArr) and len(arr.elems) * 8 == w and all(isinstance(e, VInt) for e in arr.elems):
            el = list(arr.elems)
            if big:
                el = el[::-1]
            lin = Lin.const(0)
            for i, e in enumerate(el):
                lin = lin + e.lin.scale(1 << (8 * i))
            if not sg:
                return [(st, VInt(lin, w, sg))]
            if ip.fits(st, lin, w, sg):
                return [(st, VInt(lin, w, sg))]
            r = ip.exact_wrap(st, lin, w, sg)
            if r is not None:
                return [(st, VInt(r, w, sg))]
            return [(st, ip.fresh_int(st, w, sg, "from_bytes", ("from_bytes", "be" if big else "le", lin)))]
        return [(st, ip.fresh_int(st, w, sg, "from_bytes", ("from_bytes", "be" if big else "le", None)))]
    return f


def s_to_le_bytes(ip, frame, bb, st, callee, args, dty):
    v = args[0]
    n = v.w // 8
    return [(st, VArr([ip.fresh_int(st, 8, False, "to_le_bytes", ("le_byte", v.lin, i)) for i in range(n)]))]


def s_swap_bytes(ip, frame, bb, st, callee, args, dty):
    v = args[0]
    return [(st, ip.fresh_int(st, v.w, v.sg, "swap_bytes", ("swap_bytes", v.lin)))]


def s_checked_shl(ip, frame, bb, st, callee, args, dty):
    # core::num: checked_shl(rhs) is None iff rhs >= BITS; bits shifted out are silently lost
    x, sh = args
    out = []
    a, b = fork_cmp(st, "Lt", sh.lin, Lin.const(x.w))
    if a is not None:
        c = a.const_of(sh.lin)
        if c is not None:
            r = x.lin.scale(1 << c)
            cx = a.const_of(x.lin)
            if ip.fits(a, r, x.w, x.sg):
                val = VInt(r, x.w, x.sg)
            elif cx is not None and not x.sg:
                val = cint((cx << c) & ((1 << x.w) - 1), x.w, x.sg)
            elif ip.exact_wrap(a, r, x.w, x.sg) is not None:
                val = VInt(ip.exact_wrap(a, r, x.w, x.sg), x.w, x.sg)
            else:
                val = ip.fresh_int(a, x.w, x.sg, "shl", ("shl_trunc", x.lin, c))
        else:
            val = ip.fresh_int(a, x.w, x.sg, "shl", ("shl_trunc", x.lin, None))
        out.append((a, mk(OPT, 1, val)))
    if b is not None:
        out.append((b, mk(OPT, 0)))
    return out


def s_wrapping_shift(left):
    # wrapping_shl / wrapping_shr: the shift amount is taken modulo the bit width
    def f(ip, frame, bb, st, callee, args, dty):
        x, sh = args
        c = st.const_of(sh.lin)
        if c is not None:
            amt = Lin.const(c % x.w)
        else:
            lo, hi = st.interval(sh.lin)
            if lo is not None and hi is not None and 0 <= lo and hi < x.w:
                amt = sh.lin
            else:
                amt = ip.fresh_int(st, 32, False, "shift amount", ("and", sh.lin, x.w - 1), 0, x.w - 1).lin
        return [(st, ip.eval_bitop("Shl" if left else "Shr", x.lin, amt, x.w, x.sg, st))]
    return f


def s_leading_zeros(ip, frame, bb, st, callee, args, dty):
    # leading_zeros of an unsigned value: a symbol defined from its operand; a comparison of it with a constant refines the
    # operand (Interp.refine_lz), so `if x.leading_zeros() < 4 { return Err }` leaves x < 2^(w-4)
    from .interp import Unsupported
    x = args[0]
    if not isinstance(x, VInt) or x.sg:
        raise Unsupported("leading_zeros of %r" % (x,))
    lo, hi = st.interval(x.lin)
    rlo = x.w - hi.bit_length() if hi is not None and hi >= 0 else 0
    rhi = x.w - lo.bit_length() if lo is not None and lo >= 0 else x.w
    return [(st, ip.fresh_int(st, 32, False, "leading_zeros", ("lz", x.lin, x.w), max(rlo, 0), min(rhi, x.w)))]


def s_checked(opname):
    def f(ip, frame, bb, st, callee, args, dty):
        from .interp import Unsupported
        x, y = args
        if opname == "sub":
            r = x.lin - y.lin
        elif opname == "add":
            r = x.lin + y.lin
        else:
            cy, cx = st.const_of(y.lin), st.const_of(x.lin)
            if cy is not None:
                r = x.lin.scale(cy)
            elif cx is not None:
                r = y.lin.scale(cx)
            else:
                raise Unsupported("checked_mul of two non-constants")
        lo, hi = ty_range(x.w, x.sg)
        out = []
        s_ok = st.copy()
        try:
            s_ok.assume_ge0(r - lo)
            s_ok.assume_ge0(Lin.const(hi) - r)
            out.append((s_ok, mk(OPT, 1, VInt(r, x.w, x.sg))))
        except Infeasible:
            pass
        for op, bound in (("Lt", lo), ("Gt", hi)):
            s_no = st.copy()
            try:
                s_no.assume_cmp(op, r, Lin.const(bound))
                out.append((s_no, mk(OPT, 0)))
            except Infeasible:
                pass
        return out
    return f


def s_wrapping(opname):
    def f(ip, frame, bb, st, callee, args, dty):
        x, y = args
        r = x.lin - y.lin if opname == "sub" else x.lin + y.lin
        return [(st, ip.wrap(st, r, x.w, x.sg, "wrapping_" + opname))]
    return f


def s_int_from(ip, frame, bb, st, callee, args, dty):
    a = args[0]
    if isinstance(a, VBool) and a.e[0] != "c":
        # From<bool>: split on the truth value so the result is a constant on each path
        w, sg = ip.int_ty(dty)
        out = []
        for s2 in ip.branch(st, a.e, True):
            out.append((s2, cint(1, w, sg)))
        for s2 in ip.branch(st, a.e, False):
            out.append((s2, cint(0, w, sg)))
        return out
    return [(st, ip.cast_int(st, a, dty))]


def s_zero(ip, frame, bb, st, callee, args, dty):
    w, sg = ip.int_ty(dty)
    return [(st, cint(0, w, sg))]


def s_min(ip, frame, bb, st, callee, args, dty):
    x, y = args
    a, b = fork_cmp(st, "Le", x.lin, y.lin)
    out = []
    if a is not None:
        out.append((a, x))
    if b is not None:
        out.append((b, y))
    return out


def s_size_of(ip, frame, bb, st, callee, args, dty):
    from .interp import Unsupported
    ty = subst([a for a in callee["args"] if a["g"] == "ty"][0]["ty"], frame.env)
    k = ty.get("k")
    if k == "int":
        return [(st, cint(ty["w"] // 8, 64, False))]
    if k == "bool":
        return [(st, cint(1, 64, False))]
    raise Unsupported("size_of " + ty_str(ty))


# ====================================================================== panics

def s_panic(ip, frame, bb, st, callee, args, dty):
    ip.oblige("PANIC", frame, bb, False, "reachable call to " + callee["def"], st)
    return []


def s_opaque(ip, frame, bb, st, callee, args, dty):
    return [(st, ip.fresh_value(st, dty, "ret:" + callee["def"]))]


# ====================================================================== slices / arrays

def s_len(ip, frame, bb, st, callee, args, dty):
    return [(st, VInt(as_slice(ip, st, args[0]).n, 64, False))]


def s_is_empty(ip, frame, bb, st, callee, args, dty):
    n = as_slice(ip, st, args[0]).n
    c = st.const_of(n)
    if c is not None:
        return [(st, TRUE if c == 0 else FALSE)]
    return [(st, VBool(("cmp", "Eq", n, Lin.const(0))))]


def s_first(ip, frame, bb, st, callee, args, dty):
    sl = as_slice(ip, st, args[0])
    a, b = fork_cmp(st, "Eq", sl.n, Lin.const(0))
    out = []
    if a is not None:
        out.append((a, mk(OPT, 0)))
    if b is not None:
        out.append((b, mk(OPT, 1, VRef(sl.root, sl.steps + (("ix", sl.start),), False))))
    return out


def s_last(ip, frame, bb, st, callee, args, dty):
    sl = as_slice(ip, st, args[0])
    a, b = fork_cmp(st, "Eq", sl.n, Lin.const(0))
    out = []
    if a is not None:
        out.append((a, mk(OPT, 0)))
    if b is not None:
        out.append((b, mk(OPT, 1, VRef(sl.root, sl.steps + (("ix", sl.start + sl.n - 1),), False))))
    return out


def _tuple(*vals):
    return VAgg("tuple", None, list(vals))


def s_split_first(ip, frame, bb, st, callee, args, dty):
    # <[T]>::split_first: None for an empty slice, else Some((&s[0], &s[1..]))
    sl = as_slice(ip, st, args[0])
    a, b = fork_cmp(st, "Eq", sl.n, Lin.const(0))
    out = []
    if a is not None:
        out.append((a, mk(OPT, 0)))
    if b is not None:
        out.append((b, mk(OPT, 1, _tuple(VRef(sl.root, sl.steps + (("ix", sl.start),), sl.mut),
                                         VSlice(sl.root, sl.steps, sl.start + 1, sl.n - 1, sl.mut)))))
    return out


def s_split_last(ip, frame, bb, st, callee, args, dty):
    sl = as_slice(ip, st, args[0])
    a, b = fork_cmp(st, "Eq", sl.n, Lin.const(0))
    out = []
    if a is not None:
        out.append((a, mk(OPT, 0)))
    if b is not None:
        out.append((b, mk(OPT, 1, _tuple(VRef(sl.root, sl.steps + (("ix", sl.start + sl.n - 1),), sl.mut),
                                         VSlice(sl.root, sl.steps, sl.start, sl.n - 1, sl.mut)))))
    return out


def s_split_at(ip, frame, bb, st, callee, args, dty):
    # <[T]>::split_at(mid): panics unless mid <= len
    sl = as_slice(ip, st, args[0])
    mid = args[1].lin
    if not require(ip, frame, bb, st, "IDX", "Le", mid, sl.n, "split_at mid<=len"):
        return []
    return [(st, _tuple(VSlice(sl.root, sl.steps, sl.start, mid, sl.mut), VSlice(sl.root, sl.steps, sl.start + mid, sl.n - mid, sl.mut)))]


def s_split_at_checked(ip, frame, bb, st, callee, args, dty):
    sl = as_slice(ip, st, args[0])
    mid = args[1].lin
    a, b = fork_cmp(st, "Le", mid, sl.n)
    out = []
    if a is not None:
        out.append((a, mk(OPT, 1, _tuple(VSlice(sl.root, sl.steps, sl.start, mid, sl.mut),
                                         VSlice(sl.root, sl.steps, sl.start + mid, sl.n - mid, sl.mut)))))
    if b is not None:
        out.append((b, mk(OPT, 0)))
    return out


def s_slice_get(ip, frame, bb, st, callee, args, dty):
    # <[T]>::get(idx | range): None when out of bounds
    sl = as_slice(ip, st, args[0])
    out = []
    if isinstance(args[1], VInt):
        i = args[1].lin
        a, b = fork_cmp(st, "Lt", i, sl.n)
        if a is not None:
            out.append((a, mk(OPT, 1, VRef(sl.root, sl.steps + (("ix", sl.start + i),), sl.mut))))
        if b is not None:
            out.append((b, mk(OPT, 0)))
        return out
    s_, e_ = range_bounds(ip, st, args[1], sl.n)
    a, b = fork_cmp(st, "Le", s_, e_)
    if a is not None:
        a2, b2 = fork_cmp(a, "Le", e_, sl.n)
        if a2 is not None:
            out.append((a2, mk(OPT, 1, VSlice(sl.root, sl.steps, sl.start + s_, e_ - s_, sl.mut))))
        if b2 is not None:
            out.append((b2, mk(OPT, 0)))
    if b is not None:
        out.append((b, mk(OPT, 0)))
    return out


def _array_len(ip, st, frame, aty):
    ln = aty["len"]
    if ln.get("ck") == "param":
        return ip.const_param(st, ln["name"], frame)
    return Lin.const(ln["v"])


def _array_view(ip, st, sl, n, ety):
    root = ip.new_oid("arrayview")
    c = st.const_of(n)
    if c is not None and c <= 16:
        st.mem[root] = VArr([slice_elem(ip, st, VSlice(sl.root, sl.steps, sl.start, n, sl.mut), Lin.const(i)) for i in range(c)])
    else:
        st.mem[root] = VArrS(ety, n)
    return VRef(root, (), False)


def s_first_chunk(ip, frame, bb, st, callee, args, dty):
    # <[T]>::first_chunk::<N>: Some(&s[..N] as &[T; N]) iff len >= N
    sl = as_slice(ip, st, args[0])
    okty = ty_args(dty)[0]
    n = _array_len(ip, st, frame, okty["to"])
    a, b = fork_cmp(st, "Ge", sl.n, n)
    out = []
    if a is not None:
        out.append((a, mk(OPT, 1, _array_view(ip, a, sl, n, okty["to"]["of"]))))
    if b is not None:
        out.append((b, mk(OPT, 0)))
    return out


def s_split_first_chunk(ip, frame, bb, st, callee, args, dty):
    sl = as_slice(ip, st, args[0])
    tup = ty_args(dty)[0]
    aty = tup["elems"][0] if "elems" in tup else tup["tys"][0]
    n = _array_len(ip, st, frame, aty["to"])
    a, b = fork_cmp(st, "Ge", sl.n, n)
    out = []
    if a is not None:
        out.append((a, mk(OPT, 1, _tuple(_array_view(ip, a, sl, n, aty["to"]["of"]),
                                         VSlice(sl.root, sl.steps, sl.start + n, sl.n - n, sl.mut)))))
    if b is not None:
        out.append((b, mk(OPT, 0)))
    return out


def range_bounds(ip, st, rng, n):
    """(start, end) Lin of a std::ops range value applied to a slice of length n"""
    from .interp import Unsupported
    if isinstance(rng, VAgg):
        d = rng.defn
        if d == "std::ops::RangeFrom":
            return rng.elems[0].lin, n
        if d == "std::ops::RangeTo":
            return Lin.const(0), rng.elems[0].lin
        if d == "std::ops::Range":
            return rng.elems[0].lin, rng.elems[1].lin
        if d == "std::ops::RangeFull":
            return Lin.const(0), n
    if isinstance(rng, VOpq) and rng.ty and rng.ty.get("def") == "std::ops::RangeFull":
        return Lin.const(0), n
    raise Unsupported("range value %r" % (rng,))


def s_index(ip, frame, bb, st, callee, args, dty):
    # core::slice::index: panics unless start <= end <= len (slice_index_order_fail / slice_end_index_len_fail)
    sl = as_slice(ip, st, args[0])
    if isinstance(args[1], VInt):
        i = args[1].lin
        if not require(ip, frame, bb, st, "IDX", "Lt", i, sl.n, "slice[idx]"):
            return []
        return [(st, VRef(sl.root, sl.steps + (("ix", sl.start + i),), sl.mut))]
    s, e = range_bounds(ip, st, args[1], sl.n)
    if not require(ip, frame, bb, st, "IDX", "Le", s, e, "slice[start..end] start<=end"):
        return []
    if not require(ip, frame, bb, st, "IDX", "Le", e, sl.n, "slice[start..end] end<=len"):
        return []
    for h in ip.on_index:
        h(ip, frame, bb, st, sl, s, e)
    return [(st, VSlice(sl.root, sl.steps, sl.start + s, e - s, sl.mut))]


def s_copy_from_slice(ip, frame, bb, st, callee, args, dty):
    # core::slice::copy_from_slice: panics if the lengths differ
    dst = as_slice(ip, st, args[0])
    src = as_slice(ip, st, args[1])
    if not require(ip, frame, bb, st, "IDX", "Eq", dst.n, src.n, "copy_from_slice lengths"):
        return []
    for h in ip.on_copy:
        h(ip, frame, bb, st, dst, src)
    base = ip.read_raw(st, dst.root, dst.steps)
    d0, dn = st.const_of(dst.start), st.const_of(dst.n)
    if isinstance(base, VArr) and d0 is not None and dn is not None and dn <= 16 and d0 + dn <= len(base.elems):
        # small constant range of a known array: element-precise copy
        el = list(base.elems)
        for i in range(dn):
            el[d0 + i] = slice_elem(ip, st, src, Lin.const(i))
        ip.write_raw(st, dst.root, dst.steps, VArr(el))
    else:
        havoc_slice(ip, st, dst)
    return [(st, UNIT)]


def s_copy_within(ip, frame, bb, st, callee, args, dty):
    # core::slice::copy_within(src_range, dest): panics unless src range valid and dest <= len - count
    sl = as_slice(ip, st, args[0])
    s, e = range_bounds(ip, st, args[1], sl.n)
    d = args[2].lin
    if not require(ip, frame, bb, st, "IDX", "Le", s, e, "copy_within start<=end"):
        return []
    if not require(ip, frame, bb, st, "IDX", "Le", e, sl.n, "copy_within end<=len"):
        return []
    if not require(ip, frame, bb, st, "IDX", "Le", d + (e - s), sl.n, "copy_within dest+count<=len"):
        return []
    base = ip.read_raw(st, sl.root, sl.steps)
    cs, ce, cd, c0 = st.const_of(s), st.const_of(e), st.const_of(d), st.const_of(sl.start)
    if isinstance(base, VArr) and None not in (cs, ce, cd, c0):
        el = list(base.elems)
        src = el[c0 + cs:c0 + ce]
        for i, v in enumerate(src):
            el[c0 + cd + i] = v
        ip.write_raw(st, sl.root, sl.steps, VArr(el))
        return [(st, UNIT)]
    havoc_slice(ip, st, sl)
    return [(st, UNIT)]


def s_array_eq(ip, frame, bb, st, callee, args, dty):
    a = deref(ip, st, args[0])
    b = deref(ip, st, args[1])
    if isinstance(a, VArr) and isinstance(b, VArr) and len(a.elems) == len(b.elems):
        e = ("c", True)
        for x, y in zip(a.elems, b.elems):
            c = struct_eq(ip, st, x, y)
            e = c if e == ("c", True) else ("and", e, c)
        return [(st, VBool(e))]
    return [(st, VBool(("sym", st.fresh(0, 1, "array eq"))))]


def slice_eq(ip, st, a, b):
    """[(state, bool expr)]: element-wise equality of two slices; one outcome per feasible (small) length"""
    if not st.prove_eq0(a.n - b.n):
        lo, hi = st.interval(a.n - b.n)
        if (lo is not None and lo > 0) or (hi is not None and hi < 0):
            return [(st, ("c", False))]
        # lengths may differ: split on a.n == b.n when both are small, else unknown
        la, ha = st.interval(a.n)
        lb, hb = st.interval(b.n)
        if None in (la, ha, lb, hb) or ha - la > 8 or hb - lb > 8:
            return [(st, ("sym", st.fresh(0, 1, "slice eq")))]
        out = []
        for x, op in ((a.n - b.n - 1, "ge"), (b.n - a.n - 1, "ge")):
            s2 = st.copy()
            try:
                s2.assume_ge0(x)
                out.append((s2, ("c", False)))
            except Infeasible:
                pass
        s2 = st.copy()
        try:
            s2.assume_eq0(a.n - b.n)
            out.extend(slice_eq(ip, s2, a, b))
        except Infeasible:
            pass
        return out
    lo, hi = st.interval(a.n)
    if lo is None or hi is None or hi > 32 or hi - lo > 8:
        return [(st, ("sym", st.fresh(0, 1, "slice eq")))]
    out = []
    for n in range(max(lo, 0), hi + 1):
        s2 = st if lo == hi else st.copy()
        try:
            s2.assume_eq0(a.n - n)
        except Infeasible:
            continue
        e = ("c", True)
        for i in range(n):
            c = struct_eq(ip, s2, slice_elem(ip, s2, a, Lin.const(i)), slice_elem(ip, s2, b, Lin.const(i)))
            if c == ("c", False):
                e = c
                break
            if c != ("c", True):
                e = c if e == ("c", True) else ("and", e, c)
        out.append((s2, e))
    return out


def _affix(prefix, strip):
    # <[T]>::{starts_with, ends_with, strip_prefix, strip_suffix}(needle)
    def f(ip, frame, bb, st, callee, args, dty):
        hay = as_slice(ip, st, args[0])
        nd = as_slice(ip, st, args[1])
        out = []

        def no(s):
            out.append((s, mk(OPT, 0) if strip else FALSE))
        a, b = fork_cmp(st, "Le", nd.n, hay.n)
        if b is not None:
            no(b)
        if a is not None:
            off = Lin.const(0) if prefix else hay.n - nd.n
            part = VSlice(hay.root, hay.steps, hay.start + off, nd.n, hay.mut)
            for s2, e in slice_eq(ip, a, part, nd):
                for s3 in ip.branch(s2, e, True):
                    if strip:
                        rest = VSlice(hay.root, hay.steps, hay.start + (nd.n if prefix else Lin.const(0)), hay.n - nd.n, hay.mut)
                        out.append((s3, mk(OPT, 1, rest)))
                    else:
                        out.append((s3, TRUE))
                for s3 in ip.branch(s2, e, False):
                    no(s3)
        return out
    return f


def s_slice_eq(ip, frame, bb, st, callee, args, dty):
    a, b = as_slice(ip, st, args[0]), as_slice(ip, st, args[1])
    return [(s2, VBool(e)) for s2, e in slice_eq(ip, st, a, b)]


def _neg(e):
    return ("c", not e[1]) if e[0] == "c" else ("not", e)


def struct_eq(ip, st, a, b):
    """field-wise equality of two values as a bool expr (derived PartialEq, A7)"""
    if isinstance(a, VInt) and isinstance(b, VInt):
        ca, cb = st.const_of(a.lin), st.const_of(b.lin)
        if ca is not None and cb is not None:
            return ("c", ca == cb)
        return ("cmp", "Eq", a.lin, b.lin)
    if isinstance(a, VBool) and isinstance(b, VBool):
        if a.e[0] == "c":
            return b.e if a.e[1] else ("not", b.e)
        if b.e[0] == "c":
            return a.e if b.e[1] else ("not", a.e)
        return ("or", ("and", a.e, b.e), ("and", ("not", a.e), ("not", b.e)))
    if isinstance(a, VUnit) and isinstance(b, VUnit):
        return ("c", True)
    if isinstance(a, VAgg) and isinstance(b, VAgg) and len(a.elems) == len(b.elems):
        e = ("c", True)
        for x, y in zip(a.elems, b.elems):
            c = struct_eq(ip, st, x, y)
            if c == ("c", False):
                return c
            if c != ("c", True):
                e = c if e == ("c", True) else ("and", e, c)
        return e
    if isinstance(a, VEnum) and isinstance(b, VEnum) and a.defn == b.defn:
        ca, cb = st.const_of(a.disc), st.const_of(b.disc)
        if ca is not None and cb is not None:
            if ca != cb:
                return ("c", False)
            return struct_eq(ip, st, VAgg("variant", None, a.pay.get(ca, ())), VAgg("variant", None, b.pay.get(cb, ())))
        de = ("cmp", "Eq", a.disc, b.disc)
        if all(len(p) == 0 for p in a.pay.values()) and all(len(p) == 0 for p in b.pay.values()):
            return de
        # payload-carrying: equal only if discriminants agree (necessary), payload comparison unknown
        return ("and", de, ("sym", st.fresh(0, 1, "enum payload eq")))
    if isinstance(a, VRef) and isinstance(b, VRef):
        return struct_eq(ip, st, ip.read_raw(st, a.root, a.steps), ip.read_raw(st, b.root, b.steps))
    return ("sym", st.fresh(0, 1, "eq"))


def s_derived_eq(ip, frame, bb, st, callee, args, dty):
    a = deref(ip, st, args[0])
    b = deref(ip, st, args[1])
    return [(st, VBool(struct_eq(ip, st, a, b)))]


def s_ne(ip, frame, bb, st, callee, args, dty):
    if isinstance(args[0], VSlice) or isinstance(args[1], VSlice):
        a, b = as_slice(ip, st, args[0]), as_slice(ip, st, args[1])
        return [(s2, VBool(_neg(e))) for s2, e in slice_eq(ip, st, a, b)]
    a = deref(ip, st, args[0])
    b = deref(ip, st, args[1])
    e = struct_eq(ip, st, a, b)
    if e[0] == "c":
        return [(st, FALSE if e[1] else TRUE)]
    return [(st, VBool(("not", e)))]


def s_array_default(ip, frame, bb, st, callee, args, dty):
    from .interp import Unsupported
    if dty.get("k") == "array" and dty["len"].get("ck") == "val" and dty["of"].get("k") == "int":
        w, sg = ip.int_ty(dty["of"])
        return [(st, VArr([cint(0, w, sg)] * dty["len"]["v"]))]
    raise Unsupported("array default for " + ty_str(dty))


def s_from_mut(ip, frame, bb, st, callee, args, dty):
    r = args[0]
    return [(st, VSlice(r.root, r.steps, Lin.const(0), Lin.const(1), True))]


def s_from_ref(ip, frame, bb, st, callee, args, dty):
    r = args[0]
    return [(st, VSlice(r.root, r.steps, Lin.const(0), Lin.const(1), False))]


def s_replace(ip, frame, bb, st, callee, args, dty):
    # mem::replace(dest, src): returns the old *dest and stores src
    a = args[0]
    old = ip.read_raw(st, a.root, a.steps)
    ip.write_raw(st, a.root, a.steps, args[1])
    return [(st, old)]


def s_take(ip, frame, bb, st, callee, args, dty):
    # mem::take(dest): returns the old *dest and stores T::default()
    from .interp import Unsupported
    a = args[0]
    old = ip.read_raw(st, a.root, a.steps)
    if isinstance(old, VSlice):
        root = ip.new_oid("empty")
        st.mem[root] = VArr([])
        new = VSlice(root, (), Lin.const(0), Lin.const(0), False)
    elif isinstance(old, VInt):
        new = cint(0, old.w, old.sg)
    elif isinstance(old, VBool):
        new = FALSE
    else:
        hit = ip.find_impl_method("std::default::Default", "default", dty, [])
        if hit is None:
            raise Unsupported("mem::take of " + ty_str(dty))
        outs = ip.call_local(frame, bb, st, hit[0], hit[1], [])
        res = []
        for s2, v in outs:
            ip.write_raw(s2, a.root, a.steps, v)
            res.append((s2, old))
        return res
    ip.write_raw(st, a.root, a.steps, new)
    return [(st, old)]


def s_ref_eq(negate):
    # <&A as PartialEq<&B>>::eq / ne: compares the referents
    def f(ip, frame, bb, st, callee, args, dty):
        a = deref(ip, st, args[0])
        b = deref(ip, st, args[1])
        if isinstance(a, VSlice) and isinstance(b, VSlice):
            return [(s2, VBool(_neg(e) if negate else e)) for s2, e in slice_eq(ip, st, a, b)]
        a2 = deref(ip, st, a) if isinstance(a, VRef) else a
        b2 = deref(ip, st, b) if isinstance(b, VRef) else b
        e = struct_eq(ip, st, a2, b2)
        if negate:
            e = ("c", not e[1]) if e[0] == "c" else ("not", e)
        return [(st, VBool(e))]
    return f


def s_wrapping_neg(ip, frame, bb, st, callee, args, dty):
    x = args[0]
    return [(st, ip.wrap(st, -x.lin, x.w, x.sg, "wrapping_neg"))]


def s_saturating(opname):
    def f(ip, frame, bb, st, callee, args, dty):
        x, y = args
        w, sg = x.w, x.sg
        from .state import ty_range
        lo, hi = ty_range(w, sg)
        r = x.lin - y.lin if opname == "sub" else x.lin + y.lin
        out = []
        a, b = fork_cmp(st, "Ge", r, Lin.const(lo))
        if b is not None:
            out.append((b, cint(lo, w, sg)))
        if a is not None:
            a2, b2 = fork_cmp(a, "Le", r, Lin.const(hi))
            if a2 is not None:
                out.append((a2, VInt(r, w, sg)))
            if b2 is not None:
                out.append((b2, cint(hi, w, sg)))
        return out
    return f


def s_swap(ip, frame, bb, st, callee, args, dty):
    a, b = args
    va = ip.read_raw(st, a.root, a.steps)
    vb = ip.read_raw(st, b.root, b.steps)
    ip.write_raw(st, a.root, a.steps, vb)
    ip.write_raw(st, b.root, b.steps, va)
    return [(st, UNIT)]


# ====================================================================== crc (crc-3.x: all total)

def crc_log_of(ip, obj):
    """what has been fed to this digest value since it was created: tuple of per-update tuples (byte constants, ('sym', Lin) or '?');
    None if its history is unknown.  The history belongs to the value, so it follows the digest through helpers and assignments."""
    ent = getattr(ip, "crc_log", {}).get(id(obj))
    return ent[1] if ent is not None and ent[0] is obj else None


def _crc_bytes(ip, st, sl):
    from .interp import Unsupported
    n = st.const_of(sl.n)
    if n is None or n > 64:
        return ("?",)
    out = []
    for i in range(n):
        try:
            v = slice_elem(ip, st, sl, Lin.const(i))
        except Unsupported:
            return ("?",)
        c = st.const_of(v.lin) if isinstance(v, VInt) else None
        out.append(c if c is not None else ("sym", v.lin if isinstance(v, VInt) else None))
    return tuple(out)


def s_crc_digest(ip, frame, bb, st, callee, args, dty):
    new = VOpq(dty, "crc-digest-fresh")
    if getattr(ip, "crc_log", None) is None:
        ip.crc_log = {}
    ip.crc_log[id(new)] = (new, ())
    return [(st, new)]


def s_crc_update(ip, frame, bb, st, callee, args, dty):
    sl = as_slice(ip, st, args[1])
    for h in ip.on_crc:
        h(ip, frame, bb, st, "update", args[0], sl)
    r = args[0]
    if isinstance(r, VRef):
        cur = ip.read_raw(st, r.root, r.steps)
        if isinstance(cur, VOpq) and cur.tag in ("crc-digest-fresh", "crc-digest-fed"):
            new = VOpq(cur.ty, "crc-digest-fed")
            ip.write_raw(st, r.root, r.steps, new)
            lg = crc_log_of(ip, cur)
            if lg is not None:
                ip.crc_log[id(new)] = (new, lg + (_crc_bytes(ip, st, sl),))
            once = getattr(ip, "crc_once", None)
            if once is None:
                once = ip.crc_once = {}
            if cur.tag == "crc-digest-fresh":
                # a fresh digest fed exactly one slice: finalize() of it is Crc::checksum of that slice
                once[id(new)] = (new, sl)
    return [(st, UNIT)]


def s_crc_finalize(ip, frame, bb, st, callee, args, dty):
    obj = args[0]
    if isinstance(obj, VRef):
        obj = ip.read_raw(st, obj.root, obj.steps)
    ent = getattr(ip, "crc_once", {}).get(id(obj))
    if ent is not None and ent[0] is obj:
        sl = ent[1]
        v = ip.fresh_int(st, 16, False, ("crc_checksum", sl.root, sl.steps, sl.start, sl.n))
    else:
        v = ip.fresh_int(st, 16, False, ("crc_finalize",))
    for h in ip.on_crc:
        h(ip, frame, bb, st, "finalize", args[0], v)
    return [(st, v)]


def s_crc_checksum(ip, frame, bb, st, callee, args, dty):
    sl = as_slice(ip, st, args[1])
    v = ip.fresh_int(st, 16, False, ("crc_checksum", sl.root, sl.steps, sl.start, sl.n))
    return [(st, v)]


def s_crc_clone(ip, frame, bb, st, callee, args, dty):
    return [(st, deref(ip, st, args[0]))]


# ====================================================================== Vec (alloc::vec)

def s_vec_new(ip, frame, bb, st, callee, args, dty):
    return [(st, VOpq(dty, "vec"))]


def s_vec_with_capacity(ip, frame, bb, st, callee, args, dty):
    for h in ip.on_alloc:
        h(ip, frame, bb, st, "with_capacity", args[0].lin)
    return [(st, VOpq(dty, "vec"))]


def s_vec_push(ip, frame, bb, st, callee, args, dty):
    for h in ip.on_alloc:
        h(ip, frame, bb, st, "push", Lin.const(1))
    return [(st, UNIT)]


def s_vec_unit(ip, frame, bb, st, callee, args, dty):
    return [(st, UNIT)]


def s_vec_extend(ip, frame, bb, st, callee, args, dty):
    sl = as_slice(ip, st, args[1])
    for h in ip.on_alloc:
        h(ip, frame, bb, st, "extend_from_slice", sl.n)
    return [(st, UNIT)]


def s_vec_try_reserve(ip, frame, bb, st, callee, args, dty):
    a = st.copy()
    ety = ty_args(dty)[1]
    return [(st, mk(RES, 0, UNIT)), (a, mk(RES, 1, VOpq(ety, "TryReserveError")))]


def s_to_vec(ip, frame, bb, st, callee, args, dty):
    sl = as_slice(ip, st, args[0])
    for h in ip.on_alloc:
        h(ip, frame, bb, st, "to_vec", sl.n)
    return [(st, VOpq(dty, "vec"))]


# ====================================================================== contracts for calls on type parameters

def c_fallible_write(ip, frame, bb, st, callee, args, dty):
    # util::Buffer::{push, extend_from_slice}: Ok(()) or Err(OutOfMemory); touches only the buffer
    b = st.copy()
    return [(st, mk(RES, 0, UNIT)), (b, mk(RES, 1, VAgg("struct", "util::OutOfMemory", ())))]


def _drop_deref_cache(st, ref):
    if isinstance(ref, VRef):
        for k in [k for k in st.ghost if isinstance(k, tuple) and k and k[0] == "deref" and k[1] == ref.root]:
            del st.ghost[k]


def c_buffer_write(ip, frame, bb, st, callee, args, dty):
    _drop_deref_cache(st, args[0])
    outs = c_fallible_write(ip, frame, bb, st, callee, args, dty)
    outs[1][0].ghost["buf-write-failed"] = 1
    return outs


def c_buffer_unit(ip, frame, bb, st, callee, args, dty):
    _drop_deref_cache(st, args[0])
    return [(st, UNIT)]


def c_deref(ip, frame, bb, st, callee, args, dty):
    """Deref::deref of a sealed Buffer is a pure function of the buffer (both impls are checked for that
    in C18): two derefs with no write to the buffer in between denote the same slice"""
    r = args[0]
    if isinstance(r, VRef):
        key = ("deref", r.root, r.steps)
        v = st.ghost.get(key)
        if v is None:
            v = ip.fresh_value(st, dty, "deref")
            st.ghost[key] = v
        return [(st, v)]
    return [(st, ip.fresh_value(st, dty, "deref"))]


def c_borrow(ip, frame, bb, st, callee, args, dty):
    """Borrow::borrow: for a concrete Self borrowed as itself (`impl<T> Borrow<T> for T`) the reference is returned as is;
    for an abstract Self an arbitrary reference"""
    sty = callee.get("self_ty")
    if sty is not None:
        sty = subst(sty, frame.env)
        targ = [a for a in callee.get("args", [])[1:] if a.get("g") == "ty"]
        if sty.get("k") in ("int", "bool", "char") and targ and ty_str(subst(targ[0]["ty"], frame.env)) == ty_str(sty) and isinstance(args[0], VRef):
            return [(st, args[0])]
    return c_fresh(ip, frame, bb, st, callee, args, dty)


def c_unit(ip, frame, bb, st, callee, args, dty):
    return [(st, UNIT)]


def c_fresh(ip, frame, bb, st, callee, args, dty):
    return [(st, ip.fresh_value(st, dty, "ret:" + callee["path_with_args"]))]


def c_read_exact(ip, frame, bb, st, callee, args, dty):
    sl = as_slice(ip, st, args[1])
    havoc_slice(ip, st, sl)
    return [(st, ip.fresh_value(st, dty, "ret:read_exact"))]


def c_call(ip, frame, bb, st, callee, args, dty):
    f = args[0]
    rest = args[1]
    if isinstance(rest, VAgg) and rest.kind == "tuple":
        a = list(rest.elems)
    elif isinstance(rest, VUnit):
        a = []
    else:
        a = [rest]
    return ip.call_value(frame, bb, st, f, a, dty)


def install(ip):
    ip.on_index = []
    ip.on_copy = []
    ip.on_crc = []
    ip.on_alloc = []
    E = ip.extern
    E["<std::result::Result<T, E> as std::ops::Try>::branch"] = s_result_branch
    E["<std::option::Option<T> as std::ops::Try>::branch"] = s_option_branch
    E["<std::result::Result<T, F> as std::ops::FromResidual<std::result::Result<std::convert::Infallible, E>>>::from_residual"] = s_result_from_residual
    E["<std::option::Option<T> as std::ops::FromResidual<std::option::Option<std::convert::Infallible>>>::from_residual"] = s_option_from_residual
    E["<T as std::convert::Into<U>>::into"] = s_into
    E["<T as std::convert::TryInto<U>>::try_into"] = s_try_into
    E["std::array::<impl std::convert::TryFrom<&'a [T]> for &'a [T; N]>::try_from"] = s_try_into
    E["<I as std::iter::IntoIterator>::into_iter"] = s_identity
    E["std::iter::Iterator::by_ref"] = s_identity
    E["std::cmp::min"] = s_minmax(True)
    E["std::cmp::max"] = s_minmax(False)
    E["std::cmp::Ord::min"] = s_minmax(True)
    E["std::cmp::Ord::max"] = s_minmax(False)
    E["std::result::Result::<T, E>::unwrap"] = s_unwrap
    E["std::option::Option::<T>::unwrap"] = s_unwrap
    E["std::option::Option::<T>::is_some"] = s_is_variant(1)
    E["std::option::Option::<T>::is_none"] = s_is_variant(0)
    E["std::result::Result::<T, E>::is_err"] = s_is_variant(1)
    E["std::result::Result::<T, E>::is_ok"] = s_is_variant(0)
    E["std::option::Option::<T>::ok_or"] = s_ok_or
    E["std::option::Option::<T>::ok_or_else"] = s_ok_or_else
    E["std::result::Result::<std::option::Option<T>, E>::transpose"] = s_transpose_res
    E["std::option::Option::<std::result::Result<T, E>>::transpose"] = s_transpose_opt
    E["std::result::Result::<T, E>::ok"] = s_res_ok
    E["std::result::Result::<T, E>::err"] = s_res_err
    E["std::result::Result::<T, E>::and_then"] = s_and_then(RES)
    E["std::option::Option::<T>::and_then"] = s_and_then(OPT)
    E["std::result::Result::<T, E>::or_else"] = s_or_else(RES)
    E["std::result::Result::<T, E>::and"] = s_and(RES)
    E["std::option::Option::<T>::and"] = s_and(OPT)
    E["std::result::Result::<T, E>::or"] = s_or(RES)
    E["std::option::Option::<T>::or"] = s_or(OPT)
    E["std::option::Option::<T>::or_else"] = s_or_else(OPT)
    E["std::result::Result::<T, E>::unwrap_or"] = s_unwrap_or(RES, False)
    E["std::option::Option::<T>::unwrap_or"] = s_unwrap_or(OPT, False)
    E["std::result::Result::<T, E>::unwrap_or_else"] = s_unwrap_or(RES, True)
    E["std::option::Option::<T>::unwrap_or_else"] = s_unwrap_or(OPT, True)
    E["std::result::Result::<T, E>::map_or"] = s_map_or(RES, False)
    E["std::option::Option::<T>::map_or"] = s_map_or(OPT, False)
    E["std::result::Result::<T, E>::map_or_else"] = s_map_or(RES, True)
    E["std::option::Option::<T>::map_or_else"] = s_map_or(OPT, True)
    E["std::option::Option::<T>::is_some_and"] = s_is_and(OPT)
    E["std::result::Result::<T, E>::is_ok_and"] = s_is_and(RES)
    E["std::option::Option::<T>::zip"] = s_opt_zip
    E["std::option::Option::<T>::filter"] = s_opt_filter
    E["core::bool::<impl bool>::then"] = s_bool_then(True)
    E["core::bool::<impl bool>::then_some"] = s_bool_then(False)
    E["core::slice::<impl [T]>::split_at_mut"] = s_split_at_mut
    E["core::slice::<impl [T]>::fill"] = s_slice_fill
    E["std::option::Option::<&T>::copied"] = s_opt_copied
    E["std::option::Option::<&T>::cloned"] = s_opt_copied
    E["std::result::Result::<T, E>::expect"] = s_expect
    E["std::option::Option::<T>::expect"] = s_expect
    E["std::option::Option::<T>::map"] = s_map(OPT, 1)
    E["std::result::Result::<T, E>::map"] = s_map(RES, 0)
    E["std::result::Result::<T, E>::map_err"] = s_map(RES, 1)
    E["std::array::iter::<impl std::iter::IntoIterator for [T; N]>::into_iter"] = s_array_into_iter
    E["<std::array::IntoIter<T, N> as std::iter::Iterator>::next"] = s_array_iter_next
    E["std::iter::range::<impl std::iter::Iterator for std::ops::Range<A>>::next"] = s_range_next
    E["core::slice::<impl [T]>::iter"] = s_slice_iter
    E["<std::slice::Iter<'a, T> as std::iter::Iterator>::all"] = s_iter_all
    E["<std::slice::Iter<'a, T> as std::iter::Iterator>::position"] = s_iter_position
    E["<std::slice::Iter<'a, T> as std::iter::Iterator>::any"] = s_iter_any
    E["<std::slice::Iter<'a, T> as std::iter::Iterator>::fold"] = s_iter_fold
    E["<std::slice::Iter<'a, T> as std::iter::Iterator>::next"] = s_slice_iter_next
    E["<std::slice::Iter<'a, T> as std::iter::Iterator>::find"] = s_iter_find
    E["<std::slice::Iter<'a, T> as std::iter::Iterator>::for_each"] = s_iter_for_each
    E["core::slice::iter::<impl std::iter::IntoIterator for &'a [T]>::into_iter"] = s_slice_iter
    E["std::iter::Iterator::rev"] = s_iter_rev
    E["std::iter::Iterator::for_each"] = s_iter_for_each
    E["<std::iter::Rev<I> as std::iter::Iterator>::find"] = s_iter_find
    E["<std::iter::Rev<I> as std::iter::Iterator>::fold"] = s_iter_fold
    E["std::ops::RangeInclusive::<Idx>::new"] = s_range_incl_new
    E["std::ops::RangeInclusive::<Idx>::contains"] = s_range_incl_contains
    E["std::ops::Range::<Idx>::contains"] = s_range_contains
    E["std::array::equality::<impl std::cmp::PartialEq<[U]> for [T; N]>::eq"] = s_slice_eq
    E["std::array::equality::<impl std::cmp::PartialEq<[U; N]> for [T]>::eq"] = s_slice_eq
    E["std::iter::Iterator::try_for_each"] = s_try_for_each
    E["<std::option::Option<T> as std::cmp::PartialEq>::eq"] = s_derived_eq
    E["<std::option::Option<T> as std::cmp::PartialEq>::ne"] = s_ne
    for t in ("u16", "u32", "u64", "i8", "i16", "i32", "i64", "u8"):
        E["core::num::<impl %s>::from_be_bytes" % t] = s_from_bytes(True)
        E["core::num::<impl %s>::from_le_bytes" % t] = s_from_bytes(False)
        E["core::num::<impl %s>::to_le_bytes" % t] = s_to_le_bytes
        E["core::num::<impl %s>::swap_bytes" % t] = s_swap_bytes
        E["core::num::<impl %s>::checked_shl" % t] = s_checked_shl
        E["core::num::<impl %s>::leading_zeros" % t] = s_leading_zeros
        E["core::num::<impl %s>::wrapping_shl" % t] = s_wrapping_shift(True)
        E["core::num::<impl %s>::wrapping_shr" % t] = s_wrapping_shift(False)
        E["core::num::<impl %s>::checked_sub" % t] = s_checked("sub")
        E["core::num::<impl %s>::checked_add" % t] = s_checked("add")
        E["core::num::<impl %s>::checked_mul" % t] = s_checked("mul")
        E["core::num::<impl %s>::wrapping_sub" % t] = s_wrapping("sub")
        E["core::num::<impl %s>::wrapping_add" % t] = s_wrapping("add")
    E["core::num::<impl usize>::checked_sub"] = s_checked("sub")
    E["core::num::<impl usize>::checked_add"] = s_checked("add")
    E["core::num::<impl usize>::checked_mul"] = s_checked("mul")
    for b in ("u8", "u16", "u32", "u64", "u128", "usize", "i8", "i16", "i32", "i64", "i128", "isize"):
        E["std::convert::num::<impl std::convert::From<bool> for %s>::from" % b] = s_int_from
    for a, b in (("u8", "u16"), ("u8", "u32"), ("u8", "u64"), ("u8", "usize"), ("u16", "u32"), ("u16", "u64"),
                 ("u32", "u64"), ("u16", "usize"), ("u32", "usize")):
        E["std::convert::num::<impl std::convert::From<%s> for %s>::from" % (a, b)] = s_int_from
    E["<usize as std::default::Default>::default"] = s_zero
    E["<u8 as std::default::Default>::default"] = s_zero
    E["std::cmp::Ord::min"] = s_min
    E["std::mem::size_of"] = s_size_of
    E["core::panicking::panic"] = s_panic
    E["core::panicking::panic_fmt"] = s_panic
    E["core::panicking::assert_failed"] = s_panic
    E["core::panicking::unreachable_display"] = s_panic
    E["std::fmt::Arguments::<'a>::from_str"] = s_opaque
    E["std::any::type_name"] = s_opaque
    E["std::io::Error::kind"] = s_opaque
    E["core::slice::<impl [T]>::len"] = s_len
    E["core::slice::<impl [T]>::is_empty"] = s_is_empty
    E["core::slice::<impl [T]>::first"] = s_first
    E["core::slice::<impl [T]>::last"] = s_last
    E["core::slice::<impl [T]>::split_first"] = s_split_first
    E["core::slice::<impl [T]>::split_last"] = s_split_last
    E["core::slice::<impl [T]>::split_at"] = s_split_at
    E["core::slice::<impl [T]>::split_at_checked"] = s_split_at_checked
    E["core::slice::<impl [T]>::get"] = s_slice_get
    E["core::slice::<impl [T]>::get_mut"] = s_slice_get
    E["core::slice::<impl [T]>::starts_with"] = _affix(True, False)
    E["core::slice::<impl [T]>::ends_with"] = _affix(False, False)
    E["core::slice::<impl [T]>::strip_prefix"] = _affix(True, True)
    E["core::slice::<impl [T]>::strip_suffix"] = _affix(False, True)
    E["core::slice::<impl [T]>::first_chunk"] = s_first_chunk
    E["core::slice::<impl [T]>::split_first_chunk"] = s_split_first_chunk
    E["core::slice::index::<impl std::ops::Index<I> for [T]>::index"] = s_index
    E["core::slice::index::<impl std::ops::IndexMut<I> for [T]>::index_mut"] = s_index
    E["std::array::<impl std::ops::Index<I> for [T; N]>::index"] = s_index
    E["std::array::<impl std::ops::IndexMut<I> for [T; N]>::index_mut"] = s_index
    E["core::slice::<impl [T]>::copy_from_slice"] = s_copy_from_slice
    E["core::slice::<impl [T]>::copy_within"] = s_copy_within
    E["std::array::equality::<impl std::cmp::PartialEq<[U; N]> for [T; N]>::eq"] = s_array_eq
    E["core::slice::cmp::<impl std::cmp::PartialEq<[U]> for [T]>::eq"] = s_slice_eq
    E["std::cmp::PartialEq::ne"] = s_ne
    E["std::array::<impl std::default::Default for [T; core::::array::{impl#61}::{constant#0}]>::default"] = s_array_default
    E["std::slice::from_mut"] = s_from_mut
    E["std::mem::swap"] = s_swap
    E["std::mem::replace"] = s_replace
    E["std::mem::take"] = s_take
    E["std::slice::from_ref"] = s_from_ref
    E["std::cmp::impls::<impl std::cmp::PartialEq<&B> for &A>::eq"] = s_ref_eq(False)
    E["std::cmp::impls::<impl std::cmp::PartialEq<&B> for &A>::ne"] = s_ref_eq(True)
    E["<std::io::ErrorKind as std::cmp::PartialEq>::eq"] = s_derived_eq
    E["<std::io::ErrorKind as std::cmp::PartialEq>::ne"] = s_ne
    for t in ("u8", "u16", "u32", "u64", "usize", "i8", "i16", "i32", "i64", "isize"):
        E["core::num::<impl %s>::wrapping_neg" % t] = s_wrapping_neg
        E["core::num::<impl %s>::saturating_sub" % t] = s_saturating("sub")
        E["core::num::<impl %s>::saturating_add" % t] = s_saturating("add")
    E["crc::crc16::<impl crc::Crc<u16, crc::Table<L>>>::digest"] = s_crc_digest
    E["crc::crc16::<impl crc::Crc<u16, crc::Table<L>>>::checksum"] = s_crc_checksum
    E["crc::crc16::<impl crc::Digest<'a, u16, crc::Table<L>>>::update"] = s_crc_update
    E["crc::crc16::<impl crc::Digest<'a, u16, crc::Table<L>>>::finalize"] = s_crc_finalize
    E["<crc::Digest<'a, W, I> as std::clone::Clone>::clone"] = s_crc_clone
    E["std::vec::Vec::<T>::new"] = s_vec_new
    E["std::vec::Vec::<T>::with_capacity"] = s_vec_with_capacity
    E["std::vec::Vec::<T, A>::push"] = s_vec_push
    E["std::vec::Vec::<T, A>::clear"] = s_vec_unit
    E["std::vec::Vec::<T, A>::truncate"] = s_vec_unit
    E["std::vec::Vec::<T, A>::extend_from_slice"] = s_vec_extend
    E["std::vec::Vec::<T, A>::try_reserve"] = s_vec_try_reserve
    E["std::slice::<impl [T]>::to_vec"] = s_to_vec
    C = ip.contracts
    C[("util::Buffer", "push")] = c_buffer_write
    C[("util::Buffer", "extend_from_slice")] = c_buffer_write
    C[("util::Buffer", "clear")] = c_buffer_unit
    C[("util::Buffer", "truncate")] = c_buffer_unit
    C[("std::ops::Deref", "deref")] = c_deref
    C[("std::default::Default", "default")] = c_fresh
    C[("std::iter::Iterator", "next")] = c_fresh
    C[("std::iter::Iterator", "map")] = c_fresh
    C[("std::iter::IntoIterator", "into_iter")] = c_fresh
    C[("std::borrow::Borrow", "borrow")] = c_borrow
    C[("util::ByteSource", "read_byte")] = c_fresh
    C[("util::ByteSourceErr", "kind")] = c_fresh
    C[("util::ByteSourceErr", "is_eof")] = c_fresh
    C[("util::ByteSourceErr", "is_would_block")] = c_fresh
    C[("std::io::Read", "read_exact")] = c_read_exact
    C[("embedded_hal::serial::Read", "read")] = c_fresh
    C[("embedded_hal::prelude::_embedded_hal_serial_Read", "read")] = c_fresh
    C[("SmlParse", "parse_from")] = c_fresh
    C[("std::ops::FnMut", "call_mut")] = c_call
    C[("std::ops::FnOnce", "call_once")] = c_call
    C[("std::ops::Fn", "call")] = c_call

"""Abstract values of the value-range analyser."""
from ..lin import Lin


class VInt:
    __slots__ = ("lin", "w", "sg")

    def __init__(self, lin, w, sg):
        self.lin, self.w, self.sg = lin, w, sg

    def __repr__(self):
        return "Int(%r:%s%d)" % (self.lin, "i" if self.sg else "u", self.w)

    def __eq__(self, o):
        return isinstance(o, VInt) and self.lin == o.lin and self.w == o.w and self.sg == o.sg

    def __hash__(self):
        return hash(("I", self.lin, self.w, self.sg))


class VBool:
    """e: ('c', bool) | ('cmp', op, Lin, Lin) | ('not', e) | ('and', e, e) | ('or', e, e) | ('sym', s)"""
    __slots__ = ("e",)

    def __init__(self, e):
        self.e = e

    def __repr__(self):
        return "Bool%r" % (self.e,)

    def __eq__(self, o):
        return isinstance(o, VBool) and self.e == o.e

    def __hash__(self):
        return hash(("B", self.e))


TRUE = VBool(("c", True))
FALSE = VBool(("c", False))


class VUnit:
    __slots__ = ()

    def __repr__(self):
        return "()"

    def __eq__(self, o):
        return isinstance(o, VUnit)

    def __hash__(self):
        return 7


UNIT = VUnit()


class VAgg:
    """tuple / struct / closure; kind in {'tuple','struct','closure'}"""
    __slots__ = ("kind", "defn", "elems")

    def __init__(self, kind, defn, elems):
        self.kind, self.defn, self.elems = kind, defn, tuple(elems)

    def __repr__(self):
        return "%s%s%r" % (self.kind[0], ("<%s>" % self.defn.split("::")[-1]) if self.defn else "", self.elems)

    def __eq__(self, o):
        return isinstance(o, VAgg) and self.kind == o.kind and self.defn == o.defn and self.elems == o.elems

    def __hash__(self):
        return hash(("A", self.kind, self.defn, self.elems))


class VClos:
    """closure value: body def, captured values, generic environment of the creating frame"""
    __slots__ = ("defn", "elems", "env")

    def __init__(self, defn, elems, env):
        self.defn, self.elems, self.env = defn, tuple(elems), env

    def __repr__(self):
        return "closure<%s>%r" % (self.defn.split("::")[-1], self.elems)

    def __eq__(self, o):
        return isinstance(o, VClos) and self.defn == o.defn and self.elems == o.elems

    def __hash__(self):
        return hash(("C", self.defn, self.elems))


class VEnum:
    """disc: Lin; pay: dict variant idx -> tuple of field values (only for variants that may be live)"""
    __slots__ = ("defn", "disc", "pay")

    def __init__(self, defn, disc, pay):
        self.defn, self.disc, self.pay = defn, disc, pay

    def __repr__(self):
        return "E<%s>(%r,%r)" % (self.defn.split("::")[-1], self.disc, self.pay)

    def __eq__(self, o):
        return isinstance(o, VEnum) and self.defn == o.defn and self.disc == o.disc and self.pay == o.pay

    def __hash__(self):
        return hash(("E", self.defn, self.disc, tuple(sorted(self.pay.items()))))


class VArr:
    __slots__ = ("elems",)

    def __init__(self, elems):
        self.elems = tuple(elems)

    def __repr__(self):
        return "Arr%r" % (self.elems,)

    def __eq__(self, o):
        return isinstance(o, VArr) and self.elems == o.elems

    def __hash__(self):
        return hash(("R", self.elems))


class VArrS:
    """summarised array: element type ety, length n (Lin), allv: value every element equals (or None)"""
    __slots__ = ("ety", "n", "allv")

    def __init__(self, ety, n, allv=None):
        self.ety, self.n, self.allv = ety, n, allv

    def __repr__(self):
        return "ArrS(%s;%r%s)" % (self.ety.get("s"), self.n, ("=%r" % self.allv) if self.allv is not None else "")

    def __eq__(self, o):
        return isinstance(o, VArrS) and self.ety.get("s") == o.ety.get("s") and self.n == o.n and self.allv == o.allv

    def __hash__(self):
        return hash(("S", self.ety.get("s"), self.n))


class VRef:
    __slots__ = ("root", "steps", "mut")

    def __init__(self, root, steps=(), mut=False):
        self.root, self.steps, self.mut = root, tuple(steps), mut

    def __repr__(self):
        return "&%r%r" % (self.root, self.steps)

    def __eq__(self, o):
        return isinstance(o, VRef) and self.root == o.root and self.steps == o.steps

    def __hash__(self):
        return hash(("P", self.root, self.steps))


class VSlice:
    """fat pointer into an array-like object at (root, steps): elements [start, start+n)"""
    __slots__ = ("root", "steps", "start", "n", "mut")

    def __init__(self, root, steps, start, n, mut=False):
        self.root, self.steps, self.start, self.n, self.mut = root, tuple(steps), start, n, mut

    def __repr__(self):
        return "&%r%r[%r;+%r]" % (self.root, self.steps, self.start, self.n)

    def __eq__(self, o):
        return (isinstance(o, VSlice) and self.root == o.root and self.steps == o.steps
                and self.start == o.start and self.n == o.n)

    def __hash__(self):
        return hash(("L", self.root, self.steps, self.start, self.n))


class VFn:
    __slots__ = ("callee",)

    def __init__(self, callee):
        self.callee = callee

    def __repr__(self):
        return "fn(%s)" % self.callee["def"]

    def __eq__(self, o):
        return isinstance(o, VFn) and self.callee["path_with_args"] == o.callee["path_with_args"]

    def __hash__(self):
        return hash(("F", self.callee["path_with_args"]))


class VOpq:
    """opaque value of (substituted) type ty; tag distinguishes origins for rules"""
    __slots__ = ("ty", "tag")

    def __init__(self, ty, tag=""):
        self.ty, self.tag = ty, tag

    def __repr__(self):
        return "Opq<%s>%s" % (self.ty.get("s") if self.ty else "?", self.tag)

    def __eq__(self, o):
        return isinstance(o, VOpq) and (self.ty or {}).get("s") == (o.ty or {}).get("s") and self.tag == o.tag

    def __hash__(self):
        return hash(("O", (self.ty or {}).get("s"), self.tag))


def cint(v, w, sg):
    return VInt(Lin.const(v), w, sg)


def is_const_int(v):
    return isinstance(v, VInt) and v.lin.is_const()

"""Congruence reasoning over the analyser's symbol definitions: possible residues of a linear expression modulo m.
Symbols introduced for `a % m2`, `a & (2^k - 1)`, wrapping / truncating arithmetic and truncating shifts are congruent to
their defining expression modulo every divisor of their modulus; symbols with small value sets are enumerated."""
from ..lin import Lin
from .state import Infeasible


def _modulus_of(ip, s):
    i = ip.tab.info[s]
    if i["lo"] is None or i["hi"] is None:
        return None
    return i["hi"] - i["lo"] + 1


def _type_modulus(ip, st, s):
    """2^w of the integer type a wrap/trunc symbol was created for (its declared range)"""
    return _modulus_of(ip, s)


def _subst_def(ip, st, s, m):
    """an expression congruent to symbol s modulo m, from its definition, or None"""
    d = ip.tab.defn(s)
    if not d:
        return None
    k = d[0]
    if k == "rem" and isinstance(d[1], Lin) and isinstance(d[2], int) and d[2] % m == 0:
        return d[1]
    if k == "and" and isinstance(d[1], Lin) and isinstance(d[2], int) and d[2] >= 0 and (d[2] & (d[2] + 1)) == 0 and (d[2] + 1) % m == 0:
        return d[1]
    if k in ("wrap", "trunc"):
        inner = d[2] if k == "wrap" else d[1]
        M = _type_modulus(ip, st, s)
        if isinstance(inner, Lin) and M and M % m == 0:
            return inner
    if k == "shl_trunc" and isinstance(d[1], Lin) and isinstance(d[2], int):
        M = _type_modulus(ip, st, s)
        if M and M % m == 0:
            return d[1].scale(1 << d[2])
    return None


def residues(ip, st, lin, m, budget=None, folded=frozenset()):
    """set of possible values of lin mod m under st, or None if unknown"""
    if budget is None:
        budget = [200]
    budget[0] -= 1
    if budget[0] < 0:
        return None
    t = Lin.const(lin.c % m)
    for s, a in lin.t:
        if a % m:
            lo, hi = st.bounds(s)
            if lo is not None and lo == hi:
                t = t + Lin.const((a * lo) % m)
            else:
                t = t + Lin.sym(s, a % m)
    t = Lin.const(t.c % m) + (t - Lin.const(t.c))
    if t.is_const():
        return {t.c % m}
    # 1. definitional substitution
    for s, a in t.t:
        e = None if s in folded else _subst_def(ip, st, s, m)
        if e is not None:
            return residues(ip, st, t - Lin.sym(s, a) + e.scale(a), m, budget, folded)
    # 2. a symbol for `L % m2` exists whose L covers an unbounded symbol of t
    for s, a in t.t:
        if st.values(s) is not None:
            continue
        for r, info in enumerate(ip.tab.info):
            d = info["def"]
            if d and d[0] == "and" and isinstance(d[1], Lin) and isinstance(d[2], int) and d[2] >= 0 and (d[2] & (d[2] + 1)) == 0:
                d = ("rem", d[1], d[2] + 1)
            if d and d[0] == "rem" and isinstance(d[1], Lin) and isinstance(d[2], int) and d[2] % m == 0:
                c = d[1].coef(s)
                if c and a % c == 0 and all(st.values(x) is not None or x == s for x, _ in d[1].t):
                    k = a // c
                    return residues(ip, st, t - d[1].scale(k) + Lin.sym(r, k), m, budget, folded | {r})
    # 3. enumerate a symbol with a small value set
    best = None
    for s, a in t.t:
        vs = st.values(s)
        if vs is not None and len(vs) <= 16 and (best is None or len(vs) < len(best[1])):
            best = (s, vs, a)
    if best is None:
        return None
    s, vs, a = best
    out = set()
    for v in sorted(vs):
        s2 = st.copy()
        try:
            s2.assume_eq0(Lin.sym(s, 1) - v)
        except Infeasible:
            continue
        r = residues(ip, s2, t - Lin.sym(s, a) + Lin.const(a * v), m, budget, folded)
        if r is None:
            return None
        out |= r
    return out


def congruent0(ip, st, lin, m):
    return residues(ip, st, lin, m) == {0}

"""Object-invariant (typestate) inference for the crate's stateful private-field types.

I = lfp( post(constructors)  JOIN  post_m(I) for every interface method m ), partitioned by a
key (usually the variant of the state enum).  Obligations inside methods are then discharged
*under* I, and because I covers the post-state of every exit (including Err returns) "the
object stays usable after an error" is part of what is established."""
from ..lin import Lin
from .state import State, Infeasible
from .values import *
from .join import join_into
from .interp import Unsupported

INVROOT = ("INV", 0)
WIDEN_AFTER = 18
MAX_ROUNDS = 24


def reachable_roots(st, vals):
    seen = set()
    work = list(vals)
    while work:
        v = work.pop()
        if isinstance(v, (VRef, VSlice)):
            if v.root not in seen:
                seen.add(v.root)
                if v.root in st.mem and st.mem[v.root] is not None:
                    work.append(st.mem[v.root])
        elif isinstance(v, (VAgg, VArr, VClos)):
            work.extend(v.elems)
        elif isinstance(v, VEnum):
            for p in v.pay.values():
                work.extend(p)
        elif isinstance(v, VArrS) and v.allv is not None:
            work.append(v.allv)
    return seen


def value_syms(st, vals):
    out = set()
    work = list(vals)
    while work:
        v = work.pop()
        if isinstance(v, VInt):
            out.update(v.lin.syms())
        elif isinstance(v, VBool):
            _bool_syms(v.e, out)
        elif isinstance(v, (VAgg, VArr, VClos)):
            work.extend(v.elems)
        elif isinstance(v, VEnum):
            out.update(v.disc.syms())
            for p in v.pay.values():
                work.extend(p)
        elif isinstance(v, VArrS):
            out.update(v.n.syms())
            if v.allv is not None:
                work.append(v.allv)
        elif isinstance(v, VSlice):
            out.update(v.start.syms())
            out.update(v.n.syms())
    return out


def _bool_syms(e, out):
    k = e[0]
    if k == "cmp":
        out.update(e[2].syms())
        out.update(e[3].syms())
    elif k == "sym":
        out.add(e[1])
    elif k in ("not",):
        _bool_syms(e[1], out)
    elif k in ("and", "or"):
        _bool_syms(e[1], out)
        _bool_syms(e[2], out)


def reduce_state(ip, st, objval):
    """a small state holding only the object (at INVROOT), the heap objects it references and the
    constraints over the symbols that occur in them"""
    r = State(st.tab)
    roots = reachable_roots(st, [objval])
    r.mem[INVROOT] = objval
    for rt in roots:
        if rt in st.mem:
            r.mem[rt] = st.mem[rt]
    syms = value_syms(st, [v for v in r.mem.values() if v is not None])
    # close over facts: keep facts all of whose symbols are relevant; pull in ranges
    for s in syms:
        if s in st.rng:
            r.rng[s] = st.rng[s]
        if s in st.sets:
            r.sets[s] = st.sets[s]
    # keep the facts connected to the object's symbols (transitively, so relations through intermediate
    # symbols survive), bounded
    cps = set(ip.cparams.values())
    live = set(syms) | cps
    pending = list(st.facts)
    for _ in range(3):
        rest = []
        grew = False
        for f in pending:
            fs = f.syms()
            if any(x in live and x not in cps for x in fs) or all(x in cps for x in fs):
                if len(r.facts) < 80:
                    r.facts.append(f)
                for x in fs:
                    if x not in live:
                        live.add(x)
                        grew = True
            else:
                rest.append(f)
        pending = rest
        if not grew:
            break
    for s in live:
        if s in st.rng and s not in r.rng:
            r.rng[s] = st.rng[s]
        if s in st.sets and s not in r.sets:
            r.sets[s] = st.sets[s]
    for x in ip.cparams.values():
        if x in st.rng:
            r.rng[x] = st.rng[x]
    r.neqs = [d for d in st.neqs if all(x in syms for x in d.syms())]
    return r


class Invariant:
    """partitioned object invariant of one type"""

    def __init__(self, ip, name, key_fn):
        self.ip = ip
        self.name = name
        self.key_fn = key_fn      # (state, objvalue) -> list of (key, refined state)
        self.parts = {}           # key -> State (object at INVROOT)
        self.rounds = 0
        self.history = []

    def is_common(self, s):
        return s in self.ip.cparams.values()

    def absorb(self, st, objval, widen=False):
        """join an arrival into the invariant; returns True if something changed"""
        changed = False
        for key, st2 in self.key_fn(st, objval):
            arr = reduce_state(self.ip, st2, objval)
            old = self.parts.get(key)
            if old is None:
                self.parts[key] = arr
                changed = True
                continue
            new, ch = join_into(self.ip, old, arr, self.is_common, ("inv", self.name, key), widen=widen,
                                descends=False)
            if ch:
                # heap objects referenced by the (new) value but only present in the arrival
                for rt, v in arr.mem.items():
                    if rt not in new.mem:
                        new.mem[rt] = v
                self.parts[key] = new
                changed = True
        return changed

    def instances(self):
        """[(key, state copy, object value)]"""
        return [(k, s.copy(), s.mem[INVROOT]) for k, s in sorted(self.parts.items(), key=lambda kv: str(kv[0]))]

    def describe(self):
        out = {}
        for k, s in self.parts.items():
            out[str(k)] = describe_value(s, s.mem[INVROOT])
        return out


def describe_value(st, v, depth=0):
    if isinstance(v, VInt):
        lo, hi = st.interval(v.lin)
        return "[%s,%s]" % (lo, hi)
    if isinstance(v, VBool):
        return "bool"
    if isinstance(v, VAgg):
        return "{" + ", ".join(describe_value(st, e, depth + 1) for e in v.elems) + "}"
    if isinstance(v, VEnum):
        parts = []
        for var, p in sorted(v.pay.items()):
            lo, hi = st.interval(v.disc)
            if (lo is not None and var < lo) or (hi is not None and var > hi):
                continue
            parts.append("#%d(%s)" % (var, ", ".join(describe_value(st, e, depth + 1) for e in p)))
        return "|".join(parts)
    if isinstance(v, VArr):
        return "[" + ",".join(describe_value(st, e, depth + 1) for e in v.elems) + "]"
    if isinstance(v, VArrS):
        return "[_;%s]" % describe_value(st, VInt(v.n, 64, False))
    if isinstance(v, VSlice):
        return "slice(start=%s,len=%s)" % (describe_value(st, VInt(v.start, 64, False)), describe_value(st, VInt(v.n, 64, False)))
    if isinstance(v, VOpq):
        return "opaque"
    return type(v).__name__


def enum_key_fn(ip, steps):
    """partition by the variant of the enum found at `steps` inside the object"""
    def f(st, obj):
        v = obj
        for s in steps:
            v = ip.descend(st, v, s)
        if not isinstance(v, VEnum):
            raise Unsupported("partition field is not an enum: %r" % (v,))
        c = st.const_of(v.disc)
        if c is not None:
            return [(c, st)]
        out = []
        for var in sorted(v.pay):
            s2 = st.copy()
            try:
                s2.assume_eq0(v.disc - var)
            except Infeasible:
                continue
            out.append((var, s2))
        return out
    return f


def single_key_fn(st, obj):
    return [((), st)]


def int_class_key_fn(ip, steps, cuts):
    """partition by classes of an integer field: exact values below cuts[-1], then [cuts[-1], inf)"""
    def f(st, obj):
        v = obj
        for s in steps:
            v = ip.descend(st, v, s)
        out = []
        for c in cuts[:-1]:
            s2 = st.copy()
            try:
                s2.assume_eq0(v.lin - c)
                out.append((c, s2))
            except Infeasible:
                pass
        s2 = st.copy()
        try:
            s2.assume_ge0(v.lin - cuts[-1])
            out.append((">=%d" % cuts[-1], s2))
        except Infeasible:
            pass
        return out
    return f


def infer(ip, inv, ctor_runs, method_runs, log=None):
    """ctor_runs: callables () -> [(state, objvalue)]   (post-states of constructors)
    method_runs: callables (state, objvalue) -> [(state', objvalue')]  (post-states of one interface method,
                 started from an invariant instance)
    Runs to a fixpoint with the interpreter's log discarded; returns number of rounds."""
    mark = len(ip.log)
    for c in ctor_runs:
        for st, obj in c():
            inv.absorb(st, obj)
    del ip.log[mark:]
    for rnd in range(MAX_ROUNDS):
        changed = False
        widen = rnd >= WIDEN_AFTER
        if getattr(inv, "round_hook", None):
            inv.round_hook()
        for key, st, obj in inv.instances():
            for m in method_runs:
                try:
                    posts = m(st.copy(), obj)
                except Unsupported as e:
                    raise
                for st2, obj2 in posts:
                    if inv.absorb(st2, obj2, widen):
                        changed = True
            del ip.log[mark:]
        inv.rounds = rnd + 1
        if log:
            log("round %d: %s" % (rnd, inv.describe()))
        if not changed:
            return rnd + 1
    raise Unsupported("object invariant of %s did not stabilise in %d rounds" % (inv.name, MAX_ROUNDS))

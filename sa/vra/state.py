"""Abstract state of the value-range analyser: symbol table, constraint store
(intervals + small explicit sets + linear facts) and a small Fourier-Motzkin style
entailment procedure.  No external solver is used."""
from ..lin import Lin

U64 = (1 << 64) - 1
ISIZE_MAX = (1 << 63) - 1
MAX_SET = 256


def ty_range(w, sg):
    if sg:
        return (-(1 << (w - 1)), (1 << (w - 1)) - 1)
    return (0, (1 << w) - 1)


class SymTab:
    """Global, append-only table of symbol metadata (shared by all states of a run)."""

    def __init__(self):
        self.info = []

    def fresh(self, lo, hi, origin="", defn=None):
        self.info.append({"lo": lo, "hi": hi, "origin": origin, "def": defn})
        return len(self.info) - 1

    def origin(self, s):
        return self.info[s]["origin"]

    def defn(self, s):
        return self.info[s]["def"]


def _ceil_div(a, b):
    return -((-a) // b)


class Infeasible(Exception):
    pass


class State:
    __slots__ = ("tab", "mem", "rng", "sets", "facts", "neqs", "trace", "ghost", "dead", "_budget")

    def __init__(self, tab):
        self.tab = tab
        self.mem = {}
        self.rng = {}
        self.sets = {}
        self.facts = []
        self.neqs = []
        self.trace = ()
        self.ghost = {}
        self.dead = False

    def copy(self):
        s = State.__new__(State)
        s.tab = self.tab
        s.mem = dict(self.mem)
        s.rng = dict(self.rng)
        s.sets = dict(self.sets)
        s.facts = list(self.facts)
        s.neqs = list(self.neqs)
        s.trace = self.trace
        s.ghost = dict(self.ghost)
        s.dead = self.dead
        return s

    # ------------------------------------------------------------------ symbols
    def fresh(self, lo, hi, origin="", defn=None):
        return self.tab.fresh(lo, hi, origin, defn)

    def bounds(self, s):
        r = self.rng.get(s)
        if r is None:
            i = self.tab.info[s]
            return (i["lo"], i["hi"])
        return r

    def values(self, s):
        """explicit value set of a symbol or None"""
        st = self.sets.get(s)
        if st is not None:
            return st
        lo, hi = self.bounds(s)
        if lo is not None and hi is not None and hi - lo < MAX_SET:
            return frozenset(range(lo, hi + 1))
        return None

    # ------------------------------------------------------------------ intervals
    def interval(self, lin):
        lo = hi = lin.c
        for s, a in lin.t:
            l, h = self.bounds(s)
            if a > 0:
                lo = None if (lo is None or l is None) else lo + a * l
                hi = None if (hi is None or h is None) else hi + a * h
            else:
                lo = None if (lo is None or h is None) else lo + a * h
                hi = None if (hi is None or l is None) else hi + a * l
        return lo, hi

    def const_of(self, lin):
        lo, hi = self.interval(lin)
        if lo is not None and lo == hi:
            return lo
        return None

    # ------------------------------------------------------------------ assumptions
    def _set_bounds(self, s, lo, hi):
        l0, h0 = self.bounds(s)
        if lo is None or (l0 is not None and l0 > lo):
            lo = l0
        if hi is None or (h0 is not None and h0 < hi):
            hi = h0
        st = self.sets.get(s)
        if st is not None:
            st = frozenset(v for v in st if (lo is None or v >= lo) and (hi is None or v <= hi))
            if not st:
                raise Infeasible()
            self.sets[s] = st
            lo, hi = min(st), max(st)
        if lo is not None and hi is not None and lo > hi:
            raise Infeasible()
        if (lo, hi) != (l0, h0):
            self.rng[s] = (lo, hi)
            return True
        return False

    def _tighten_with(self, lin):
        """bound propagation for fact lin >= 0; returns True if some range changed"""
        changed = False
        for s, a in lin.t:
            rest = lin - Lin.sym(s, a)
            rlo, rhi = self.interval(rest)
            # a*s + rest >= 0  =>  a*s >= -rest >= -rhi
            if rhi is None:
                continue
            if a > 0:
                nl = _ceil_div(-rhi, a)
                if self._set_bounds(s, nl, None):
                    changed = True
            else:
                nh = (rhi) // (-a)
                if self._set_bounds(s, None, nh):
                    changed = True
        return changed

    def assume_ge0(self, lin):
        """assume lin >= 0; raises Infeasible on contradiction"""
        lo, hi = self.interval(lin)
        if hi is not None and hi < 0:
            raise Infeasible()
        if lo is not None and lo >= 0:
            return
        if lin.single() is None and lin not in self.facts:
            if self.facts and self.prove_ge0(-lin - 1):
                raise Infeasible()      # the opposite is entailed by what is already known
            self.facts.append(lin)
        # propagate (bounded rounds)
        for _ in range(4):
            ch = self._tighten_with(lin)
            for f in self.facts:
                if f is not lin and self._tighten_with(f):
                    ch = True
            if not ch:
                break
        lo, hi = self.interval(lin)
        if hi is not None and hi < 0:
            raise Infeasible()
        self._recheck_neqs()

    def assume_eq0(self, lin):
        sg = lin.single()
        if sg is not None and not lin.is_const():
            s, a = sg
            if lin.c % a != 0:
                raise Infeasible()
            v = -lin.c // a
            st = self.sets.get(s)
            if st is not None and v not in st:
                raise Infeasible()
            if st is not None:
                self.sets[s] = frozenset([v])
            self._set_bounds(s, v, v)
            for f in list(self.facts):
                self._tighten_with(f)
            self._recheck_neqs()
            return
        self.assume_ge0(lin)
        self.assume_ge0(-lin)

    def assume_ne0(self, lin):
        if lin.is_const():
            if lin.c == 0:
                raise Infeasible()
            return
        lo, hi = self.interval(lin)
        if (hi is not None and hi < 0) or (lo is not None and lo > 0):
            return
        sg = lin.single()
        if sg is not None:
            s, a = sg
            if lin.c % a != 0:
                return
            v = -lin.c // a
            vals = self.values(s)
            if vals is not None:
                if v in vals:
                    nv = vals - {v}
                    if not nv:
                        raise Infeasible()
                    self.sets[s] = nv
                    if self._set_bounds(s, min(nv), max(nv)):
                        self._propagate()
                return
            l, h = self.bounds(s)
            if l is not None and l == v:
                if self._set_bounds(s, v + 1, None):
                    self._propagate()
            elif h is not None and h == v:
                if self._set_bounds(s, None, v - 1):
                    self._propagate()
            else:
                if lin not in self.neqs:
                    self.neqs.append(lin)
            return
        # general: use sign knowledge if available
        if self.prove_ge0(lin):
            self.assume_ge0(lin - 1)
        elif self.prove_ge0(-lin):
            self.assume_ge0(-lin - 1)
        elif lin not in self.neqs:
            self.neqs.append(lin)

    def _propagate(self):
        """bound propagation through the linear facts after a range changed (bounded rounds)"""
        for _ in range(4):
            ch = False
            for f in self.facts:
                if self._tighten_with(f):
                    ch = True
            if not ch:
                break
        self._recheck_neqs()

    def _recheck_neqs(self):
        if not self.neqs:
            return
        keep = []
        pend = []
        for d in self.neqs:
            lo, hi = self.interval(d)
            if (hi is not None and hi < 0) or (lo is not None and lo > 0):
                continue
            if lo is not None and lo == 0 and hi == 0:
                raise Infeasible()
            if lo is not None and lo == 0:
                pend.append(d - 1)
            elif hi is not None and hi == 0:
                pend.append(-d - 1)
            else:
                keep.append(d)
        self.neqs = keep
        for p in pend:
            self.assume_ge0(p)

    # ------------------------------------------------------------------ entailment
    def prove_ge0(self, lin, depth=4):
        lo, _ = self.interval(lin)
        if lo is not None and lo >= 0:
            return True
        if depth == 0 or not self.facts:
            return False
        idx = {}
        for f in self.facts:
            for s, _a in f.t:
                idx.setdefault(s, []).append(f)
        self._budget = 400
        return self._fm(lin, depth, set(), idx)

    def _fm(self, g, depth, seen, idx):
        """Fourier-Motzkin style search: eliminate the symbol that hurts the lower bound most, using a
        fact f >= 0 that contains it with the same sign (|cf|*g - |cg|*f >= 0 and f >= 0 imply g >= 0)"""
        lo, _ = self.interval(g)
        if lo is not None and lo >= 0:
            return True
        if depth == 0 or g in seen:
            return False
        seen.add(g)
        # rank symbols by how much they hurt the lower bound (unbounded first)
        hurt = []
        for s, a in g.t:
            l, h = self.bounds(s)
            if a > 0:
                c = None if l is None else a * l
            else:
                c = None if h is None else a * h
            if c is None:
                hurt.append((0, 0, s, a))
            elif c < 0:
                hurt.append((1, c, s, a))
        hurt.sort()
        if not hurt:
            # no single symbol drags the bound down (a negative constant does): any substitution may help
            hurt = [(2, 0, s, a) for s, a in g.t]
        for _k, _c, s, cg in hurt[:3]:
            for f in idx.get(s, ()):
                cf = f.coef(s)
                if (cg > 0) != (cf > 0):
                    continue
                self._budget -= 1
                if self._budget < 0:
                    return False
                g2 = g.scale(abs(cf)) - f.scale(abs(cg))
                if self._fm(g2, depth - 1, seen, idx):
                    return True
        return False

    def prove_eq0(self, lin):
        return self.prove_ge0(lin) and self.prove_ge0(-lin)

    def prove_cmp(self, op, l, r):
        d = l - r
        if op == "Eq":
            return self.prove_eq0(d)
        if op == "Ne":
            return self.prove_ge0(d - 1) or self.prove_ge0(-d - 1)
        if op == "Lt":
            return self.prove_ge0(-d - 1)
        if op == "Le":
            return self.prove_ge0(-d)
        if op == "Gt":
            return self.prove_ge0(d - 1)
        if op == "Ge":
            return self.prove_ge0(d)
        raise ValueError(op)

    def assume_cmp(self, op, l, r):
        d = l - r
        if op == "Eq":
            self.assume_eq0(d)
        elif op == "Ne":
            self.assume_ne0(d)
        elif op == "Lt":
            self.assume_ge0(-d - 1)
        elif op == "Le":
            self.assume_ge0(-d)
        elif op == "Gt":
            self.assume_ge0(d - 1)
        elif op == "Ge":
            self.assume_ge0(d)
        else:
            raise ValueError(op)

    def describe(self, lin):
        lo, hi = self.interval(lin)
        return "%r in [%s,%s]" % (lin, lo, hi)


NEG = {"Eq": "Ne", "Ne": "Eq", "Lt": "Ge", "Ge": "Lt", "Le": "Gt", "Gt": "Le"}

import argparse
import importlib
import os
import sys
import traceback

from .common import Ctx


def main():
    ap = argparse.ArgumentParser()
    ap.add_argument("prop")
    ap.add_argument("--tier", default=os.environ.get("VERIF_TIER", "quick"))
    ap.add_argument("--replay", default=None)
    a = ap.parse_args()
    prop = a.prop.upper()
    seed = int(os.environ.get("VERIF_SEED", "0") or 0)
    ctx = Ctx(prop, a.tier, seed)
    print("check %s tier=%s (static analysis of /repo's MIR)" % (prop, a.tier))
    try:
        mod = importlib.import_module("sa.rules." + prop.lower())
        mod.run(ctx)
        # canaries: the generic obligation rules must fire on the broken twins of the fixture crate and stay silent on
        # the correct ones, on every run (a rule that cannot fire any more must not pass vacuously)
        from .canary import run_canaries
        ok, det = run_canaries()
        ctx.cov["canaries"] = det
        ctx.count("CANARY", len(det))
        if not ok:
            ctx.violation("CANARY", "fixtures", ("fixtures/src/lib.rs", 0, ""),
                          "canary failure: %r" % ([d for d in det if not d.get("ok")],))
        if a.tier == "thorough" and not os.environ.get("VERIF_DRYRUN"):
            try:
                from .sensitivity import run as sens
                r = sens(prop)
                ctx.cov["checker_sensitivity"] = r
                print("  sensitivity on this tree: seeded changes reported %s, behaviour-preserving probes silent %s%s"
                      % (r["mutants_reported"], r["probes_silent"], (", unexpected: %r" % [u["seed"] for u in r["unexpected"]]) if r["unexpected"] else ""))
            except Exception as e:      # evidence about the checker only: never turns into a verdict about /repo
                ctx.cov["checker_sensitivity"] = {"error": "%s: %s" % (type(e).__name__, e)}
    except Exception as e:   # fail closed
        traceback.print_exc()
        ctx.violation("CHECKER-ERROR", type(e).__name__, ("", 0, ""), "checker failed: %s" % e)
    sys.exit(ctx.finish())


if __name__ == "__main__":
    main()

"""Canaries: a tiny crate with one broken twin per generic rule, compiled with the same driver and analysed with the
same engines on every run.  Each bad_* function must produce the expected undischarged obligation, each good_* twin none."""
import os

from .build import build_facts, VERIF
from .facts import Facts
from .engine import Analysis

EXPECT = {
    "Counter16::bad_bump": "OVF", "Counter16::good_bump": None,
    "bad_sub": "OVF", "good_sub": None,
    "bad_index": "IDX", "good_index": None,
    "bad_slice": "IDX", "good_slice": None,
    "bad_unwrap": "PANIC", "good_unwrap": None,
    "bad_shift": "LOSSY", "good_shift": None,
    "bad_loop": "OVF", "good_loop": None,
}


def run_canaries():
    """returns (ok, details). details: list of {fn, expected, got}"""
    path, info = build_facts("default", repo=os.path.join(VERIF, "fixtures"), crate="verif_fixtures", package="verif-fixtures")
    F = Facts(path)
    A = Analysis(F)
    details = []
    ok = True
    for suffix, want in EXPECT.items():
        bs = [b for n, b in F.bodies.items() if n.endswith(suffix)]
        if len(bs) != 1:
            details.append({"fn": suffix, "expected": want, "got": "body not found"})
            ok = False
            continue
        b = bs[0]
        since = len(A.ip.log)
        try:
            A.run_fn(b)
        except Exception as e:
            details.append({"fn": suffix, "expected": want, "got": "exception %s" % e})
            ok = False
            continue
        kinds = sorted({o["kind"] for o in A.obligations(since) if o["failed"]})
        if A.observations("lossy", since):
            kinds.append("LOSSY")
        got = kinds
        good = (want is None and not kinds) or (want is not None and want in kinds)
        details.append({"fn": suffix, "expected": want, "got": got, "ok": good})
        ok = ok and good
    return ok, details


if __name__ == "__main__":
    ok, d = run_canaries()
    for x in d:
        print(x)
    print("canaries ok" if ok else "CANARY FAILURE")

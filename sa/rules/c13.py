"""C13 Streaming parser terminates: at most one error, then None forever."""
from ..common import ASSUMPTIONS
from ..engine import AnchorMissing, field_index
from ..lin import Lin
from ..vra.interp import Unsupported
from ..vra.values import *
from ..vra.stdsum import split_enum

T = "parser::streaming::Parser"


def classify(ip, st, ret):
    """[(state, class)] with class in None / Ok / Err for the Option<Result<..>> returned by next()"""
    out = []
    for s2, var, pay in split_enum(ip, st, ret, "next() result"):
        if var == 0:
            out.append((s2, "None"))
            continue
        for s3, v2, _p in split_enum(ip, s2, pay[0], "next() item"):
            out.append((s3, "Ok" if v2 == 0 else "Err"))
    return out


def run(ctx):
    ctx.rule("R-C13-ABSORB", "after next() returned None or Some(Err), a further next() returns None on every path and leaves the "
                             "parser state unchanged (so every later call does the same)")
    ctx.rule("R-C13-PROGRESS", "every next() that returns Some(Ok(_)) consumed at least one input byte (at most len+1 items overall)")
    F = ctx.facts("all")
    A = ctx.analysis("all", join_exits=lambda b: b["span"]["file"].startswith("src/parser/"), name="parser")
    A.ip.summarizable = lambda b: b["span"]["file"].startswith("src/parser/") and b["kind"] != "Closure"
    ip = A.ip
    nexts = [b for b in F.bodies.values() if b.get("impl_trait") == "std::iter::Iterator" and b.get("name") == "next"
             and b.get("impl_self_ty", {}).get("def") == T]
    if len(nexts) != 1:
        ctx.violation("ANCHOR-MISSING", "Parser::next", ("", 0, ""), "Iterator::next for %s not found" % T)
        return
    nb = nexts[0]
    where = (nb["span"]["file"], nb["span"]["line"], nb["def"])
    try:
        try:
            fi_in = [field_index(F, T, "input")]
        except AnchorMissing:
            # renamed: any of the parser's slice fields may be the remaining input (progress = one of them shrinks)
            fi_in = [i for i, fl in enumerate(F.adts[T]["variants"][0]["fields"]) if fl["ty"].get("k") == "ref"
                     and (fl["ty"].get("to") or {}).get("k") == "slice"]
            if not fi_in:
                raise
        cases = A.method_cases(T, nb)
    except (AnchorMissing, Unsupported) as e:
        ctx.violation("ANCHOR-MISSING", "Parser", where, str(e))
        return
    inv_desc = A.inv_info[T]["partitions"]
    n_first = 0
    for c in cases:
        for s2, cls in classify(ip, c["st"], c["ret"]):
            n_first += 1
            obj1 = s2.mem[c["root"]]
            if cls == "Ok":
                ctx.count("R-C13-PROGRESS")
                ok = False
                for fi_ in fi_in:
                    n0 = c["obj0"].elems[fi_].n
                    n1 = obj1.elems[fi_].n
                    if s2.prove_ge0(n0 - n1 - 1):
                        ok = True
                        break
                ctx.oblig(ok)
                if not ok:
                    ctx.violation("R-C13-PROGRESS", "partition=%s" % (c["key"],), where,
                                  "next() may return Some(Ok(_)) from countdown class %s without consuming input: "
                                  "cannot prove len(input') <= len(input) - 1 (%s vs %s)" % (c["key"], s2.describe(n1), s2.describe(n0)))
                continue
            # None / Err: the post-state must be absorbing
            ctx.count("R-C13-ABSORB")
            s3 = s2.copy()
            outs2 = A.run_fn(nb, st0=s3, first_arg=VRef(c["root"], (), True))
            bad = []
            changed = []
            for (s4, rv2, _a) in outs2:
                for s5, cls2 in classify(ip, s4, rv2):
                    if cls2 != "None":
                        bad.append(cls2)
                    else:
                        obj2 = s5.mem[c["root"]]
                        if not same_state(s5, obj1, obj2):
                            changed.append(1)
            ok = not bad and not changed and bool(outs2)
            ctx.oblig(ok)
            if len(ctx.samples) < 6:
                ctx.sample({"first_call": {"from_countdown_class": str(c["key"]), "returned": cls},
                            "second_call_returns": sorted(set(["None"] if not bad else bad)), "state_unchanged": not changed})
            if not ok:
                ctx.violation("R-C13-ABSORB", "partition=%s|first=%s|second=%s" % (c["key"], cls, ",".join(sorted(set(bad))) or "state-changed"),
                              where,
                              "after next() returned %s from countdown class %s, a further next() can return Some(%s)%s: the iteration does not end"
                              % (cls if cls == "None" else "Some(Err)", c["key"], "/".join(sorted(set(bad))) or "-",
                                 " or changes the state" if changed else ""))
    if n_first < 4:
        ctx.violation("BELOW-FLOOR", "R-C13-cases", where, "only %d outcome classes of next() analysed" % n_first)
    ctx.cov.update({"invariant": inv_desc, "next_outcome_classes": n_first,
                    "interpreter_stats": ip.stats})
    ctx.assumptions = [ASSUMPTIONS[k] for k in ("A1", "A2", "A3", "A7")]
    ctx.explanation = (
        "The streaming parser's object invariant is inferred (partitioned by countdown class 0,1,2,>=3); Iterator::next is analysed "
        "from every partition. For every abstract outcome that returns None or Some(Err) the analysis runs next() again from the "
        "abstract post-state and requires the only outcome to be None with an unchanged state (absorbing by induction); for every "
        "Some(Ok) outcome it proves len(input') <= len(input)-1 as a linear fact. Holds for all inputs and any number of further calls.")


def same_state(st, a, b):
    """field-wise equality of two parser objects as provable facts"""
    if isinstance(a, VInt) and isinstance(b, VInt):
        return st.prove_eq0(a.lin - b.lin)
    if isinstance(a, VSlice) and isinstance(b, VSlice):
        return st.prove_eq0(a.n - b.n)
    if isinstance(a, VAgg) and isinstance(b, VAgg) and len(a.elems) == len(b.elems):
        return all(same_state(st, x, y) for x, y in zip(a.elems, b.elems))
    return a == b

"""C04 Parser soundness: data only from well-formed, CRC-valid, fully consumed input (structural clauses)."""
from ..common import ASSUMPTIONS
from ..engine import AnchorMissing
from ..cfg import CFG, callee_names
from ..lin import Lin
from ..trace import suffix_parser_contract
from ..vra.interp import Unsupported
from ..vra.state import State, Infeasible
from ..vra.values import *
from ..vra.stdsum import split_enum
from .grammar import *
from . import c03

SP = "parser::SmlParse"
SPT = "parser::SmlParseTlf"


def crc_fact(ip, st, crc_val, region_root, region_start, region_n):
    """the path entails crc_val == swap_bytes(checksum(region)) ; returns (ok, why).
    region_start None: only the end of the region is compared -- region_n is then the absolute offset where it must end"""
    # find a symbol d with def swap_bytes(c) where c has origin crc_checksum over the region, and st |- crc_val == d
    for s in list(st.rng) + [x for f in st.facts for x in f.syms()]:
        d = ip.tab.defn(s)
        if not d or d[0] != "swap_bytes":
            continue
        inner = d[1].single()
        if inner is None:
            continue
        o = ip.tab.origin(inner[0])
        if not (isinstance(o, tuple) and o[0] == "crc_checksum"):
            continue
        if not st.prove_eq0(crc_val - Lin.sym(s)):
            continue
        _, root, steps, start, n = o
        if region_root is None:
            return True, ""         # existence of the gate only (used when the message start is not known to the caller)
        if root != region_root:
            return False, "checksum computed over a different buffer"
        if region_start is not None and not st.prove_eq0(start - region_start):
            return False, "checksum region does not start at the first byte of the message (%s vs %s)" % (st.describe(start), st.describe(region_start))
        if region_start is not None and not st.prove_eq0(n - region_n):
            return False, "checksum region does not end where the checksum field starts (%s vs %s)" % (st.describe(n), st.describe(region_n))
        if region_start is None and not st.prove_eq0(start + n - region_n):
            return False, "checksum region does not end where the checksum field starts"
        return True, ""
    # the same equality with the byte swap applied to the other side: swap_bytes(parsed) == checksum(region)
    cands = list(st.rng) + [x for f in st.facts for x in f.syms()]
    for s in cands:
        d = ip.tab.defn(s)
        if not d or d[0] != "swap_bytes" or not st.prove_eq0(d[1] - crc_val):
            continue
        for c in cands:
            o = ip.tab.origin(c)
            if not (isinstance(o, tuple) and o[0] == "crc_checksum") or not st.prove_eq0(Lin.sym(c) - Lin.sym(s)):
                continue
            _, root, steps, start, n = o
            if region_root is None:
                return True, ""
            if root != region_root:
                return False, "checksum computed over a different buffer"
            if region_start is not None and not st.prove_eq0(start - region_start):
                return False, "checksum region does not start at the first byte of the message (%s vs %s)" % (st.describe(start), st.describe(region_start))
            if region_start is not None and not st.prove_eq0(n - region_n):
                return False, "checksum region does not end where the checksum field starts (%s vs %s)" % (st.describe(n), st.describe(region_n))
            if region_start is None and not st.prove_eq0(start + n - region_n):
                return False, "checksum region does not end where the checksum field starts"
            return True, ""
    return False, "no established equality between the parsed checksum and swap_bytes(CRC_X25.checksum(..))"


def run(ctx):
    ctx.rule("R-C04-GUARD", "every parse_with_tlf call is preceded on its path by check_tlf of the same type on the same TLF, which returned true")
    ctx.rule("R-C04-CRC", "both message parsers return data only on paths that establish parsed_crc == swap_bytes(checksum(bytes)) where bytes "
                          "is exactly [first byte of the message, first byte of the checksum field)")
    ctx.rule("R-C04-END", "... and only after the end-of-message parser succeeded, which accepts exactly the byte 0x00")
    ctx.rule("R-C04-LEFTOVER", "complete::parse returns Ok only for an empty rest; the file parser loops until the input is empty")
    ctx.rule("R-C04-SUFFIX", "every parser returns a suffix of its input as rest (same buffer, same end) -- the contract the sequence "
                             "extraction of C03/C04/C09 relies on")
    ctx.rule("R-C04-MSGTLF", "both message parsers reject unless the envelope is a List of 6 (shared with R-C03-ARITY)")
    F = ctx.facts("all")
    A = ctx.analysis("all")
    X = Extractor(A, F)
    try:
        run_rules(ctx, F, A, X)
    except (AnchorMissing, Unsupported, KeyError) as e:
        ctx.violation("ANCHOR-MISSING", "grammar", ("", 0, ""), "%s: %s" % (type(e).__name__, e))
    ctx.assumptions = [ASSUMPTIONS[k] for k in ("A1", "A2", "A7")]
    ctx.explanation = (
        "Structural soundness clauses: guard-before-use of every TLF-dependent parser, CRC and end-marker gates on every success path of "
        "both message parsers with the checksummed byte range proved as linear facts over slice offsets, leftover-input rejection, default "
        "arms of all tag dispatches (shared with C03) and the suffix contract of all parser functions (proved on the real bodies via their "
        "summaries). Not decided: equality with an independent reading of the grammar beyond the shape table of C03.")


def entails_check(ip, F, st, T, tlf_arg):
    """does the path condition st entail <T as SmlParseTlf>::check_tlf(tlf) == true?  (the real body is evaluated)"""
    try:
        cb = find_impl_body(F, SPT, "check_tlf", T)
    except (AnchorMissing, KeyError):
        return False
    old_sum, old_op = ip.summarizable, ip.opaque_fn
    ip.summarizable, ip.opaque_fn = None, None
    try:
        outs = ip.run_root(cb, {}, [tlf_arg], st.copy())
    except Unsupported:
        return False
    finally:
        ip.summarizable, ip.opaque_fn = old_sum, old_op
    if not outs:
        return False
    for s2, rv in outs:
        if not isinstance(rv, VBool):
            return False
        if rv.e == ("c", True):
            continue
        if rv.e[0] == "c" or ip.branch(s2, rv.e, False):
            return False
    return True


def run_rules(ctx, F, A, X):
    ip = A.ip
    # ---- an optional field is absent exactly for the marker byte 0x01 (anything else must satisfy T's own type check)
    ctx.rule("R-C03-OPT", "Option<T> (shared with C03): None exactly for the single byte 0x01, otherwise T is parsed from the unchanged input")
    c03.check_option(ctx, F, A, X)
    # ---- GUARD
    sites = []
    for b in F.bodies.values():
        if b.get("auto_derived"):
            continue
        for bb, t in CFG(b).calls():
            c = t.get("callee") or {}
            if c.get("trait") == SPT and c.get("method") == "parse_with_tlf":
                sites.append((b, bb))
    ctx.count("R-C04-GUARD", len(sites))
    by_body = {}
    for b, bb in sites:
        by_body.setdefault(b["def"], (b, []))[1].append(bb)
    for d, (b, bbs) in by_body.items():
        where = (b["span"]["file"], b["span"]["line"], b["def"])
        old_c = dict(ip.contracts)
        ip.contracts[(SPT, "check_tlf")] = lambda ip_, fr, bb_, st, cal, args, dty: [(st, VBool(("sym", st.fresh(0, 1, "check"))))]
        ip.contracts[(SPT, "parse_with_tlf")] = suffix_parser_contract
        ip.contracts[(SP, "parse")] = suffix_parser_contract
        try:
            paths = X.paths(b)
        finally:
            ip.contracts.clear()
            ip.contracts.update(old_c)
        seen_sites = set()
        for p in paths:
            tr = p["trace"]
            for i, ev in enumerate(tr):
                if not ev["key"].endswith("::parse_with_tlf"):
                    continue
                if ev["fn"] == d:
                    seen_sites.add(ev["bb"])
                T = self_type_of(ev["key"])
                tlf_arg = ev["args"][1]
                ok = False
                for prev in tr[:i]:
                    if prev["key"].endswith("::check_tlf") and self_type_of(prev["key"]) == T and prev["args"][0] == tlf_arg:
                        r = prev["ret"]
                        if isinstance(r, VBool) and r.e[0] == "sym" and p["st"].const_of(Lin.sym(r.e[1])) == 1:
                            ok = True
                        elif isinstance(r, VBool) and r.e == ("c", True):
                            ok = True
                if not ok:
                    # no explicit call: the path condition itself must entail the type's real check_tlf
                    ok = entails_check(ip, F, p["st"], T, tlf_arg)
                ctx.oblig(ok)
                if not ok:
                    ctx.violation("R-C04-GUARD", "%s|%s" % (d, T), (b["span"]["file"], ev["line"], d),
                                  "%s::parse_with_tlf is reached on a path where %s::check_tlf of the same TLF did not return true "
                                  "(the parser would read with an unchecked type/length)" % (T, T))
        for bb in bbs:
            if bb not in seen_sites:
                ctx.violation("R-C04-GUARD", "%s|unreached-site" % d, where, "a parse_with_tlf call site was not reached by the path analysis")
    # floor: 16 call sites counted by hand on the pinned tree; a site inside a generic helper (callee on a type parameter) stands
    # for all its instances and is verified for every T, so fewer syntactic sites are fine when such a helper took them over
    generic_sites = 0
    for b_, bb_ in sites:
        c_ = b_["blocks"][bb_]["term"].get("callee") or {}
        if (c_.get("self_ty") or {}).get("k") == "param":
            generic_sites += 1
    ctx.cov["parse_with_tlf_sites"] = {"all": len(sites), "on_a_type_parameter": generic_sites}
    if len(sites) < 16 and not (generic_sites >= 2 and len(sites) >= 2):
        ctx.violation("BELOW-FLOOR", "R-C04-GUARD", ("", 0, ""), "expected at least 16 parse_with_tlf call sites, found %d" % len(sites))
    # ---- CRC / END on the complete message parser
    b = find_impl_body(F, SP, "parse", "parser::complete::Message")
    where = (b["span"]["file"], b["span"]["line"], b["def"])
    n_ok = 0
    for p in X.paths(b):
        okp = ok_payload(ip, p["st"], p["ret"])
        if okp is None:
            continue
        n_ok += 1
        evs = parse_events(p)
        keys = [self_type_of(e["key"]) for e in evs]
        ctx.count("R-C04-CRC")
        ctx.count("R-C04-END")
        inp = p["args"][0]
        try:
            i_crc = keys.index("u16")
        except ValueError:
            ctx.violation("R-C04-CRC", "complete|nocrc", where, "success path without parsing a u16 checksum field")
            continue
        crc_in = evs[i_crc]["input"]
        ok, why = crc_fact(ip, p["st"], evs[i_crc]["val"].lin, inp.root, inp.start, crc_in.start - inp.start)
        ctx.oblig(ok)
        if not ok:
            ctx.violation("R-C04-CRC", "complete", where, "complete message parser returns data without the checksum gate: " + why)
        end_ok = keys[-1] == "parser::common::EndOfSmlMessage" and i_crc == len(keys) - 2
        ctx.oblig(end_ok)
        if not end_ok:
            ctx.violation("R-C04-END", "complete", where, "success path must end with checksum field then EndOfSmlMessage (got %r)" % keys[-3:])
    if n_ok != 1:
        ctx.violation("BELOW-FLOOR", "R-C04-CRC|complete", where, "expected one success path, found %d" % n_ok)
    # ---- streaming: countdown-1 step of parse_next
    check_streaming_crc(ctx, F, A, X)
    # ---- EndOfSmlMessage accepts exactly 0x00
    b = find_impl_body(F, SP, "parse", "parser::common::EndOfSmlMessage")
    where = (b["span"]["file"], b["span"]["line"], b["def"])
    good = True
    n = 0
    for p in X.paths(b):
        evs = parse_events(p)
        if not evs or not evs[0]["ok"]:
            continue
        n += 1
        byte = evs[0]["val"]
        okp = ok_payload(ip, p["st"], p["ret"])
        if okp is not None:
            if p["st"].const_of(byte.lin) != 0 or okp[0] != evs[0]["rest"]:
                good = False
        else:
            if err_variant(F, p["st"], p["ret"]) != "MsgEndMismatch":
                good = False
            s4 = p["st"].copy()
            try:
                s4.assume_eq0(byte.lin)
                good = False
            except Infeasible:
                pass
    ctx.count("R-C04-END")
    ctx.oblig(good and n == 2)
    if not (good and n == 2):
        ctx.violation("R-C04-END", "endmarker", where, "EndOfSmlMessage must accept exactly the byte 0x00 and report MsgEndMismatch otherwise")
    # ---- LEFTOVER
    pc = [x for x in F.bodies.values() if x.get("trait_default") == SP and x.get("name") == "parse_complete"]
    if len(pc) != 1:
        raise AnchorMissing("SmlParse::parse_complete")
    b = pc[0]
    where = (b["span"]["file"], b["span"]["line"], b["def"])
    old_c = dict(ip.contracts)
    ip.contracts[(SP, "parse")] = suffix_parser_contract
    try:
        paths = X.paths(b)
    finally:
        ip.contracts.clear()
        ip.contracts.update(old_c)
    good = True
    n = 0
    for p in paths:
        evs = parse_events(p)
        if not evs or not evs[0]["ok"]:
            continue
        n += 1
        r = p["ret"]
        c = p["st"].const_of(r.disc)
        rest = evs[0]["rest"]
        if c == 0:
            if not p["st"].prove_eq0(rest.n) or not find_in(r, evs[0]["val"]):
                good = False
        else:
            if err_variant(F, p["st"], r) != "LeftoverInput" or not p["st"].prove_ge0(rest.n - 1):
                good = False
    ctx.count("R-C04-LEFTOVER")
    ctx.oblig(good and n == 2)
    if not (good and n == 2):
        ctx.violation("R-C04-LEFTOVER", "parse_complete", where, "parse_complete must return Ok exactly when the rest is empty, else LeftoverInput")
    pr = F.bodies.get("parser::complete::parse")
    ctx.count("R-C04-LEFTOVER")
    ok = pr is not None and any(c.get("method") == "parse_complete" for _bb, t in CFG(pr).calls() for c in [t.get("callee") or {}]) \
        and len(CFG(pr).calls()) == 1
    ctx.oblig(ok)
    if not ok:
        ctx.violation("R-C04-LEFTOVER", "complete::parse", ("src/parser/complete.rs", 0, "parser::complete::parse"),
                      "complete::parse must be exactly File::parse_complete(input)")
    # file loop: leaves only through is_empty or an error
    fb = find_impl_body(F, SP, "parse", "parser::complete::File")
    cfg = CFG(fb)
    ok = False
    for head, lbody in cfg.loops().items():
        t = fb["blocks"][head]["term"]
        if t["k"] == "call" and any(x.endswith("<impl [T]>::is_empty") for x in callee_names(t)):
            ok = True
    ctx.count("R-C04-LEFTOVER")
    ctx.oblig(ok)
    if not ok:
        ctx.violation("R-C04-LEFTOVER", "File::parse", (fb["span"]["file"], fb["span"]["line"], fb["def"]), "file parser loop must be guarded by input.is_empty()")
    # ---- SUFFIX contract on the real bodies (through the summaries of the totality analysis)
    check_suffix(ctx, F)
    # ---- prescribed arities / field types / tags: the acceptance sets and tag tables of C03 are soundness conditions too
    ctx.rule("R-C03-ARITY", "check_tlf of every type accepts exactly the specified (type, length) set (shared with C03)")
    ctx.rule("R-C03-CHOICE", "tag tables incl. default arms and the time workaround equal the specification (shared with C03)")
    for tname, (tyn, lo, hi) in SPEC_CHECK_TLF.items():
        c03.accept_set(ctx, A, F, find_impl_body(F, SPT, "check_tlf", tname), "R-C03-ARITY", tname, [(tyn, lo, hi)])
    c03.accept_set(ctx, A, F, find_impl_body(F, SPT, "check_tlf", "parser::common::Time"), "R-C03-ARITY", "parser::common::Time",
                   [("ListOf", 2, 2), ("Unsigned", 4, 4)])
    for nm in ("parser::complete::MessageBody", "parser::streaming::MessageBody"):
        c03.check_choice(ctx, F, A, X, find_impl_body(F, SPT, "parse_with_tlf", nm), nm, "u32", dict(SPEC_BODY_TAGS), body_mode=True)
    c03.check_choice(ctx, F, A, X, find_impl_body(F, SPT, "parse_with_tlf", "parser::common::ListType"), "parser::common::ListType",
                     SPEC_LISTTYPE[0], {k: v[0] for k, v in SPEC_LISTTYPE[1].items()}, payload={k: v[1] for k, v in SPEC_LISTTYPE[1].items()})
    c03.check_time(ctx, F, A, X)
    # ---- lengths: a type-length field that is accepted with a wrapped or truncated length lets malformed input through
    from . import c12
    ctx.rule("R-C12-*", "TLF / primitive decoding is exact or rejected (the rules of C12; an accepted wrapped length is a soundness break too)")
    c12.run_rules(ctx, F, A)
    # ---- MSGTLF
    for nm in ("parser::complete::Message", "parser::streaming::MessageStart"):
        b = find_impl_body(F, SP, "parse", nm)
        before = len(ctx.violations)
        c03.check_envelope_tlf(ctx, F, A, X, b)
        ctx.count("R-C04-MSGTLF")
        for v in ctx.violations[before:]:
            v["rule"] = "R-C04-MSGTLF"
            v["key"] = v["key"].replace("R-C03-ARITY", "R-C04-MSGTLF")


def check_streaming_crc(ctx, F, A, X):
    ip = A.ip
    T = "parser::streaming::Parser"
    pn = [b for b in F.bodies.values() if b.get("name") == "parse_next" and (b.get("impl_self_ty") or {}).get("def") == T]
    if len(pn) != 1:
        raise AnchorMissing("Parser::parse_next")
    pn = pn[0]
    where = (pn["span"]["file"], pn["span"]["line"], pn["def"])
    from ..engine import field_index
    try:
        fi_in, fi_msg, fi_p = field_index(F, T, "input"), field_index(F, T, "msg_input"), field_index(F, T, "pending_list_entries")
    except AnchorMissing as e:
        # another encoding of the parser state: the gate is checked by the protocol simulation (existence of the gate after
        # checksum field and end marker; the exact range needs the field-level rule)
        from .streamsim import StreamSim
        sim = StreamSim(F, A, X)
        viols, stats = sim.run(crc_fact=crc_fact)
        ctx.count("R-C04-CRC", stats["trailers_checked"])
        ctx.cov["streaming_crc_rule"] = "field-level rule not applicable (%s); gate existence decided by simulation" % e
        if stats["trailers_checked"] < 1:
            ctx.violation("BELOW-FLOOR", "R-C04-CRC|streaming", where, "the simulation never reached a message trailer")
        for key, msg in viols:
            if key in ("crc",) or key.startswith("trailer"):
                ctx.violation("R-C04-CRC", "streaming|" + key, where, msg)
        return
    # a parser object in countdown class 1 with msg_input / input two slices of one buffer
    st = ip.new_state()
    slty = {"k": "ref", "mut": False, "to": {"k": "slice", "of": {"k": "int", "w": 8, "sg": False, "ptr": False, "s": "u8"}, "s": "[u8]"}, "s": "&[u8]"}
    msg = ip.fresh_value(st, slty, "msg_input")
    d = st.fresh(0, None, "consumed")
    st.assume_ge0(msg.n - Lin.sym(d))
    inp = VSlice(msg.root, msg.steps, msg.start + Lin.sym(d), msg.n - Lin.sym(d), False)
    vals = [None, None, None]
    vals[fi_in], vals[fi_msg], vals[fi_p] = inp, msg, cint(1, 64, False)
    pty = F.adts[T]["variants"][0]["fields"][fi_p]["ty"]
    vals[fi_p] = cint(1, pty["w"], pty["sg"])
    obj = VAgg("struct", T, vals)
    root = ip.new_oid("self")
    st.mem[root] = obj
    n_ok = 0
    for p in X.paths(pn, args=[VRef(root, (), True)], st=st):
        evs = parse_events(p)
        keys = [self_type_of(e["key"]) for e in evs]
        if keys[:2] != ["u16", "parser::common::EndOfSmlMessage"] or not (evs[0]["ok"] and evs[1]["ok"]):
            continue
        r = p["ret"]
        if p["st"].const_of(r.disc) != 0:
            # error after both trailing parsers succeeded: must be the checksum mismatch
            continue
        n_ok += 1
        ctx.count("R-C04-CRC")
        ctx.count("R-C04-END")
        ok, why = crc_fact(ip, p["st"], evs[0]["val"].lin, msg.root, msg.start, evs[0]["input"].start - msg.start)
        ok = ok and evs[0]["input"] == inp
        ctx.oblig(ok)
        if not ok:
            ctx.violation("R-C04-CRC", "streaming", where, "streaming parser ends a message without the checksum gate: " + (why or "checksum field not read at the current input"))
        end_ok = evs[1]["input"] == evs[0]["rest"]
        ctx.oblig(end_ok)
        if not end_ok:
            ctx.violation("R-C04-END", "streaming", where, "end-of-message marker not parsed right after the checksum field")
    if n_ok < 1:
        ctx.violation("BELOW-FLOOR", "R-C04-CRC|streaming", where, "no message-end success path found in parse_next (countdown 1)")


def check_suffix(ctx, F):
    """every summarised parser function returning Result<(&[u8], T), ParseError> returns a suffix of its first slice argument"""
    from ..common import Ctx
    A2 = ctx.analysis("all", join_exits=lambda b: b["span"]["file"].startswith("src/parser/"), name="parser")
    ip = A2.ip
    ip.summarizable = lambda b: b["span"]["file"].startswith("src/parser/") and b["kind"] != "Closure"
    for root_def in ("parser::complete::parse",):
        A2.run_fn(F.bodies[root_def])
    nx = [b for b in F.bodies.values() if b.get("impl_trait") == "std::iter::Iterator" and b.get("name") == "next"
          and (b.get("impl_self_ty") or {}).get("def") == "parser::streaming::Parser"]
    for b in nx:
        A2.invariant("parser::streaming::Parser")
        A2.method_cases("parser::streaming::Parser", b)
    n = 0
    for key, S in sorted(ip.summaries.items()):
        if S.failed or not S.pargs or not isinstance(S.pargs[0], VSlice):
            continue
        inp = S.pargs[0]
        for oc in S.outcomes:
            v = oc["val"]
            if not (isinstance(v, VEnum) and v.defn == "std::result::Result" and 0 in v.pay and v.disc == Lin.const(0)):
                continue
            p = v.pay[0][0]
            if not (isinstance(p, VAgg) and p.kind == "tuple" and len(p.elems) == 2 and isinstance(p.elems[0], VSlice)):
                continue
            rest = p.elems[0]
            n += 1
            ctx.count("R-C04-SUFFIX")
            st = State(ip.tab)
            try:
                for x in oc["news"]:
                    st.rng[x] = oc["nrng"][x]
                for c in oc["cons"]:
                    st.assume_ge0(c)
            except Infeasible:
                continue
            ok = rest.root == inp.root and rest.steps == inp.steps and st.prove_ge0(rest.start - inp.start) and \
                st.prove_eq0(rest.start + rest.n - inp.start - inp.n)
            if not ok:
                b_ = F.bodies.get(key.split("{")[0])
                if b_ is not None and b_.get("impl_trait") not in ("parser::SmlParse", "parser::SmlParseTlf"):
                    # a byte-level helper, not a grammar-level parser: the sequence extraction analyses such a helper inline
                    # when its body does not satisfy the contract (grammar.helper_obeys_suffix), so nothing relies on it
                    ctx.cov.setdefault("helpers_analysed_inline", [])
                    if key not in ctx.cov["helpers_analysed_inline"]:
                        ctx.cov["helpers_analysed_inline"].append(key)
                    continue
            ctx.oblig(ok)
            if not ok:
                b = F.bodies.get(key.split("{")[0])
                ctx.violation("R-C04-SUFFIX", key, ((b or {"span": {"file": ""}})["span"]["file"], (b or {"span": {"line": 0}})["span"].get("line", 0), key),
                              "parser returns a rest that is not a suffix of its input (rest=%r, input=%r)" % (rest, inp))
    if n < 30:
        ctx.violation("BELOW-FLOOR", "R-C04-SUFFIX", ("", 0, ""), "only %d parser summaries checked for the suffix contract" % n)

"""Representation-independent rules for the streaming parser, by simulation against the event protocol of the SML grammar.

The parser object (whatever its private fields are) is paired with specification-side ghost state
    phase: 0 between messages / 1 list entries outstanding / 2 list end expected / 3 message trailer pending / 4 finished
    rem  : number of list entries still to come (phase 1)
    msg  : the input slice the current message started at (for the checksum range)
and the set of reachable (object, ghost) pairs is inferred as an object invariant, partitioned by phase, by running
Iterator::next (grammar-level parsers replaced by the suffix contract) from every partition to a fixpoint.  The coupling
between the ghost state and the object's own encoding (a countdown integer, an enum with payload, ...) is whatever the joins
infer; the rules below only look at the events and at the parser calls on each path:

  * from phase 0/3 the only events are MessageStart (a list response announcing n values goes to phase 1 with rem = n, or to
    phase 2 when n = 0; other bodies to phase 3) and end of iteration; from phase 1 exactly ListEntry (rem - 1, phase 2 at 0);
    from phase 2 exactly GetListResponseEnd (to phase 3); errors finish the iteration; after None / an error only None follows;
  * from phase 3 nothing is returned before the checksum field and the end marker were parsed (in this order, the marker from
    the rest of the checksum field), and a result other than an error is produced only on paths that establish
    parsed checksum == swap_bytes(CRC(msg start .. checksum field))."""
from ..engine import AnchorMissing
from ..lin import Lin
from ..vra import typestate as TS
from ..vra.interp import Unsupported
from ..vra.state import Infeasible
from ..vra.values import *
from ..vra.stdsum import split_enum
from .grammar import *

PT = "parser::streaming::Parser"
WRAP = "<sim:streaming::Parser>"
EV = "parser::streaming::ParseEvent"


class StreamSim:
    def __init__(self, F, A, X):
        self.F, self.A, self.X, self.ip = F, A, X, A.ip
        nb = [b for b in F.bodies.values() if b.get("impl_trait") == "std::iter::Iterator" and b.get("name") == "next"
              and (b.get("impl_self_ty") or {}).get("def") == PT]
        new = [b for b in F.bodies.values() if b.get("name") == "new" and (b.get("impl_self_ty") or {}).get("def") == PT
               and not b.get("impl_trait")]
        if len(nb) != 1 or len(new) != 1:
            raise AnchorMissing("streaming::Parser::new / Iterator::next")
        self.nb, self.new = nb[0], new[0]
        self.ev_names = {v["idx"]: v["name"] for v in F.adts[EV]["variants"]}
        self.body_adt = F.adts["parser::streaming::MessageBody"]
        self.ms_fields = struct_field_names(F, "parser::streaming::MessageStart")
        self.glr_fields = struct_field_names(F, "parser::streaming::GetListResponseStart")
        self.collect = False
        self.violations = []
        self.stats = {"transitions": 0, "trailers_checked": 0}
        self.crc_fact = None

    # ------------------------------------------------------------------ wrapped objects
    def wrap(self, obj, phase, rem, msg):
        return VAgg("struct", WRAP, [obj, cint(phase, 8, False), VInt(rem, 64, False), msg])

    def key_fn(self, st, w):
        return [(st.const_of(w.elems[1].lin), st)]

    def ctor(self):
        out = []
        for (s, v, args) in self.A.run_fn(self.new):
            inp = args[0] if args else None
            out.append((s, self.wrap(v, 0, Lin.const(0), inp if isinstance(inp, VSlice) else VUnit())))
        return out

    # ------------------------------------------------------------------ one call of next() from a wrapped state
    def classify(self, st, rv):
        """[(state, kind, event value)] kind in None / Err / <ParseEvent variant name>"""
        out = []
        for s2, var, pay in split_enum(self.ip, st, rv, "next() result"):
            if var == 0:
                out.append((s2, "None", None))
                continue
            for s3, v2, p2 in split_enum(self.ip, s2, pay[0], "next() item"):
                if v2 == 1:
                    out.append((s3, "Err", p2[0]))
                    continue
                for s4, v3, p3 in split_enum(self.ip, s3, p2[0], "event"):
                    out.append((s4, self.ev_names[v3], p3[0] if p3 else None))
        return out

    def viol(self, key, msg):
        if self.collect and not any(k == key for k, _m in self.violations):
            self.violations.append((key, msg))

    def step(self, st, w):
        """[(state, wrapped object')] for one call of next()"""
        ip = self.ip
        obj, phase, rem, msg = w.elems[0], st.const_of(w.elems[1].lin), w.elems[2].lin, w.elems[3]
        if phase == 9:
            return []
        root = ip.new_oid("self")
        st.mem[root] = obj
        res = []
        for p in self.X.paths(self.nb, args=[VRef(root, (), True)], st=st):
            for s2, kind, ev in self.classify(p["st"], p["ret"]):
                self.stats["transitions"] += 1
                obj1 = s2.mem[root]
                evs = [e for e in parse_events(p) if not e["key"].endswith("::check_tlf")]
                keys = [self_type_of(e["key"]) for e in evs]
                first_input = evs[0]["input"] if evs else None

                def to(ph, r=Lin.const(0), m=msg, s=s2):
                    res.append((s, self.wrap(obj1, ph, r, m)))
                if kind == "Err":
                    to(4)
                    continue
                if phase == 4:
                    if kind != "None":
                        self.viol("absorb|%s" % kind, "after the iteration ended (None or an error was returned) a further next() yields %s" % kind)
                        to(9)
                    else:
                        to(4)
                    continue
                if phase == 3:
                    # the trailer comes first: checksum field, then the end marker from its rest, then the checksum gate
                    ok_tr = len(evs) >= 2 and keys[0] == "u16" and keys[1] == "parser::common::EndOfSmlMessage" and evs[0]["ok"] and evs[1]["ok"] \
                        and evs[1]["input"] == evs[0]["rest"]
                    if not ok_tr:
                        self.viol("trailer|%s" % kind, "after the body of a message, next() returns %s without first parsing the checksum field and "
                                  "the end marker (parsed %r)" % (kind, keys[:3]))
                        to(9)
                        continue
                    if self.collect and self.crc_fact is not None and kind != "Err":
                        self.stats["trailers_checked"] += 1
                        # (the checksummed range starts where the message started, one call of next() earlier, which the inferred
                        #  invariant does not relate to the current input: the simulation checks that the gate exists; the range
                        #  itself is checked by the field-anchored rule R-C04-CRC whenever its anchors exist)
                        ok, why = self.crc_fact(ip, s2, evs[0]["val"].lin, None, None, None)
                        if not ok:
                            self.viol("crc", "streaming parser ends a message without the checksum gate: " + why)
                    evs, keys = evs[2:], keys[2:]
                    first_input = evs[0]["input"] if evs else None
                if phase in (0, 3):
                    if kind == "None":
                        if evs:
                            self.viol("none-after-parse", "next() returns None after parsing %r" % (keys,))
                        to(4)
                    elif kind == "MessageStart":
                        m = first_input if isinstance(first_input, VSlice) else msg
                        body = ev.elems[self.ms_fields.index("message_body")] if isinstance(ev, VAgg) else None
                        if not isinstance(body, VEnum):
                            raise Unsupported("MessageStart event without a body")
                        for s3, bv, bp in split_enum(ip, s2, body, "message body"):
                            bname = self.body_adt["variants"][bv]["name"]
                            if bname != "GetListResponse":
                                res.append((s3, self.wrap(s3.mem[root], 3, Lin.const(0), m)))
                                continue
                            n = bp[0].elems[self.glr_fields.index("num_vals")].lin
                            for cond, ph in ((("eq", n), 2), (("ge", n - 1), 1)):
                                s4 = s3.copy()
                                try:
                                    if cond[0] == "eq":
                                        s4.assume_eq0(cond[1])
                                    else:
                                        s4.assume_ge0(cond[1])
                                except Infeasible:
                                    continue
                                res.append((s4, self.wrap(s4.mem[root], ph, n if ph == 1 else Lin.const(0), m)))
                    else:
                        self.viol("idle|%s" % kind, "between messages next() yields %s (a message must start with MessageStart)" % kind)
                        to(9)
                elif phase == 1:
                    if kind != "ListEntry":
                        self.viol("entries|%s" % kind, "a list response announced more values, but next() yields %s with %s entries outstanding"
                                  % (kind, s2.describe(rem)))
                        to(9)
                        continue
                    for cond, ph in ((("eq", rem - 1), 2), (("ge", rem - 2), 1)):
                        s4 = s2.copy()
                        try:
                            if cond[0] == "eq":
                                s4.assume_eq0(cond[1])
                            else:
                                s4.assume_ge0(cond[1])
                        except Infeasible:
                            continue
                        res.append((s4, self.wrap(s4.mem[root], ph, rem - 1 if ph == 1 else Lin.const(0), msg)))
                elif phase == 2:
                    if kind != "GetListResponseEnd":
                        self.viol("listend|%s" % kind, "all announced values were delivered, but next() yields %s instead of GetListResponseEnd" % kind)
                        to(9)
                    else:
                        to(3)
        return res

    # ------------------------------------------------------------------ driver
    def run(self, crc_fact=None):
        ip = self.ip
        inv = TS.Invariant(ip, WRAP, self.key_fn)
        rounds = TS.infer(ip, inv, [self.ctor], [lambda st, w: self.step(st, w)])
        self.collect = True
        self.crc_fact = crc_fact
        mark = len(ip.log)
        for key, st, w in inv.instances():
            self.step(st, w)
        del ip.log[mark:]
        self.stats.update({"rounds": rounds, "phases": sorted(str(k) for k in inv.parts), "partitions": inv.describe()})
        return self.violations, self.stats

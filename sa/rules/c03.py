"""C03 Parser completeness: grammar shape (field order / type / optionality / arity / tags / binding)."""
from ..common import ASSUMPTIONS
from ..engine import AnchorMissing
from ..cfg import CFG, callee_names
from ..lin import Lin
from ..vra.interp import Unsupported
from ..vra.state import Infeasible
from ..vra.values import *
from ..vra.stdsum import split_enum
from ..vra.types import INT_TYS
from .grammar import *
from ..vra.stdsum import struct_eq
from ..trace import suffix_parser_contract

TLF = "parser::tlf::TypeLengthField"
TY = "parser::tlf::Ty"
SP = "parser::SmlParse"
SPT = "parser::SmlParseTlf"


def ty_variant(F, name):
    for v in F.adts[TY]["variants"]:
        if v["name"] == name:
            return v["idx"]
    raise AnchorMissing("Ty::" + name)


def accept_set(ctx, A, F, body, rid, tname, boxes):
    """check_tlf(tlf) is true exactly on the union of `boxes` [(ty variant name, lo, hi)]"""
    ip = A.ip
    where = (body["span"]["file"], body["span"]["line"], body["def"])
    old = ip.join_threshold
    ip.join_threshold = 10 ** 9
    try:
        st = ip.new_state()
        args = ip.fresh_args(body, {}, st)
        tlf = ip.read_raw(st, args[0].root, args[0].steps)
        fn = [f["name"] for f in F.adts[TLF]["variants"][0]["fields"]]
        tyv, ln = tlf.elems[fn.index("ty")], tlf.elems[fn.index("len")]
        outs = ip.run_root(body, {}, args, st)
    finally:
        ip.join_threshold = old
    ok = True
    why = ""
    for (s2, rv) in outs:
        for truth in (True, False):
            for s3 in (ip.branch(s2, rv.e, truth) if isinstance(rv, VBool) else []):
                if truth:
                    # accepted => inside some box
                    c = s3.const_of(tyv.disc)
                    lo, hi = s3.interval(ln.lin)
                    inside = False
                    for (tn, blo, bhi) in boxes:
                        if c == ty_variant(F, tn) and lo is not None and lo >= blo and (bhi is None or (hi is not None and hi <= bhi)):
                            inside = True
                    if not inside:
                        ok = False
                        why = "accepts ty=%s len in [%s,%s]" % (c, lo, hi)
                else:
                    # rejected => no point of a box is rejected
                    for (tn, blo, bhi) in boxes:
                        s4 = s3.copy()
                        try:
                            s4.assume_eq0(tyv.disc - ty_variant(F, tn))
                            s4.assume_ge0(ln.lin - blo)
                            if bhi is not None:
                                s4.assume_ge0(Lin.const(bhi) - ln.lin)
                            ok = False
                            why = "rejects some (%s, len in [%s,%s])" % (tn, blo, bhi)
                        except Infeasible:
                            pass
    ctx.count(rid)
    ctx.oblig(ok)
    if not ok:
        ctx.violation(rid, tname, where, "check_tlf of %s %s; specified: %r" % (tname, why, boxes))
    return ok


def run(ctx):
    ctx.rule("R-C03-SEQ", "for every struct parser the success path parses exactly the specified field types in the specified order")
    ctx.rule("R-C03-CHAIN", "every parser call receives the rest returned by the previous one; the returned rest is the last one")
    ctx.rule("R-C03-BIND", "the k-th parsed value is stored in the k-th declared field (no swapped same-typed fields)")
    ctx.rule("R-C03-ARITY", "check_tlf of every type accepts exactly the specified (type, length) set; list arity = number of parsed fields")
    ctx.rule("R-C03-CHOICE", "tag dispatch tables (message body, time, list type) equal the specification; the vendor time workaround is the "
                             "bare Unsigned(4) encoding")
    ctx.rule("R-C03-WIDTH", "Value / Status try their candidate types narrowest first within each signedness, and parse with the type they checked")
    ctx.rule("R-C03-OPT", "Option<T> is None exactly for the marker byte 0x01 (one byte consumed), else T parsed from the same input")
    ctx.rule("R-C03-LIST", "the list parser runs declared-length iterations, one entry parsed and pushed per iteration")
    F = ctx.facts("all")
    A = ctx.analysis("all")
    ip = A.ip
    X = Extractor(A, F)
    try:
        run_rules(ctx, F, A, X)
    except (AnchorMissing, Unsupported, KeyError) as e:
        ctx.violation("ANCHOR-MISSING", "grammar", ("", 0, ""), "%s: %s" % (type(e).__name__, e))
    ctx.assumptions = [ASSUMPTIONS[k] for k in ("A1", "A2", "A7")]
    ctx.explanation = (
        "Grammar-shape clause of parser completeness. Each parser function is analysed path by path with its callee parsers replaced by "
        "the contract 'error, or value plus suffix of the input'; the success path yields the ordered list of parsed types, the slice "
        "chaining and the binding of parsed values to result fields, which are compared with a table transcribed from the SML "
        "specification. check_tlf acceptance sets are computed from the real bodies by value-range analysis and compared as sets. "
        "Not decided: exactness of integer / byte-string values (C12) beyond the shape.")


def run_rules(ctx, F, A, X):
    ip = A.ip
    # ---- struct parsers
    for adt_def, (arity, fields) in SPEC_STRUCTS.items():
        b = find_impl_body(F, SPT, "parse_with_tlf", adt_def)
        check_struct_parser(ctx, X, F, b, adt_def, fields, "R-C03")
        if len(fields) != arity:
            ctx.violation("R-C03-ARITY", adt_def + "|table", ("", 0, ""), "table arity mismatch")
    b = find_impl_body(F, SPT, "parse_with_tlf", "parser::streaming::GetListResponseStart")
    check_struct_parser(ctx, X, F, b, "parser::streaming::GetListResponseStart", SPEC_GLR_START, "R-C03", tail=[])
    b = find_impl_body(F, SP, "parse", "parser::streaming::GetListResponseEnd")
    check_struct_parser(ctx, X, F, b, "parser::streaming::GetListResponseEnd", SPEC_GLR_END, "R-C03")
    b = find_impl_body(F, SP, "parse", "parser::complete::Message")
    check_struct_parser(ctx, X, F, b, "parser::complete::Message", SPEC_MESSAGE, "R-C03", tail=SPEC_MESSAGE_TAIL)
    b = find_impl_body(F, SP, "parse", "parser::streaming::MessageStart")
    check_struct_parser(ctx, X, F, b, "parser::streaming::MessageStart", SPEC_MESSAGE, "R-C03")
    # ---- acceptance sets
    for tname, (tyn, lo, hi) in SPEC_CHECK_TLF.items():
        b = find_impl_body(F, SPT, "check_tlf", tname)
        accept_set(ctx, A, F, b, "R-C03-ARITY", tname, [(tyn, lo, hi)])
    b = find_impl_body(F, SPT, "check_tlf", "parser::common::Time")
    accept_set(ctx, A, F, b, "R-C03-ARITY", "parser::common::Time", [("ListOf", 2, 2), ("Unsigned", 4, 4)])
    # message envelope: List(6)
    for nm in ("parser::complete::Message", "parser::streaming::MessageStart"):
        b = find_impl_body(F, SP, "parse", nm)
        check_envelope_tlf(ctx, F, A, X, b)
    # ---- choices
    for nm, variants in (("parser::complete::MessageBody", "complete"), ("parser::streaming::MessageBody", "streaming")):
        b = find_impl_body(F, SPT, "parse_with_tlf", nm)
        check_choice(ctx, F, A, X, b, nm, "u32", {k: v for k, v in SPEC_BODY_TAGS.items()}, body_mode=True)
    b = find_impl_body(F, SPT, "parse_with_tlf", "parser::common::ListType")
    check_choice(ctx, F, A, X, b, "parser::common::ListType", SPEC_LISTTYPE[0], {k: v[0] for k, v in SPEC_LISTTYPE[1].items()},
                 payload={k: v[1] for k, v in SPEC_LISTTYPE[1].items()})
    check_time(ctx, F, A, X)
    # ---- width dispatch
    check_dispatch(ctx, F, A, X, "parser::common::Value", SPEC_VALUE_TYPES)
    check_dispatch(ctx, F, A, X, "parser::common::Status", SPEC_STATUS_TYPES)
    # ---- Option<T>
    check_option(ctx, F, A, X)
    # ---- list loop
    check_list(ctx, F, A, X)
    # ---- streaming parser: a list response announcing n values yields exactly n entries, one end event, then the trailer
    from . import c09
    ctx.rule("R-C09-COUNT", "streaming countdown (shared with C09): n announced values -> n ListEntry events, one GetListResponseEnd, then the trailer; "
                            "n = 0 included -- a well-formed list of any length is accepted by the streaming parser")
    c09.check_countdown(ctx, F, A, X)
    # ---- values: "every integer value and sign, byte string, ... is preserved" -- the structural value rules of C12
    from . import c12
    ctx.rule("R-C12-*", "value exactness of TLF lengths, integers (right-aligned copy, sign fill, from_be_bytes), booleans and octet strings "
                        "(the rules of C12, which are necessary conditions of C03 as well)")
    c12.run_rules(ctx, F, A)


def check_envelope_tlf(ctx, F, A, X, body):
    """the message parser rejects unless the leading TLF is ListOf with length 6"""
    ip = A.ip
    where = (body["span"]["file"], body["span"]["line"], body["def"])
    ctx.count("R-C03-ARITY")
    ok = True
    n = 0
    for p in X.paths(body):
        evs = parse_events(p)
        if not evs or not evs[0]["key"].startswith("<parser::tlf::TypeLengthField") or not evs[0]["ok"]:
            continue
        tlf = evs[0]["val"]
        fn = [f["name"] for f in F.adts[TLF]["variants"][0]["fields"]]
        c = p["st"].const_of(tlf.elems[fn.index("ty")].disc)
        ln = p["st"].const_of(tlf.elems[fn.index("len")].lin)
        accepted = len(evs) > 1
        if accepted:
            n += 1
            if not (c == ty_variant(F, "ListOf") and ln == 6):
                ok = False
        else:
            # rejected: must not be (ListOf, 6)
            s4 = p["st"].copy()
            try:
                s4.assume_eq0(tlf.elems[fn.index("ty")].disc - ty_variant(F, "ListOf"))
                s4.assume_eq0(tlf.elems[fn.index("len")].lin - 6)
                ok = False
            except Infeasible:
                pass
    ctx.oblig(ok and n > 0)
    if not (ok and n > 0):
        ctx.violation("R-C03-ARITY", body["def"] + "|envelope", where, "the message envelope must be accepted exactly for a List of 6 elements")


def check_choice(ctx, F, A, X, body, adt_def, tag_ty, table, body_mode=False, payload=None):
    ip = A.ip
    where = (body["span"]["file"], body["span"]["line"], body["def"])
    adt = F.adts[adt_def]
    seen = {}
    default_err = True
    for p in X.paths(body):
        evs = parse_events(p)
        if not evs:
            continue
        if self_type_of(evs[0]["key"]) != tag_ty:
            ctx.violation("R-C03-CHOICE", adt_def + "|tagtype", where, "tag parsed as %s, specified %s" % (self_type_of(evs[0]["key"]), tag_ty))
            return
        if not evs[0]["ok"]:
            continue
        tag = evs[0]["val"]
        c = p["st"].const_of(tag.lin) if isinstance(tag, VInt) else None
        okp = ok_payload(ip, p["st"], p["ret"])
        if len(evs) == 1:
            # no variant parser called: must be the default arm -> Err(UnexpectedVariant), for no specified tag
            if okp is not None or err_variant(F, p["st"], p["ret"]) != "UnexpectedVariant":
                default_err = False
            for tv in table:
                s4 = p["st"].copy()
                try:
                    s4.assume_eq0(tag.lin - tv)
                    default_err = False
                except Infeasible:
                    pass
            continue
        if c is None:
            ctx.violation("R-C03-CHOICE", adt_def + "|nonconst", where, "variant parser reached without a constant tag")
            continue
        if okp is not None:
            rest, val = okp
            vi = p["st"].const_of(val.disc) if isinstance(val, VEnum) else None
            vname = adt["variants"][vi]["name"] if vi is not None else None
            seen[c] = (vname, self_type_of(evs[1]["key"]), evs[1]["input"] == evs[0]["rest"] and rest == evs[1]["rest"],
                       isinstance(val, VEnum) and find_in(val, evs[1]["val"]))
    ctx.count("R-C03-CHOICE", len(table) + 1)
    for tv, vname in table.items():
        got = seen.get(tv)
        ok = got is not None and got[0] == vname and got[2] and got[3]
        if ok and body_mode:
            ok = got[1].split("::")[-1].startswith(vname)
        if ok and payload:
            ok = got[1] == payload[tv]
        ctx.oblig(ok)
        if not ok:
            ctx.violation("R-C03-CHOICE", "%s|tag=%#x" % (adt_def, tv), where, "tag %#x must select variant %s (got %r)" % (tv, vname, got))
    extra = [k for k in seen if k not in table]
    ok = default_err and not extra
    ctx.oblig(ok)
    ctx.sample({"choice": adt_def, "table": {hex(k): v[0] for k, v in seen.items()}})
    if not ok:
        ctx.violation("R-C03-CHOICE", adt_def + "|default", where, "unknown tags must yield Err(UnexpectedVariant) (extra tags: %r)" % ([hex(x) for x in extra],))


def check_time(ctx, F, A, X):
    ip = A.ip
    body = find_impl_body(F, SPT, "parse_with_tlf", "parser::common::Time")
    where = (body["span"]["file"], body["span"]["line"], body["def"])
    fn = [f["name"] for f in F.adts[TLF]["variants"][0]["fields"]]
    ok_std = ok_wa = False
    bad = []
    for p in X.paths(body):
        tlfv = ip.read_raw(p["st"], p["args"][1].root, p["args"][1].steps)
        c = p["st"].const_of(tlfv.elems[fn.index("ty")].disc)
        ln = p["st"].const_of(tlfv.elems[fn.index("len")].lin)
        evs = parse_events(p)
        okp = ok_payload(ip, p["st"], p["ret"])
        wa = (c == ty_variant(F, "Unsigned") and ln == 4)
        if wa:
            # vendor workaround: exactly 4 bytes, big endian
            if okp is not None:
                good = len(evs) == 1 and evs[0]["key"].startswith("parser::take") and evs[0]["input"] == p["args"][0] \
                    and okp[0] == evs[0]["rest"] and p["st"].prove_eq0(evs[0]["rest"].start - evs[0]["input"].start - 4) is not None
                val = okp[1]
                secs = val.pay[p["st"].const_of(val.disc)][0] if isinstance(val, VEnum) else None
                d = ip.tab.defn(secs.lin.single()[0]) if isinstance(secs, VInt) and secs.lin.single() else None
                good = good and (isinstance(secs, VInt) and (d is None or d[0] == "from_bytes" and d[1] == "be"))
                if not good and len(evs) == 1 and self_type_of(evs[0]["key"]) == "u32" and evs[0]["key"].endswith("::parse_with_tlf"):
                    # the same bytes read by the u32 parser itself: <u32>::parse_with_tlf(input, the Unsigned(4) TLF); what that parser
                    # returns for this TLF is the 4-byte big-endian number (R-C12-INT)
                    targ = [a for a in evs[0]["ev"]["args"] if isinstance(a, VRef)]
                    same_tlf = bool(targ) and struct_eq(ip, p["st"], ip.read_raw(p["st"], targ[0].root, targ[0].steps), tlfv) == ("c", True)
                    good = evs[0]["input"] == p["args"][0] and okp[0] == evs[0]["rest"] and same_tlf and isinstance(okp[1], VEnum) \
                        and find_in(okp[1], evs[0]["val"])
                ok_wa = ok_wa or good
                if not good:
                    bad.append("workaround path malformed")
        else:
            if okp is not None:
                tag_ok = len(evs) == 2 and self_type_of(evs[0]["key"]) == "u8" and self_type_of(evs[1]["key"]) == "u32" \
                    and p["st"].const_of(evs[0]["val"].lin) == 1 and find_in(okp[1], evs[1]["val"]) and evs[1]["input"] == evs[0]["rest"]
                ok_std = ok_std or tag_ok
                if not tag_ok:
                    bad.append("standard path malformed")
            elif len(evs) == 1 and evs[0]["ok"]:
                s4 = p["st"].copy()
                try:
                    s4.assume_eq0(evs[0]["val"].lin - 1)
                    bad.append("tag 1 rejected")
                except Infeasible:
                    pass
    ctx.count("R-C03-CHOICE", 2)
    for nm, ok in (("standard List(2)[tag=1, secIndex:u32]", ok_std), ("vendor workaround Unsigned(4)", ok_wa)):
        ctx.oblig(ok and not bad)
        if not (ok and not bad):
            ctx.violation("R-C03-CHOICE", "Time|" + nm.split()[0], where, "time encoding `%s` not parsed as specified (%s)" % (nm, "; ".join(bad) or "path missing"))


def size_of(t):
    return {"u8": 1, "i8": 1, "u16": 2, "i16": 2, "u32": 4, "i32": 4, "u64": 8, "i64": 8}.get(t)


DISPATCH_LENS = [0, 1, 2, 3, 4, 5, 6, 7, 8, 9, 10, 15, 16, 17, 255, 256, 65535, 65536, (1 << 32) - 1]


def check_dispatch(ctx, F, A, X, adt_def, spec_types):
    """Width dispatch, decided per (type, length) class of the TLF with the real check_tlf bodies: the value is parsed by the
    narrowest specified type whose (separately verified) acceptance box contains the class, from the unchanged input and TLF,
    and is bound into the variant of that type; every other class is a TlfMismatch."""
    ip = A.ip
    body = find_impl_body(F, SPT, "parse_with_tlf", adt_def)
    where = (body["span"]["file"], body["span"]["line"], body["def"])
    adt = F.adts[adt_def]
    ty_adt = F.adts["parser::tlf::Ty"]
    fn = [f["name"] for f in F.adts[TLF]["variants"][0]["fields"]]
    from ..vra.types import ty_str
    slty = body["locals"][1]["ty"]
    seen_types = set()
    n_classes = 0
    bad = {}
    X.real_checks = True
    try:
        for tv in ty_adt["variants"]:
            for ln in DISPATCH_LENS:
                cands = []
                for T in spec_types:
                    tn, lo, hi = SPEC_CHECK_TLF[T]
                    if tn == tv["name"] and lo <= ln and (hi is None or ln <= hi):
                        cands.append(T)
                sized = [T for T in cands if size_of(T)]
                if sized:
                    expected = min(sized, key=size_of)
                else:
                    expected = cands[0] if cands else None
                if len(cands) > 1 and not sized:
                    raise AnchorMissing("ambiguous dispatch table for %s" % adt_def)
                st = ip.new_state()
                inp = ip.fresh_value(st, slty, "input")
                vals = [None, None]
                vals[fn.index("ty")] = VEnum("parser::tlf::Ty", Lin.const(tv["idx"]), {tv["idx"]: ()})
                vals[fn.index("len")] = cint(ln, 32, False)
                root = ip.new_oid("tlf")
                st.mem[root] = VAgg("struct", TLF, vals)
                tref = VRef(root, (), False)
                n_classes += 1
                paths = X.paths(body, args=[inp, tref], st=st)
                why = None
                if not paths:
                    why = "no path"
                for p in paths:
                    evs = [e for e in parse_events(p) if not e["key"].endswith("::check_tlf")]
                    okp = ok_payload(ip, p["st"], p["ret"])
                    if expected is None:
                        if evs or okp is not None or err_variant(F, p["st"], p["ret"]) != "TlfMismatch":
                            why = "must be rejected with TlfMismatch (parsed %r)" % ([self_type_of(e["key"]) for e in evs],)
                        continue
                    if len(evs) != 1 or self_type_of(evs[0]["key"]) != expected:
                        why = "must be parsed as %s, is parsed as %r" % (expected, [self_type_of(e["key"]) for e in evs] or err_variant(F, p["st"], p["ret"]))
                        continue
                    seen_types.add(expected)
                    ev = evs[0]
                    if ev["input"] != inp or len(ev["ev"]["args"]) < 2 or ev["ev"]["args"][1] != tref:
                        why = "%s must be parsed from the unchanged input and the same TLF" % expected
                        continue
                    if okp is not None:
                        v = okp[1]
                        vi = p["st"].const_of(v.disc) if isinstance(v, VEnum) else None
                        vdef = adt["variants"][vi] if vi is not None else None
                        if vdef is None or not vdef["fields"] or norm_ty(ty_str(vdef["fields"][0]["ty"])) != expected or not find_in(v, ev["val"]) \
                                or okp[0] != ev["rest"]:
                            why = "the %s value must be returned in the variant of that type with the parser's rest (variant %s)" % (expected, vdef and vdef["name"])
                ctx.oblig(why is None)
                if why is not None:
                    bad.setdefault((expected, why), []).append((tv["name"], ln))
    finally:
        X.real_checks = False
    ctx.count("R-C03-WIDTH", n_classes)
    ctx.sample({"dispatch": adt_def, "classes": n_classes, "types_reached": sorted(seen_types)})
    for (expected, why), classes in sorted(bad.items(), key=lambda kv: str(kv[0])):
        ctx.violation("R-C03-WIDTH", "%s|arm=%s" % (adt_def, expected), where,
                      "TLF classes %r: %s (a value would be returned in a wider / wrong variant than its encoding)" % (classes[:6], why))
    missing = [T for T in spec_types if T not in seen_types]
    if missing:
        ctx.violation("R-C03-WIDTH", adt_def + "|order", where, "specified types never selected by the dispatch: %r" % (missing,))


def check_option(ctx, F, A, X):
    ip = A.ip
    body = [b for b in F.bodies.values() if b.get("impl_trait") == SP and b.get("name") == "parse"
            and (b.get("impl_self_ty") or {}).get("def") == "std::option::Option"]
    if len(body) != 1:
        raise AnchorMissing("Option<T> parser")
    body = body[0]
    where = (body["span"]["file"], body["span"]["line"], body["def"])
    none_ok = some_ok = False
    bad = []
    # T stays abstract: the inner parser call is unresolved -> give it the parser contract
    old = ip.contracts.get((SP, "parse"))
    from ..trace import suffix_parser_contract
    ip.contracts[(SP, "parse")] = suffix_parser_contract
    try:
        paths = X.paths(body)
    finally:
        if old is None:
            ip.contracts.pop((SP, "parse"), None)
        else:
            ip.contracts[(SP, "parse")] = old
    for p in paths:
        okp = ok_payload(ip, p["st"], p["ret"])
        evs = parse_events(p)
        inp = p["args"][0]
        if okp is None:
            continue
        rest, val = okp
        v = p["st"].const_of(val.disc) if isinstance(val, VEnum) else None
        if v == 0:
            first = ip.read_raw(p["st"], inp.root, inp.steps + (("ix", inp.start),)) if False else None
            # None: no inner parse, exactly one byte consumed, and that byte is 0x01 (recorded as a constraint on the element read)
            good = not evs and rest.root == inp.root and p["st"].prove_eq0(rest.start - inp.start - 1) and p["st"].prove_eq0(rest.n - inp.n + 1)
            fb = p["st"].ghost.get(("elem", inp.root, inp.steps, inp.start))
            m = fb.lin if isinstance(fb, VInt) else None
            good = good and m is not None and p["st"].const_of(m) == 1
            none_ok = none_ok or good
            if not good:
                bad.append("None path: must consume exactly the marker byte 0x01")
        elif v == 1:
            good = len(evs) == 1 and evs[0]["input"] == inp and rest == evs[0]["rest"] and find_in(val, evs[0]["val"])
            fb = p["st"].ghost.get(("elem", inp.root, inp.steps, inp.start))
            m = fb.lin if isinstance(fb, VInt) else None
            if m is not None:
                s4 = p["st"].copy()
                try:
                    s4.assume_eq0(m - 1)
                    good = False      # inner parser reached although the marker byte is present
                except Infeasible:
                    pass
            some_ok = some_ok or good
            if not good:
                bad.append("Some path: T must be parsed from the unchanged input and only when the first byte is not 0x01")
    ctx.count("R-C03-OPT", 2)
    for nm, ok in (("None", none_ok), ("Some", some_ok)):
        ctx.oblig(ok and not bad)
        if not (ok and not bad):
            ctx.violation("R-C03-OPT", nm, where, "Option<T> parser, %s case: %s" % (nm, "; ".join(sorted(set(bad))) or "path missing"))


def check_list(ctx, F, A, X=None):
    """The value list: exactly tlf.len entries are parsed, each from the rest left by the previous one, each pushed once in
    order, and the rest of the last one is returned.  Decided with ghost counters kept in the abstract memory (number of
    entries parsed / pushed, offset of the expected next input), so the loop may be written in any form."""
    ip = A.ip
    X = X or Extractor(A, F)
    body = find_impl_body(F, SPT, "parse_with_tlf", "std::vec::Vec<parser::common::ListEntry>")
    where = (body["span"]["file"], body["span"]["line"], body["def"])
    G_P, G_V, G_C = ("G", "c03-parsed"), ("G", "c03-pushed"), ("G", "c03-chain")
    fn = [f["name"] for f in F.adts[TLF]["variants"][0]["fields"]]
    bad = []

    def is_entry_parse(callee):
        return callee.get("trait") == SP and callee.get("method") == "parse" and "ListEntry" in (callee.get("path_with_args") or ty_name(callee))

    def ty_name(callee):
        st_ = callee.get("self_ty") or {}
        return st_.get("s", "") or ""

    def on_call(ip_, frame, bb, t, st, callee, args):
        if G_P not in st.mem:
            return
        if is_entry_parse(callee):
            a0 = args[0] if args else None
            root0 = st.ghost.get("c03-root")
            if not (isinstance(a0, VSlice) and root0 == (a0.root, a0.steps) and st.prove_eq0(a0.start - st.mem[G_C].lin)):
                st.ghost["c03-bad"] = max(st.ghost.get("c03-bad", 0), 1)
        r = (callee.get("resolved") or callee)["def"]
        if r.endswith("Vec::<T, A>::push"):
            p_, v_ = st.mem[G_P].lin, st.mem[G_V].lin
            last = st.ghost.get("c03-last")
            if not st.prove_eq0(p_ - v_ - 1) or last is None or args[1] != last:
                st.ghost["c03-bad"] = max(st.ghost.get("c03-bad", 0), 2)
            st.mem[G_V] = VInt(v_ + 1, 64, False)

    def on_res(ip_, frame, bb, t, callee, args, outs):
        if not is_entry_parse(callee):
            return
        for s2, rv in outs:
            if G_P not in s2.mem:
                continue
            okp = ok_payload(ip_, s2, rv)
            if okp is None:
                continue
            if not s2.prove_eq0(s2.mem[G_P].lin - s2.mem[G_V].lin):
                s2.ghost["c03-bad"] = max(s2.ghost.get("c03-bad", 0), 3)
            s2.mem[G_P] = VInt(s2.mem[G_P].lin + 1, 64, False)
            s2.mem[G_C] = VInt(okp[0].start, 64, False)
            s2.ghost["c03-last"] = okp[1]
    ip.on_call.append(on_call)
    ip.on_call_result.append(on_res)
    old_c = dict(ip.contracts)
    ip.contracts[(SP, "parse")] = suffix_parser_contract
    n_ok = 0
    try:
        st = ip.new_state()
        args = ip.fresh_args(body, {}, st)
        inp = args[0]
        tlf = ip.read_raw(st, args[1].root, args[1].steps)
        ln = tlf.elems[fn.index("len")].lin
        st.mem[G_P] = cint(0, 64, False)
        st.mem[G_V] = cint(0, 64, False)
        st.mem[G_C] = VInt(inp.start, 64, False)
        st.ghost["c03-root"] = (inp.root, inp.steps)
        paths = X.paths(body, args=args, st=st)
    finally:
        ip.on_call.remove(on_call)
        ip.on_call_result.remove(on_res)
        ip.contracts.clear()
        ip.contracts.update(old_c)
    for p in paths:
        s2 = p["st"]
        okp = ok_payload(ip, s2, p["ret"])
        if okp is None:
            continue
        n_ok += 1
        why = {1: "an entry is not parsed from the rest left by the previous entry",
               2: "a value other than the entry just parsed is pushed, or an entry is pushed twice / skipped",
               3: "an entry is parsed before the previous one was pushed"}.get(s2.ghost.get("c03-bad"))
        if why is None and not (s2.prove_eq0(s2.mem[G_P].lin - ln) and s2.prove_eq0(s2.mem[G_V].lin - ln)):
            why = "the number of entries parsed and pushed must equal the list length of the TLF (parsed %s, pushed %s, length %s)" % (
                s2.describe(s2.mem[G_P].lin), s2.describe(s2.mem[G_V].lin), s2.describe(ln))
        if why is None and not (isinstance(okp[0], VSlice) and okp[0].root == inp.root and s2.prove_eq0(okp[0].start - s2.mem[G_C].lin)):
            why = "the returned rest is not the rest left by the last entry"
        if why:
            bad.append(why)
    ctx.count("R-C03-LIST")
    ok = n_ok > 0 and not bad
    ctx.oblig(ok)
    if not ok:
        ctx.violation("R-C03-LIST", "complete", where, "list parser: " + (bad[0] if bad else "no successful path"))


def defining_field(body, place, depth=0):
    if place["proj"] and place["proj"][-1]["k"] == "field":
        return place["proj"][-1].get("name")
    if depth > 4 or place["proj"]:
        return None
    for blk in body["blocks"]:
        for st in blk["stmts"]:
            if st["k"] == "assign" and st["place"]["local"] == place["local"] and not st["place"]["proj"]:
                rv = st["rv"]
                if rv["k"] == "use" and rv["op"]["k"] in ("copy", "move"):
                    return defining_field(body, rv["op"]["place"], depth + 1)
    return None

"""Shared helper for the front-end rules (C10, C11, C15): analyse a driver function path by path with the wrapped
components (push decoder, byte source, parsers) replaced by opaque total functions and record, per path, the calls
made in the *last loop iteration* together with their arguments and results."""
from ..engine import AnchorMissing
from ..lin import Lin
from ..trace import Tracer, trace_of, callee_key
from ..vra.interp import Unsupported
from ..vra.values import *
from ..vra.stdsum import split_enum
from ..vra.types import ty_str

DEC = "transport::decode::Decoder"
OPAQUE_DECODER_METHODS = ("_push_byte", "push_byte", "borrow_buf", "reset", "finalize")


def body_of(F, self_def, name, trait=None):
    r = [b for b in F.bodies.values() if b.get("name") == name and (b.get("impl_self_ty") or {}).get("def") == self_def
         and b["kind"] != "Closure" and (trait is None or b.get("impl_trait") == trait)]
    if len(r) != 1:
        raise AnchorMissing("%s::%s: %d bodies" % (self_def, name, len(r)))
    return r[0]


def opaque_components(F, extra=()):
    """calls that the driver rules treat as black boxes"""
    def f(callee):
        r = callee.get("resolved") or callee
        b = F.bodies.get(r["def"])
        if b is None:
            return False
        owner = (b.get("impl_self_ty") or {}).get("def")
        if owner == DEC and b.get("name") in OPAQUE_DECODER_METHODS:
            return True
        if r["def"] in extra or b.get("name") in extra:
            return True
        return False
    return f


def paths(A, F, body, opaque, env=None, args=None, st=None, select=None):
    ip = A.ip
    old, olds = ip.opaque_fn, ip.summarizable
    ip.opaque_fn = opaque
    ip.summarizable = None
    out = []
    try:
        with Tracer(A, select=select or (lambda key, callee: True)):
            st = st or ip.new_state()
            if args is None:
                args = ip.fresh_args(body, env or {}, st)
            for (s2, rv) in ip.run_root(body, env or {}, args, st):
                out.append({"st": s2, "ret": rv, "trace": trace_of(s2), "args": args})
    finally:
        ip.opaque_fn, ip.summarizable = old, olds
    return out


def short(key):
    """`transport::decode::Decoder::<B>::_push_byte` -> `_push_byte`, trait calls -> method name"""
    k = key.split("::")[-1]
    return k


def names(trace, interesting):
    return [short(e["key"]) for e in trace if short(e["key"]) in interesting]


def enum_variant(F, st, v):
    """(variant name, payload tuple) of an enum value with constant discriminant"""
    if not isinstance(v, VEnum):
        return None, ()
    c = st.const_of(v.disc)
    if c is None:
        return None, ()
    adt = F.adts.get(v.defn)
    if adt:
        return adt["variants"][c]["name"], v.pay.get(c, ())
    from ..vra.types import EXT_ENUMS
    lay = EXT_ENUMS.get(v.defn)
    return (lay[c][0] if lay else str(c)), v.pay.get(c, ())


def bool_is(st, v, truth):
    """the boolean value v is known to be `truth` on this path"""
    if not isinstance(v, VBool):
        return False
    e = v.e
    if e[0] == "c":
        return e[1] == truth
    if e[0] == "sym":
        return st.const_of(Lin.sym(e[1])) == (1 if truth else 0)
    return False

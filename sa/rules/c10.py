"""C10 End to end: SmlReader is a pure composition of DecoderReader and the target adapters (structural clauses)."""
from ..common import ASSUMPTIONS
from ..engine import AnchorMissing
from ..cfg import CFG, callee_names
from ..lin import Lin
from ..vra.interp import Unsupported
from ..vra.state import Infeasible
from ..vra.values import *
from ..vra.stdsum import split_enum
from ..vra.types import ty_str
from .frontends import *

SR = "SmlReader"
RD = "transport::decoder_reader::DecoderReader"


def run(ctx):
    ctx.rule("R-C10-COMPOSE", "SmlReader::{read,next,read_nb,next_nb} call the decoder reader exactly once and hand its result, unmodified, to the "
                              "target type's parse_from; None / WouldBlock only short-circuit")
    ctx.rule("R-C10-ADAPT", "the target adapters pass the decoded slice to complete::parse / Parser::new / identity without slicing or copying; "
                            "error conversions map variant to variant and forward every payload field (incl. the discarded-byte count)")
    ctx.rule("R-C10-SOURCES", "slice source returns inner[idx] then idx+1 and Eof iff idx >= len; iterator source returns each item once; "
                              "constructors wrap the given source untouched with a fresh decoder")
    F = ctx.facts("all")
    A = ctx.analysis("all")
    try:
        check_compose(ctx, F, A)
        check_adapters(ctx, F, A)
        check_sources(ctx, F, A)
        # io::Read source and end-of-input signalling: the decoder-reader rules of C11 are necessary here as well
        from . import c11
        ctx.rule("R-C11-EXACT1", "(shared with C11) IoByteSource reads exactly one byte per call through read_exact (std retries Interrupted), so an "
                                 "io::Read source yields the same bytes as a slice")
        ctx.rule("R-C11-NONE", "(shared with C11) DecoderReader::next returns None exactly for end of input with nothing pending and forwards everything else")
        c11.check_io_source(ctx, F, A)
        c11.check_next(ctx, F, A)
        from .decoder import Anchors, check_final_reset, NOD
        an = Anchors(F)
        A.invariant(NOD)
        ctx.rule("R-C10-FINAL", "finalize() and reset() report the same pending-byte count from every decoder state (what the reader "
                 "front-ends attach to an I/O error / EOF equals what the iterator front-ends report as trailing DiscardedBytes)")
        check_final_reset(ctx, A, F, an, "R-C10-FINAL")
        ctx.include("C17", "'reports noise only as discarded byte counts': the counts the reader and the decoder report are exact (byte accounting)")
    except (AnchorMissing, Unsupported, KeyError) as e:
        ctx.violation("ANCHOR-MISSING", "reader", ("", 0, ""), "%s: %s" % (type(e).__name__, e))
    ctx.assumptions = [ASSUMPTIONS[k] for k in ("A1", "A2", "A4", "A6")]
    ctx.explanation = (
        "Composition clauses of the end-to-end property decided as value-identity facts on abstract paths: each SmlReader entry point makes "
        "one call to the decoder reader and one to parse_from with the same value; adapters forward the slice and map errors field by "
        "field; byte sources deliver every element once, in order. Not decided: the end-to-end statement itself (needs C01/C03).")


def viol(ctx, rule, b, key, msg):
    ctx.violation(rule, "%s|%s" % (b["def"], key), (b["span"]["file"], b["span"]["line"], b["def"]), msg)


def check_compose(ctx, F, A):
    ip = A.ip
    for name, inner, nb in (("read", "read", False), ("next", "next", False), ("read_nb", "read_nb", True), ("next_nb", "next_nb", True)):
        b = body_of(F, SR, name)
        saw = set()
        for p in paths(A, F, b, opaque_components(F, extra=("read", "next", "read_nb", "next_nb"))):
            st, tr = p["st"], p["trace"]
            inn = [e for e in tr if short(e["key"]) == inner and "DecoderReader" in e["key"]]
            pf = [e for e in tr if short(e["key"]) == "parse_from"]
            ctx.count("R-C10-COMPOSE")
            ok = len(inn) == 1
            var, pay = enum_variant(F, st, p["ret"])
            why = "must call DecoderReader::%s exactly once" % inner
            if ok:
                iv, ipay = enum_variant(F, st, inn[0]["ret"])
                arg = None
                if name == "read":
                    arg = inn[0]["ret"]
                    ok = len(pf) == 1 and pf[0]["args"][0] == arg and p["ret"] == pf[0]["ret"]
                    saw.add("call")
                elif name == "next":
                    if iv == "None":
                        ok = not pf and var == "None"
                        saw.add("none")
                    else:
                        ok = len(pf) == 1 and pf[0]["args"][0] == ipay[0] and var == "Some" and pay[0] == pf[0]["ret"]
                        saw.add("some")
                elif name == "read_nb":
                    if iv == "Err":
                        ev, ep = enum_variant(F, st, ipay[0])
                        if ev == "WouldBlock":
                            nv, _ = enum_variant(F, st, pay[0]) if var == "Err" else (None, ())
                            ok = not pf and nv == "WouldBlock"
                            saw.add("wb")
                        else:
                            a = pf[0]["args"][0] if pf else None
                            av, ap = enum_variant(F, st, a) if a is not None else (None, ())
                            ok = len(pf) == 1 and av == "Err" and ap[0] == ep[0]
                            saw.add("err")
                    else:
                        a = pf[0]["args"][0] if pf else None
                        av, ap = enum_variant(F, st, a) if a is not None else (None, ())
                        ok = len(pf) == 1 and av == "Ok" and ap[0] == ipay[0]
                        saw.add("ok")
                    if ok and pf:
                        # result of parse_from is forwarded (Ok -> Ok, Err(e) -> Err(Other(e)))
                        rv, rp = enum_variant(F, st, pf[0]["ret"])
                        if rv == "Ok":
                            ok = var == "Ok" and pay[0] == rp[0]
                        elif rv == "Err":
                            nv, npay = enum_variant(F, st, pay[0]) if var == "Err" else (None, ())
                            ok = nv == "Other" and npay[0] == rp[0]
                else:
                    if iv == "Ok":
                        ov, op = enum_variant(F, st, ipay[0])
                        if ov == "None":
                            rv, rp = enum_variant(F, st, pay[0]) if var == "Ok" else (None, ())
                            ok = not pf and rv == "None"
                            saw.add("none")
                        else:
                            a = pf[0]["args"][0] if pf else None
                            av, ap = enum_variant(F, st, a) if a is not None else (None, ())
                            ok = len(pf) == 1 and av == "Ok" and ap[0] == op[0]
                            saw.add("some")
                    else:
                        ev, ep = enum_variant(F, st, ipay[0])
                        if ev == "WouldBlock":
                            nv, _ = enum_variant(F, st, pay[0]) if var == "Err" else (None, ())
                            ok = not pf and nv == "WouldBlock"
                            saw.add("wb")
                        else:
                            a = pf[0]["args"][0] if pf else None
                            av, ap = enum_variant(F, st, a) if a is not None else (None, ())
                            ok = len(pf) == 1 and av == "Err" and ap[0] == ep[0]
                            saw.add("err")
                why = "the decoder reader's result must reach parse_from unmodified and parse_from's result must be returned (None / WouldBlock short-circuit)"
            ctx.oblig(bool(ok))
            if len(ctx.samples) < 6:
                ctx.sample({"entry_point": "SmlReader::" + name, "path_calls": [short(e["key"]) for e in tr][:6], "returns": var, "pure_composition": bool(ok)})
            if not ok:
                viol(ctx, "R-C10-COMPOSE", b, "%s" % sorted(saw), "SmlReader::%s: %s" % (name, why))
        if not saw:
            viol(ctx, "R-C10-COMPOSE", b, "coverage", "no path analysed")


def check_adapters(ctx, F, A):
    ip = A.ip
    pfs = [b for b in F.bodies.values() if b.get("impl_trait") == "SmlParse" and b.get("name") == "parse_from"]
    ctx.count("R-C10-ADAPT", len(pfs))
    if len(pfs) != 6:
        ctx.violation("BELOW-FLOOR", "R-C10-ADAPT", ("src/lib.rs", 0, "parse_from"), "expected 6 parse_from adapters, found %d" % len(pfs))
    for b in pfs:
        target = ty_str(b["impl_self_ty"])
        res_input = b["locals"][1]["ty"].get("k") == "adt"     # Result<&[u8], ReadDecodedError<..>> vs &[u8]
        opq = opaque_components(F, extra=("parse", "new"))
        for p in paths(A, F, b, opq):
            st, tr = p["st"], p["trace"]
            arg = p["args"][0]
            var, pay = enum_variant(F, st, p["ret"])
            ctx.count("R-C10-ADAPT")
            if res_input:
                av, ap = enum_variant(F, st, arg)
                slice_in = ap[0] if av == "Ok" else None
            else:
                av, slice_in = "Ok", arg
            inner = [e for e in tr if short(e["key"]) in ("parse", "new") and "parser::" in e["key"]]
            ok = True
            why = ""
            if av is None:
                # the input is passed on without being inspected
                ok = p["ret"] == arg and not inner
                why = "the result must be the input itself"
            elif av == "Ok":
                if target == "&[u8]":
                    ok = var == "Ok" and pay[0] == slice_in and not inner
                    why = "DecodedBytes must be the decoded slice itself"
                else:
                    ok = len(inner) == 1 and inner[0]["args"][0] == slice_in
                    why = "the decoded slice must be handed to the parser unmodified"
                    if ok:
                        r = inner[0]["ret"]
                        if "File" in target:
                            rv, rp = enum_variant(F, st, r)
                            if p["ret"] == r:
                                ok = True
                            elif rv == "Ok":
                                ok = var == "Ok" and pay[0] == rp[0]
                            else:
                                ev, ep = enum_variant(F, st, pay[0]) if var == "Err" else (None, ())
                                ok = (ev == "ParseErr" and ep[0] == rp[0]) or (var == "Err" and pay[0] == rp[0])
                            why = "the parser's result must be forwarded (errors as ParseErr)"
                        else:
                            ok = var == "Ok" and pay[0] == r
                            why = "the constructed Parser must be returned"
            else:
                # error input: converted variant by variant with all payload fields
                ev, ep = enum_variant(F, st, ap[0])
                rv, rp = enum_variant(F, st, pay[0]) if var == "Err" else (None, ())
                ok = var == "Err" and not inner and rv == ev and tuple(rp) == tuple(ep)
                why = "an error from the decoder reader must be converted variant to variant with every payload field (%s%r -> %s%r)" % (ev, ep, rv, rp)
            ctx.oblig(bool(ok))
            if not ok:
                viol(ctx, "R-C10-ADAPT", b, "%s|%s" % (target, av), "parse_from for %s: %s" % (target, why))
    # the From impls themselves
    for b in F.bodies.values():
        if b.get("impl_trait") == "std::convert::From" and (b.get("impl_self_ty") or {}).get("def") == "ReadParsedError":
            for p in paths(A, F, b, lambda c: False):
                st = p["st"]
                arg = p["args"][0]
                av, ap = enum_variant(F, st, arg)
                rv, rp = enum_variant(F, st, p["ret"])
                ctx.count("R-C10-ADAPT")
                if isinstance(arg, VEnum) and arg.defn.endswith("ReadDecodedError"):
                    ok = av == rv and tuple(ap) == tuple(rp)
                else:
                    ok = rv == "ParseErr" and rp[0] == arg
                ctx.oblig(ok)
                if not ok:
                    viol(ctx, "R-C10-ADAPT", b, "from|%s" % av, "error conversion must map %s%r to the same variant with the same fields (got %s%r)" % (av, ap, rv, rp))


def check_sources(ctx, F, A):
    ip = A.ip
    # slice source (real body, from its invariant)
    T = "util::SliceByteSource"
    b = [x for x in F.bodies.values() if x.get("impl_trait") == "util::ByteSource" and x.get("name") == "read_byte" and x["impl_self_ty"].get("def") == T]
    if len(b) != 1:
        raise AnchorMissing("SliceByteSource::read_byte")
    b = b[0]
    from ..engine import field_index
    fi_in, fi_idx = field_index(F, T, "inner"), field_index(F, T, "idx")
    n_ok = n_err = 0
    for c in A.method_cases(T, b):
        st = c["st"]
        sl0, idx0 = c["obj0"].elems[fi_in], c["obj0"].elems[fi_idx].lin
        var, pay = enum_variant(F, st, c["ret"])
        ctx.count("R-C10-SOURCES")
        if var == "Ok":
            n_ok += 1
            el = st.ghost.get(("elem", sl0.root, sl0.steps, sl0.start + idx0))
            ok = st.prove_ge0(sl0.n - idx0 - 1) and el is not None and pay[0] == el and \
                st.prove_eq0(c["obj"].elems[fi_idx].lin - idx0 - 1) and c["obj"].elems[fi_in] == sl0
            why = "Ok must return inner[idx] for idx < len and advance idx by exactly 1"
        else:
            n_err += 1
            ok = st.prove_ge0(idx0 - sl0.n) and st.prove_eq0(c["obj"].elems[fi_idx].lin - idx0)
            why = "Eof must be returned exactly when idx >= len, leaving idx unchanged"
        ctx.oblig(ok)
        if not ok:
            viol(ctx, "R-C10-SOURCES", b, "slice|%s" % var, "SliceByteSource::read_byte: " + why)
    if not (n_ok and n_err):
        viol(ctx, "R-C10-SOURCES", b, "coverage", "expected Ok and Eof outcomes")
    # iterator source
    bi = [x for x in F.bodies.values() if x.get("impl_trait") == "util::ByteSource" and x.get("name") == "read_byte" and x["impl_self_ty"].get("def") == "util::IterByteSource"]
    if len(bi) != 1:
        raise AnchorMissing("IterByteSource::read_byte")
    bi = bi[0]
    saw = set()
    for p in paths(A, F, bi, lambda c: False):
        st, tr = p["st"], p["trace"]
        nx = [e for e in tr if short(e["key"]) == "next"]
        var, pay = enum_variant(F, st, p["ret"])
        ctx.count("R-C10-SOURCES")
        ok = len(nx) == 1
        if ok:
            nv, npay = enum_variant(F, st, nx[0]["ret"])
            if nv == "Some":
                bw = [e for e in tr if short(e["key"]) == "borrow"]
                ok = var == "Ok" and len(bw) == 1 and isinstance(bw[0]["args"][0], VRef) and \
                    isinstance(bw[0]["ret"], VRef) and pay[0] == ip.read_raw(st, bw[0]["ret"].root, bw[0]["ret"].steps)
                saw.add("item")
            else:
                ok = var == "Err"
                saw.add("eof")
        ctx.oblig(bool(ok))
        if not ok:
            viol(ctx, "R-C10-SOURCES", bi, "iter|%s" % var, "IterByteSource::read_byte must take exactly one item per call (Ok(*item.borrow())) and report Eof on None")
    if saw != {"item", "eof"}:
        viol(ctx, "R-C10-SOURCES", bi, "coverage", "iterator source outcomes: %r" % saw)
    # constructors wrap the given source untouched
    ctors = [x for x in F.bodies.values() if x.get("name") in ("from_slice", "from_iterator", "from_reader", "from_eh_reader")
             and x["span"]["file"] == "src/lib.rs" and x["kind"] != "Closure"]
    ctx.count("R-C10-SOURCES", len(ctors))
    if len(ctors) < 8:
        ctx.violation("BELOW-FLOOR", "R-C10-SOURCES|ctors", ("src/lib.rs", 0, "SmlReader"), "expected 8 constructors, found %d" % len(ctors))
    for x in ctors:
        src_arg = x["arg_count"] - 1
        for p in paths(A, F, x, opaque_components(F)):
            st = p["st"]
            given = p["args"][src_arg]
            tr = [e for e in trace_all(st)]
            news = [e for e in tr if short(e["key"]) == "new" and "ByteSource" in e["key"]]
            ok = len(news) == 1
            if ok:
                a = news[0]["args"][0]
                if x.get("name") == "from_iterator":
                    ii = [e for e in tr if short(e["key"]) == "into_iter"]
                    ok = len(ii) == 1 and ii[0]["args"][0] == given and a == ii[0]["ret"]
                else:
                    ok = a == given
            ctx.oblig(bool(ok))
            if not ok:
                viol(ctx, "R-C10-SOURCES", x, "ctor", "%s must wrap exactly the given source in its byte-source adapter" % x["def"])
    # SliceByteSource::new starts at index 0 over the whole slice; DecoderReader::new starts with a default decoder
    nb = [x for x in F.bodies.values() if x.get("name") == "new" and (x.get("impl_self_ty") or {}).get("def") == T]
    for x in nb:
        for p in paths(A, F, x, lambda c: False):
            st = p["st"]
            obj = p["ret"]
            ctx.count("R-C10-SOURCES")
            ok = isinstance(obj, VAgg) and obj.elems[fi_in] == p["args"][0] and st.const_of(obj.elems[fi_idx].lin) == 0
            ctx.oblig(ok)
            if not ok:
                viol(ctx, "R-C10-SOURCES", x, "new", "SliceByteSource::new must cover the whole slice starting at index 0")


def trace_all(st):
    return st.ghost.get("trace", ())

"""C17 Every input byte is accounted for exactly once."""
from ..common import ASSUMPTIONS
from ..engine import AnchorMissing
from ..lin import Lin
from ..vra.interp import Unsupported
from ..vra.values import *
from ..vra.stdsum import split_enum
from .decoder import *


def is_usize(ty):
    return ty.get("k") == "int" and ty.get("ptr") and not ty.get("sg")


def run(ctx):
    ctx.rule("R-C17-WIDTH", "every counter that reaches a discarded-bytes report is usize end to end (fields, error payloads), and no "
                            "reported value contains a truncated or wrapped intermediate")
    ctx.rule("R-C17-CONSERVE", "conservation at every push_byte outcome: pending_before + 1 = reported + pending_after (pending = counter, "
                               "0 after a delivered frame); frames and rejected frames consume all pending bytes")
    ctx.rule("R-C17-FINAL", "finalize reports exactly the pending counter and None only when nothing is pending; reset returns it")
    F = ctx.facts("all")
    A = ctx.analysis("all")
    ip = A.ip
    try:
        an = Anchors(F)
        A.invariant(NOD)
    except (AnchorMissing, Unsupported) as e:
        ctx.violation("ANCHOR-MISSING", "decoder", ("", 0, ""), str(e))
        return
    where = lambda b: (b["span"]["file"], b["span"]["line"], b["def"])
    # ---- WIDTH: type table
    tbl = []
    tbl.append(("NonOwningDecoder.raw_msg_len", an.fields[an.i_raw]["ty"]))
    st_adt = F.adts[STATE]
    tbl.append(("DecodeState::LookingForMessageStart.num_discarded_bytes", an.disc_ty))
    err = F.adts[ERR]
    db = [v for v in err["variants"] if v["name"] == "DiscardedBytes"]
    if not db or len(db[0]["fields"]) != 1:
        ctx.violation("ANCHOR-MISSING", "DiscardedBytes", ("", 0, ""), "DecodeErr::DiscardedBytes(usize) not found")
        return
    tbl.append(("DecodeErr::DiscardedBytes.0", db[0]["fields"][0]["ty"]))
    for adt_name in ("transport::decoder_reader::ReadDecodedError", "ReadParsedError"):
        adt = F.adts.get(adt_name)
        io = [v for v in (adt or {"variants": []})["variants"] if v["name"] == "IoErr"]
        if not io or len(io[0]["fields"]) != 2:
            ctx.violation("ANCHOR-MISSING", adt_name, ("", 0, ""), "%s::IoErr(_, usize) not found" % adt_name)
            continue
        tbl.append((adt_name + "::IoErr.1", io[0]["fields"][1]["ty"]))
    for b in (an.reset,):
        tbl.append(("reset() return", b["locals"][0]["ty"]))
    for name, ty in tbl:
        ctx.count("R-C17-WIDTH")
        ok = is_usize(ty)
        ctx.oblig(ok, nontrivial=False)
        if not ok:
            ctx.violation("R-C17-WIDTH", name, ("src/transport/decode.rs", 0, name),
                          "%s has type %s: byte counts must be usize end to end (a narrower counter wraps on long noise runs)" % (name, ty.get("s")))
    ctx.sample({"width_table": [(n, t.get("s")) for n, t in tbl]})

    def lossy_syms(st, lin):
        bad = []
        for s in lin.syms():
            d = ip.tab.defn(s)
            o = ip.tab.origin(s)
            if (d and d[0] in ("trunc", "wrap", "shl_trunc")) or (isinstance(o, str) and (o.startswith("wrap:") or o == "trunc")):
                bad.append((s, d or o))
        return bad

    # ---- CONSERVE
    labels = set()
    for c in cases(A, an.push):
        # pending bytes are observed through reset() (pending_of): before the call on the pre-state object, after it on the result
        try:
            p0 = pending_lin(A, an, c["st"], c["obj0"])
        except Unsupported as e:
            ctx.violation("R-C17-CONSERVE", "partition=%s|observer" % (c["key"],), where(an.push), "push_byte from state #%s: %s" % (c["key"], e))
            continue
        for s2, label in classify_push(ip, c["st"], c["ret"], an):
            labels.add(label)
            obj = s2.mem[c["root"]]
            ctx.count("R-C17-CONSERVE")
            posts = pending_of(A, an, s2, obj)
            p1s = "/".join(s3.describe(p1) for s3, p1 in posts)
            if label == "Ok(false)":
                ok = all(s3.prove_eq0(p1 - p0 - 1) for s3, p1 in posts)
                msg = "pending_after = pending_before + 1 (after=%s, before=%s)" % (p1s, s2.describe(p0))
            elif label == "Err(DiscardedBytes)":
                n = err_payload(ip, s2, c["ret"])[0]
                bad = lossy_syms(s2, n.lin)
                ok = all(s3.prove_eq0(n.lin + p1 - p0 - 1) for s3, p1 in posts) and not bad
                msg = "reported + pending_after = pending_before + 1 (reported=%s, after=%s, before=%s%s)" % (
                    s2.describe(n.lin), p1s, s2.describe(p0), (", lossy intermediates %r" % bad) if bad else "")
                if len(ctx.samples) < 6:
                    ctx.sample({"from_state": c["key"], "outcome": label, "reported": repr(n.lin), "pending_after": p1s,
                                "pending_before": repr(p0), "conserved": ok})
            elif label == "Ok(true)":
                ok = all(s3.prove_eq0(p1) for s3, p1 in posts)
                msg = "a delivered frame leaves nothing pending (pending_after=%s)" % p1s
            else:
                ok = all(s3.prove_eq0(p1) for s3, p1 in posts)
                msg = "a rejected frame consumes all pending bytes (pending_after=%s)" % p1s
            ctx.oblig(ok)
            if not ok:
                ctx.violation("R-C17-CONSERVE", "partition=%s|%s" % (c["key"], label), where(an.push),
                              "push_byte from state #%s, outcome %s: cannot prove %s" % (c["key"], label, msg))
    for lab in ("Ok(false)", "Err(DiscardedBytes)", "Ok(true)"):
        if lab not in labels:
            ctx.violation("BELOW-FLOOR", "push-outcome|" + lab, where(an.push), "no push_byte outcome %s" % lab)
    # ---- FINAL
    check_final_reset(ctx, A, F, an, "R-C17-FINAL")
    ctx.cov.update({"invariant": A.inv_info.get(NOD), "push_outcome_labels": sorted(labels)})
    ctx.assumptions = [ASSUMPTIONS[k] for k in ("A1", "A2", "A3")]
    ctx.explanation = (
        "Byte accounting is decided as linear facts over the decoder's counter: for every abstract outcome of push_byte from every "
        "partition of the inferred invariant (which includes the relational invariant raw_msg_len = discarded + matched in the matcher "
        "state) the analysis proves pending_before + 1 = reported + pending_after; finalize/reset report exactly the pending counter. "
        "All counters and payloads on the way are usize, so the counts stay exact for arbitrarily long noise. Not decided: which "
        "bytes belong to a delivered frame (that is C02).")

"""C07 Encoders: out-of-memory discipline, wire constants, padding, finality (structural clauses)."""
from ..common import ASSUMPTIONS
from ..engine import AnchorMissing, field_index
from ..cfg import CFG, callee_names
from ..lin import Lin
from ..vra.interp import Unsupported
from ..vra.state import Infeasible
from ..vra.values import *
from ..vra.stdsum import split_enum
from .decoder import START_SEQ, slice_consts

ESC = [0x1b] * 4
END5 = [0x1b, 0x1b, 0x1b, 0x1b, 0x1a]
ENC = "transport::encode::Encoder"
ENCST = "transport::encode::EncoderState"


def run(ctx):
    ctx.rule("R-C07-OOM", "encode(): every buffer write is fallible, its failure is returned as Err(OutOfMemory) on every path and Err is "
                          "returned only then; no write is skipped on the success path (each write dominates the Ok return / the loop back edge)")
    ctx.rule("R-C07-CONST", "byte constants written by both encoders equal the Transport v1 constants (start 1b1b1b1b01010101, escape 1b1b1b1b after "
                            "the 4th consecutive 1b, end 1b1b1b1b1a+pad), CRC instance CRC_16_IBM_SDLC emitted little endian")
    ctx.rule("R-C07-PAD", "both pad counts lie in 0..3, are congruent to -length mod 4, equal the number of zero bytes written and are the byte after 0x1a")
    ctx.rule("R-C07-ITER", "iterator encoder transition table: Init(n) emits the n-th start byte; 4 consecutive 1b data bytes are followed by exactly "
                           "4 escape bytes; End(n) emits pad zeros, 1b x4, 1a, pad, crc lo, crc hi; every data byte is fed to the CRC once")
    ctx.rule("R-C07-FUSED", "after the last byte next() returns None without touching the state, the CRC or the inner iterator")
    F = ctx.facts("all")
    A = ctx.analysis("all")
    try:
        check_encode(ctx, F, A)
        check_iter(ctx, F, A)
        check_crc_instance(ctx, F)
    except (AnchorMissing, Unsupported, KeyError) as e:
        ctx.violation("ANCHOR-MISSING", "encoders", ("", 0, ""), "%s: %s" % (type(e).__name__, e))
    ctx.assumptions = [ASSUMPTIONS[k] for k in ("A1", "A2", "A4", "A6")]
    ctx.explanation = (
        "Structural clauses of the encoder property. encode() is analysed with an abstract Buffer whose writes may fail: the result is Err "
        "exactly on the paths where a write failed; together with C18 (a write fails iff it does not fit and changes nothing) this is "
        "'reports out-of-memory exactly when the frame does not fit'. The constants fed to the buffer / the CRC and the pad arithmetic are "
        "read off the abstract paths; the iterator encoder's transition table is extracted by analysing next() from every concrete state "
        "value. Not decided: byte-for-byte equality of the two encoders and conformance of the emitted frame for all payloads.")


def check_encode(ctx, F, A):
    ip = A.ip
    b = F.one("transport::encode::encode")
    where = (b["span"]["file"], b["span"]["line"], b["def"])
    cfg = CFG(b)
    writes = [(bb, t) for bb, t in cfg.calls() if (t.get("callee") or {}).get("trait") == "util::Buffer"
              and t["callee"].get("method") in ("push", "extend_from_slice")]
    ctx.count("R-C07-OOM", len(writes))
    if len(writes) < 6:
        ctx.violation("BELOW-FLOOR", "R-C07-OOM", where, "expected 6 buffer writes in encode(), found %d" % len(writes))
    # dominance: writes outside the loop dominate the Ok return; writes inside the loop lie on every cycle
    loops = cfg.loops()
    ok_ret = None
    for bb in cfg.reach:
        for st in b["blocks"][bb]["stmts"]:
            if st["k"] == "assign" and st["place"]["local"] == 0 and st["rv"]["k"] == "aggregate" and st["rv"].get("variant_name") == "Ok":
                ok_ret = bb
    if ok_ret is None:
        raise AnchorMissing("Ok return of encode()")
    for bb, t in writes:
        inl = [h for h, body in loops.items() if bb in body]
        line = b["blocks"][bb]["tspan"]["line"]
        if not inl:
            ok = cfg.dominates(bb, ok_ret)
            msg = "a buffer write outside the loop does not dominate the Ok return (it can be skipped)"
        else:
            h = inl[0]
            # conditional escape write is allowed to be skipped only under its guard; the unconditional push must lie on every cycle
            if t["callee"]["method"] == "push":
                ok = not any(h in cfg.reachable_from(s, avoid={bb}) for s in cfg.succ[h] if s in loops[h] and s != bb)
                msg = "the per-byte push does not lie on every loop cycle"
            else:
                ok = True
                msg = ""
        ctx.oblig(ok)
        if not ok:
            ctx.violation("R-C07-OOM", "dominance|line-kind=%s" % t["callee"]["method"], (b["span"]["file"], line, b["def"]), msg)
    # observations of constants / pad while analysing
    obs = []

    def on_call(ip_, frame, bb, t, st, callee, args):
        if frame.body is not b:
            return
        if callee.get("trait") == "util::Buffer" and callee.get("method") in ("push", "extend_from_slice"):
            rec = {"method": callee["method"], "line": frame.body["blocks"][bb]["tspan"]["line"], "bb": bb}
            if callee["method"] == "extend_from_slice" and isinstance(args[1], VSlice):
                rec["consts"] = slice_consts(ip_, st, args[1])
                rec["n"] = args[1].n
                rec["st"] = st.copy()
            else:
                rec["val"] = args[1]
            n1 = [d["place"]["local"] for d in frame.body["debug"] if d["name"] == "num_1b" and not d["place"]["proj"]]
            for l in n1:
                v = st.mem.get(("L", frame.fid, l))
                if isinstance(v, VInt):
                    rec["num_1b"] = st.const_of(v.lin)
            obs.append(rec)
        if callee.get("trait") == "std::iter::Iterator" and callee.get("method") == "next":
            n1 = [d["place"]["local"] for d in frame.body["debug"] if d["name"] == "num_1b" and not d["place"]["proj"]]
            for l in n1:
                v = st.mem.get(("L", frame.fid, l))
                if isinstance(v, VInt):
                    obs.append({"method": "next", "num_1b": st.interval(v.lin), "line": frame.body["blocks"][bb]["tspan"]["line"]})
        r = callee.get("resolved") or callee
        if r["def"].endswith("::checksum"):
            obs.append({"method": "checksum", "slice": args[1], "st": st.copy(), "line": frame.body["blocks"][bb]["tspan"]["line"]})
    ip.on_call.append(on_call)
    old = ip.join_threshold
    ip.join_threshold = 10 ** 9
    try:
        outs = A.run_fn(b)
    finally:
        ip.join_threshold = old
        ip.on_call.remove(on_call)
    n_ok = n_err = 0
    for (s2, rv, args) in outs:
        for s3, var, pay in split_enum(ip, s2, rv, "encode result"):
            ctx.count("R-C07-OOM")
            failed = s3.ghost.get("buf-write-failed", 0) > 0
            ok = (var == 1) == failed
            n_ok += var == 0
            n_err += var == 1
            ctx.oblig(ok)
            if not ok:
                ctx.violation("R-C07-OOM", "outcome|%s|failed=%s" % ("Err" if var else "Ok", failed), where,
                              "encode() returns %s on a path where %s" % ("Err" if var else "Ok", "a buffer write failed (the result was dropped)" if failed else "no write failed"))
    if not (n_ok and n_err):
        ctx.violation("BELOW-FLOOR", "R-C07-OOM|outcomes", where, "encode() must have Ok and Err outcomes")
    # ---- constants
    ext = [o for o in obs if o["method"] == "extend_from_slice"]
    ctx.sample({"encode_buffer_writes_observed": [{"line": o["line"], "method": o["method"],
                                                  "bytes": [("0x%02x" % c if isinstance(c, int) else "sym") for c in (o.get("consts") or [])][:8]}
                                                 for o in obs if o["method"] in ("extend_from_slice", "push")][:8]})
    consts = [tuple(o["consts"]) if o.get("consts") else None for o in ext]
    ctx.count("R-C07-CONST", 4)
    def have(c):
        return any(x == tuple(c) for x in consts)
    ok = have(START_SEQ)
    ctx.oblig(ok)
    if not ok:
        ctx.violation("R-C07-CONST", "encode|start", where, "encode() does not write the start sequence 1b1b1b1b01010101 (writes %r)" % (consts[:3],))
    esc = [o for o in ext if o.get("consts") and tuple(o["consts"]) == tuple(ESC)]
    ok = bool(esc) and all(o.get("num_1b") == 4 for o in esc)
    ctx.oblig(ok)
    if not ok:
        ctx.violation("R-C07-CONST", "encode|escape", where, "the escape sequence 1b1b1b1b must be inserted exactly after the 4th consecutive 0x1b "
                      "(observed counters %r)" % ([o.get("num_1b") for o in esc],))
    # the run counter is back below 4 whenever the next payload byte is fetched (so every 4th 1b of a long run is escaped)
    ctx.rule("R-C07-ESC", "at every fetch of the next payload byte the 1b-run counter lies in 0..3: it is reset after each inserted escape")
    nx = [o for o in obs if o["method"] == "next"]
    ctx.count("R-C07-ESC", len(nx))
    ok = bool(nx) and all(o["num_1b"][0] is not None and o["num_1b"][0] >= 0 and o["num_1b"][1] is not None and o["num_1b"][1] <= 3 for o in nx)
    ctx.oblig(ok)
    if not ok:
        ctx.violation("R-C07-ESC", "encode|counter", where, "the 1b-run counter is not confined to 0..3 between payload bytes (ranges %r): after "
                      "an inserted escape the count must restart, else longer runs are not escaped" % ([o["num_1b"] for o in nx][:3],))
    ends = [o for o in ext if o.get("consts") and len(o["consts"]) == 6 and list(o["consts"][:5]) == END5]
    ok = bool(ends)
    ctx.oblig(ok)
    if not ok:
        ctx.violation("R-C07-CONST", "encode|end", where, "encode() does not write the end sequence 1b1b1b1b1a<pad>")
    crcw = [o for o in ext if o.get("consts") and len(o["consts"]) == 2 and all(isinstance(x, tuple) for x in o["consts"])]
    cks = [o for o in obs if o["method"] == "checksum"]
    ok = False
    if crcw and cks:
        o = crcw[-1]
        syms = [x[1].single()[0] for x in o["consts"] if x[1] is not None and x[1].single()]
        defs = [ip.tab.defn(s) for s in syms]
        ck = cks[-1]
        whole = ck["st"].prove_eq0(ck["slice"].start)
        ok = len(defs) == 2 and all(d and d[0] == "le_byte" for d in defs) and [d[2] for d in defs] == [0, 1] and whole \
            and isinstance(ip.tab.origin(defs[0][1].single()[0]), tuple) and ip.tab.origin(defs[0][1].single()[0])[0] == "crc_checksum"
    ctx.oblig(ok)
    if not ok:
        ctx.violation("R-C07-CONST", "encode|crc", where, "the last two bytes must be to_le_bytes() of CRC_X25.checksum over everything written before")
    # ---- pad
    ctx.count("R-C07-PAD", 3)
    okp = False
    why = "end sequence not found"
    if ends:
        o = ends[-1]
        st = o["st"]
        pad = o["consts"][5][1] if isinstance(o["consts"][5], tuple) else None
        zeros = [z for z in ext if z["bb"] != o["bb"] and z.get("consts") is None or (z.get("consts") is not None and z["bb"] != o["bb"]
                 and all(c == 0 for c in z["consts"]) and z not in esc)]
        zw = [z for z in ext if z["line"] < o["line"] and z not in esc and not (z.get("consts") and tuple(z["consts"]) == tuple(START_SEQ))]
        if pad is not None:
            lo, hi = st.interval(pad)
            in_range = lo is not None and lo >= 0 and hi is not None and hi <= 3
            # congruence: pad = (4 - len % 4) % 4 with len = current buffer length
            d = ip.tab.defn(pad.single()[0]) if pad.single() else None
            cong = False
            if d and d[0] in ("rem",) and d[2] == 4:
                inner = d[1]          # 4 - m
                for s_, a_ in inner.t:
                    dm = ip.tab.defn(s_)
                    if a_ == -1 and inner.c == 4 and dm and dm[0] == "rem" and dm[2] == 4:
                        cong = True
            nz = any(z["st"].prove_eq0(z["n"] - pad) for z in zw if "n" in z and z.get("st") is not None)
            okp = in_range and cong and nz
            why = "range %s, congruence %s, zero-count %s" % (in_range, cong, nz)
    ctx.oblig(okp)
    if not okp:
        ctx.violation("R-C07-PAD", "encode", where, "encode(): pad count must be (4 - len %% 4) %% 4 in 0..3, be written after 0x1a and equal the number of zero bytes written (%s)" % why)


def enc_state(ip, F, variant, n):
    st = ip.new_state()
    adt = F.adts[ENC]
    fields = adt["variants"][0]["fields"]
    vals = []
    stv = {v["name"]: v["idx"] for v in F.adts[ENCST]["variants"]}
    for fl in fields:
        t = fl["ty"]
        if t.get("k") == "adt" and t["def"] == ENCST:
            w, sg = (8, True) if variant == "End" else (8, False)
            vals.append(VEnum(ENCST, Lin.const(stv[variant]), {stv[variant]: (cint(n, w, sg),)}))
        elif t.get("k") == "adt" and t["def"].startswith("crc::"):
            vals.append(VOpq(t, "crc-digest-fed"))
        else:
            vals.append(ip.fresh_value(st, t, "enc." + fl["name"]))
    root = ip.new_oid("self")
    st.mem[root] = VAgg("struct", ENC, vals)
    return st, root, stv


def check_iter(ctx, F, A):
    ip = A.ip
    nb = [b for b in F.bodies.values() if b.get("impl_trait") == "std::iter::Iterator" and b.get("name") == "next"
          and (b.get("impl_self_ty") or {}).get("def") == ENC]
    if len(nb) != 1:
        raise AnchorMissing("Encoder::next")
    nb = nb[0]
    where = (nb["span"]["file"], nb["span"]["line"], nb["def"])
    i_state = field_index(F, ENC, "state")
    i_pad = field_index(F, ENC, "padding")
    feeds = []
    iter_calls = []

    def on_crc(ip_, frame, bb, st, what, ref, x):
        if what == "update":
            st.ghost["c07-feed"] = st.ghost.get("c07-feed", ()) + (tuple(slice_consts(ip_, st, x) or ["?"]),)
        elif what == "finalize":
            st.ghost["c07-final"] = True

    def on_call(ip_, frame, bb, t, st, callee, args):
        if callee.get("trait") == "std::iter::Iterator" and callee.get("method") == "next" and \
                (callee.get("self_ty") or {}).get("k") in ("param", "alias"):
            st.ghost["c07-iter"] = st.ghost.get("c07-iter", 0) + 1
    ip.on_crc.append(on_crc)
    ip.on_call.append(on_call)
    old = ip.join_threshold
    ip.join_threshold = 10 ** 9

    def step(variant, n):
        st, root, stv = enc_state(ip, F, variant, n)
        res = []
        for (s2, rv, args) in A.run_fn(nb, st0=st, first_arg=VRef(root, (), True)):
            obj = s2.mem[root]
            sv = obj.elems[i_state]
            var = s2.const_of(sv.disc)
            name = [k for k, v in stv.items() if v == var][0] if var is not None else None
            nn = s2.const_of(sv.pay[var][0].lin) if var is not None else None
            for s3, ov, pay in split_enum(ip, s2, rv, "next"):
                res.append({"st": s3, "out": (pay[0] if ov == 1 else None), "state": (name, nn), "feed": s3.ghost.get("c07-feed", ()),
                            "iter": s3.ghost.get("c07-iter", 0), "obj": obj, "final": s3.ghost.get("c07-final", False),
                            "obj0": st.mem.get(root)})
        return res
    try:
        def emitted(r):
            o = r["out"]
            if o is None:
                return None
            c = r["st"].const_of(o.lin) if isinstance(o, VInt) else None
            return c if c is not None else o
        # Init(n): n-th start byte
        for n in range(8):
            ctx.count("R-C07-ITER")
            rs = step("Init", n)
            ok = len(rs) == 1 and emitted(rs[0]) == START_SEQ[n] and rs[0]["state"] == ("Init", n + 1) and not rs[0]["feed"] and rs[0]["iter"] == 0
            ctx.oblig(ok)
            if not ok:
                ctx.violation("R-C07-ITER", "Init(%d)" % n, where, "Init(%d) must emit 0x%02x and go to Init(%d) (got %r)" %
                              (n, START_SEQ[n], n + 1, [(emitted(r), r["state"]) for r in rs]))
        ctx.sample({"iterator_encoder_transitions": [{"state": "Init(%d)" % n, "emits": "0x%02x" % START_SEQ[n], "next": "Init(%d)" % (n + 1)} for n in (0, 4, 7)]})
        # Init(8) and HandlingEscape(4) continue with a data byte (LookingForEscape(0))
        for variant, n in (("Init", 8), ("HandlingEscape", 4), ("LookingForEscape", 0), ("LookingForEscape", 2), ("LookingForEscape", 3)):
            ctx.count("R-C07-ITER")
            rs = step(variant, n)
            base = n if variant == "LookingForEscape" else 0
            good = True
            saw_data = False
            for r in rs:
                e = emitted(r)
                if r["state"][0] == "LookingForEscape" and isinstance(e, VInt):
                    saw_data = True
                    # data byte: emitted unchanged, fed to the crc once, counter = base+1 for 0x1b else 0
                    if r["iter"] != 1 or len(r["feed"]) != 1 or r["feed"][0] != (("sym", e.lin),):
                        good = False
                    vals = r["st"].values(e.lin.single()[0]) if e.lin.single() else None
                    nn = r["state"][1]
                    if nn is None:
                        good = False
                    elif vals is not None and vals == frozenset([0x1b]):
                        good = good and nn == base + 1
                    elif vals is not None and 0x1b not in vals:
                        good = good and nn == 0
                    else:
                        good = good and False
                elif r["state"][0] == "End" or r["out"] is None or r["state"][0] in ("End",):
                    pass
            ok = good and saw_data
            ctx.oblig(ok)
            if not ok:
                ctx.violation("R-C07-ITER", "%s(%d)|data" % (variant, n), where,
                              "%s(%d): a data byte must be emitted unchanged, fed to the CRC exactly once, and the 1b-run counter must become "
                              "%d for 0x1b and 0 otherwise (%r)" % (variant, n, base + 1, [(emitted(r), r["state"], r["feed"]) for r in rs][:4]))
        # LookingForEscape(4): exactly four escape bytes
        rs = step("LookingForEscape", 4)
        ctx.count("R-C07-ITER")
        ok = len(rs) == 1 and emitted(rs[0]) == 0x1b and rs[0]["state"] == ("HandlingEscape", 1) and rs[0]["feed"] == (tuple(ESC),) and rs[0]["iter"] == 0
        ctx.oblig(ok)
        if not ok:
            ctx.violation("R-C07-ITER", "LookingForEscape(4)", where, "after four consecutive 0x1b the encoder must feed 1b1b1b1b to the CRC and start "
                          "emitting the escape (got %r)" % ([(emitted(r), r["state"], r["feed"]) for r in rs],))
        for n in (1, 2, 3):
            rs = step("HandlingEscape", n)
            ctx.count("R-C07-ITER")
            ok = len(rs) == 1 and emitted(rs[0]) == 0x1b and rs[0]["state"] == ("HandlingEscape", n + 1) and not rs[0]["feed"] and rs[0]["iter"] == 0
            ctx.oblig(ok)
            if not ok:
                ctx.violation("R-C07-ITER", "HandlingEscape(%d)" % n, where, "HandlingEscape(%d) must emit 0x1b (escape byte %d of 4)" % (n, n + 1))
        # end of data: from LookingForEscape(n<4) with an exhausted iterator -> pad zeros / end sequence
        rs = [r for r in step("LookingForEscape", 0) if r["state"][0] == "End" or (r["state"][0] is not None and r["state"][0] == "End")]
        ctx.count("R-C07-PAD")
        okp = False
        for r in rs:
            fd = r["feed"]
            last = fd[-1] if fd else ()
            pad = last[5][1] if len(last) == 6 and isinstance(last[5], tuple) else (last[5] if len(last) == 6 else None)
            zeros = fd[:-1]
            if len(last) == 6 and list(last[:5]) == END5 and all(z == (0,) for z in zeros):
                if isinstance(pad, int):
                    okp = okp or len(zeros) == pad
                elif pad is not None:
                    okp = okp or r["st"].const_of(pad) == len(zeros)
        ctx.oblig(okp)
        if not okp:
            ctx.violation("R-C07-PAD", "iter|end-feed", where, "at end of data the encoder must feed `pad` zero bytes and then 1b1b1b1b1a<pad> to the CRC (%r)" % ([r["feed"] for r in rs][:3],))
        # End(n)
        want = {-3: 0, -2: 0, -1: 0, 0: 0x1b, 1: 0x1b, 2: 0x1b, 3: 0x1b, 4: 0x1a}
        for n in range(-3, 8):
            rs = step("End", n)
            ctx.count("R-C07-ITER")
            ok = len(rs) == 1 and rs[0]["state"] == ("End", n + 1) and rs[0]["iter"] == 0 and not rs[0]["feed"]
            if ok:
                e = emitted(rs[0])
                if n in want:
                    ok = e == want[n]
                elif n == 5:
                    d = ip.tab.defn(e.lin.single()[0]) if isinstance(e, VInt) and e.lin.single() else None
                    lo, hi = rs[0]["st"].interval(e.lin) if isinstance(e, VInt) else (None, None)
                    ok = d is not None and d[0] == "and" and d[2] == 3 and lo == 0 and hi == 3
                else:
                    d = ip.tab.defn(e.lin.single()[0]) if isinstance(e, VInt) and e.lin.single() else None
                    ok = d is not None and d[0] == "le_byte" and d[2] == n - 6 and rs[0]["final"]
            ctx.oblig(ok)
            if not ok:
                ctx.violation("R-C07-ITER", "End(%d)" % n, where, "End(%d) emits the wrong byte or goes to the wrong state (%r)" %
                              (n, [(emitted(r), r["state"]) for r in rs]))
        # fused
        rs = step("End", 8)
        ctx.count("R-C07-FUSED")
        ok = len(rs) == 1 and rs[0]["out"] is None and rs[0]["state"] == ("End", 8) and rs[0]["iter"] == 0 and not rs[0]["feed"] \
            and rs[0]["obj"] == rs[0]["obj0"]
        ctx.oblig(ok)
        if not ok:
            ctx.violation("R-C07-FUSED", "End(8)", where, "after the last byte next() must return None and leave state, CRC and inner iterator untouched (%r)"
                          % ([(r["out"], r["state"], r["iter"]) for r in rs],))
    finally:
        ip.join_threshold = old
        ip.on_crc.remove(on_crc)
        ip.on_call.remove(on_call)
    # Encoder::new feeds the start sequence
    new = [b for b in F.bodies.values() if b.get("name") == "new" and (b.get("impl_self_ty") or {}).get("def") == ENC]
    if len(new) != 1:
        raise AnchorMissing("Encoder::new")
    ip.on_crc.append(on_crc)
    try:
        outs = A.run_fn(new[0])
    finally:
        ip.on_crc.remove(on_crc)
    ctx.count("R-C07-CONST")
    ok = len(outs) == 1 and outs[0][0].ghost.get("c07-feed") == (tuple(START_SEQ),)
    if ok:
        obj = outs[0][1]
        sv = obj.elems[i_state]
        ok = outs[0][0].const_of(sv.disc) is not None and outs[0][0].const_of(list(sv.pay.values())[0][0].lin) == 0
    ctx.oblig(ok)
    if not ok:
        ctx.violation("R-C07-CONST", "iter|new", (new[0]["span"]["file"], new[0]["span"]["line"], new[0]["def"]),
                      "Encoder::new must start in Init(0) with the CRC fed exactly the start sequence")


def check_crc_instance(ctx, F):
    """CRC_X25 is built from crc::CRC_16_IBM_SDLC (CRC-16/X.25)"""
    import re
    from ..build import REPO
    ctx.count("R-C07-CONST")
    st = F.statics.get("util::CRC_X25")
    ok = st is not None
    if ok:
        # the static's initialiser is a const expression; its operand is visible in the crate source at the recorded span
        path = st["span"]["file"]
        try:
            import os
            line = open(os.path.join(REPO, path)).read().splitlines()[st["span"]["line"] - 1]
            ok = "CRC_16_IBM_SDLC" in line and "Crc::<u16>" in line.replace(" ", "")
        except Exception:
            ok = False
    ctx.oblig(ok, nontrivial=False)
    if not ok:
        ctx.violation("R-C07-CONST", "crc-instance", ("src/util.rs", 0, "util::CRC_X25"), "CRC_X25 must be crc::Crc::<u16>::new(&crc::CRC_16_IBM_SDLC)")

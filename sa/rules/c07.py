"""C07 Encoders: out-of-memory discipline, wire constants, padding, finality (structural clauses)."""
from ..common import ASSUMPTIONS
from ..engine import AnchorMissing, field_index
from ..cfg import CFG, callee_names
from ..lin import Lin
from ..vra.interp import Unsupported
from ..vra.state import Infeasible
from ..vra.values import *
from ..vra.stdsum import split_enum
from .decoder import START_SEQ, slice_consts

ESC = [0x1b] * 4
END5 = [0x1b, 0x1b, 0x1b, 0x1b, 0x1a]
ENC = "transport::encode::Encoder"
ENCST = "transport::encode::EncoderState"


def le_byte_def(ip, d):
    """normal form ('le_byte', x, j) of the definition of a byte of a 16-bit value x: to_le_bytes()[j], or written with shifts and
    casts (`x as u8`, `(x >> 8) as u8`, `x & 0xff`); None for anything else"""
    if not d:
        return None
    if d[0] == "le_byte":
        return d
    if d[0] == "trunc" and len(d) >= 3 and d[2] == 16:
        x = d[1]
        sg = x.single()
        d2 = ip.tab.defn(sg[0]) if sg and sg[1] == 1 and x.c == 0 else None
        if d2 and d2[0] == "shr" and d2[2] == 8:
            return ("le_byte", d2[1], 1)
        return ("le_byte", x, 0)
    if d[0] == "and" and d[2] == 0xff:
        return ("le_byte", d[1], 0)
    if d[0] == "shr" and d[2] == 8:
        return ("le_byte", d[1], 1)
    return None


def run(ctx):
    ctx.rule("R-C07-OOM", "encode(): every buffer write is fallible, its failure is returned as Err(OutOfMemory) on every path and Err is "
                          "returned only then; no write is skipped on the success path (each write dominates the Ok return / the loop back edge)")
    ctx.rule("R-C07-CONST", "byte constants written by both encoders equal the Transport v1 constants (start 1b1b1b1b01010101, escape 1b1b1b1b after "
                            "the 4th consecutive 1b, end 1b1b1b1b1a+pad), CRC instance CRC_16_IBM_SDLC emitted little endian")
    ctx.rule("R-C07-PAD", "both pad counts lie in 0..3, are congruent to -length mod 4, equal the number of zero bytes written and are the byte after 0x1a")
    ctx.rule("R-C07-ITER", "iterator encoder transition table: Init(n) emits the n-th start byte; 4 consecutive 1b data bytes are followed by exactly "
                           "4 escape bytes; End(n) emits pad zeros, 1b x4, 1a, pad, crc lo, crc hi; every data byte is fed to the CRC once")
    ctx.rule("R-C07-FUSED", "after the last byte next() returns None without touching the state, the CRC or the inner iterator")
    F = ctx.facts("all")
    A = ctx.analysis("all")
    try:
        check_encode(ctx, F, A)
        check_iter(ctx, F, A)
        check_crc_instance(ctx, F)
    except (AnchorMissing, Unsupported, KeyError) as e:
        ctx.violation("ANCHOR-MISSING", "encoders", ("", 0, ""), "%s: %s" % (type(e).__name__, e))
    ctx.assumptions = [ASSUMPTIONS[k] for k in ("A1", "A2", "A4", "A6")]
    ctx.explanation = (
        "Structural clauses of the encoder property. encode() is analysed with an abstract Buffer whose writes may fail: the result is Err "
        "exactly on the paths where a write failed; together with C18 (a write fails iff it does not fit and changes nothing) this is "
        "'reports out-of-memory exactly when the frame does not fit'. The constants fed to the buffer / the CRC and the pad arithmetic are "
        "read off the abstract paths; the iterator encoder's transition table is extracted by analysing next() from every concrete state "
        "value. Not decided: byte-for-byte equality of the two encoders and conformance of the emitted frame for all payloads.")


def _buffer_writers(F, root):
    """functions reachable from `root` (crate-local call graph) that write to a util::Buffer, directly or through a callee"""
    direct = {}
    calls = {}
    for b in F.bodies.values():
        cfg = CFG(b)
        w = []
        cs = []
        for bb, t in cfg.calls():
            c = t.get("callee") or {}
            if c.get("trait") == "util::Buffer" and c.get("method") in ("push", "extend_from_slice"):
                w.append((bb, t))
            r = (c.get("resolved") or c).get("def")
            if r in F.bodies:
                cs.append((bb, t, r))
        direct[b["def"]] = w
        calls[b["def"]] = cs
    writers = {d for d, w in direct.items() if w}
    changed = True
    while changed:
        changed = False
        for d, cs in calls.items():
            if d not in writers and any(r in writers for _bb, _t, r in cs):
                writers.add(d)
                changed = True
    reach = set()
    todo = [root]
    while todo:
        d = todo.pop()
        if d in reach:
            continue
        reach.add(d)
        todo.extend(r for _bb, _t, r in calls.get(d, ()) if r in writers)
    return {d: (direct[d], [(bb, t, r) for bb, t, r in calls[d] if r in writers]) for d in reach if d in writers or d == root}


def check_encode(ctx, F, A):
    from ..vra.cong import congruent0
    ip = A.ip
    b = F.one("transport::encode::encode")
    where = (b["span"]["file"], b["span"]["line"], b["def"])
    # ---- no write can be skipped on a success path: in encode() and every helper it writes through, a write (or a call of a
    # writing helper) outside loops dominates every Ok return of that function; inside a loop a push lies on every cycle
    wr = _buffer_writers(F, b["def"])
    n_writes = sum(len(w) for w, _c in wr.values())
    ctx.count("R-C07-OOM", n_writes)
    if n_writes < 6:
        ctx.violation("BELOW-FLOOR", "R-C07-OOM", where, "expected 6 buffer writes in encode() and its helpers, found %d" % n_writes)
    for d, (w, cs) in sorted(wr.items()):
        fb = F.bodies[d]
        cfg = CFG(fb)
        loops = cfg.loops()
        ok_rets = []
        for bb in cfg.reach:
            for st_ in fb["blocks"][bb]["stmts"]:
                if st_["k"] == "assign" and st_["place"]["local"] == 0 and not st_["place"]["proj"] and st_["rv"]["k"] == "aggregate" \
                        and st_["rv"].get("variant_name") == "Ok":
                    ok_rets.append(bb)
        rets = [bb for bb in cfg.reach if fb["blocks"][bb]["term"]["k"] == "return"]
        for bb, t in w + [(bb, t) for bb, t, _r in cs]:
            inl = [h for h, body in loops.items() if bb in body]
            line = fb["blocks"][bb]["tspan"]["line"]
            meth = (t.get("callee") or {}).get("method") or "call"
            if not inl:
                # the write's own result may itself be the function result (tail expression): then it trivially is not skipped
                targets = ok_rets if ok_rets else []
                ok = all(cfg.dominates(bb, r) for r in targets)
                msg = "a buffer write outside the loop does not dominate the Ok return (it can be skipped)"
            elif meth == "push":
                h = inl[0]
                ok = not any(h in cfg.reachable_from(s_, avoid={bb}) for s_ in cfg.succ[h] if s_ in loops[h] and s_ != bb)
                msg = "the per-byte push does not lie on every loop cycle"
            else:
                ok, msg = True, ""
            ctx.oblig(ok)
            if not ok:
                ctx.violation("R-C07-OOM", "dominance|%s|kind=%s" % (d, meth), (fb["span"]["file"], line, d), msg)
    # ---- ghost-instrumented abstract run of encode() (helpers are analysed inline beneath it)
    G_RUN, G_BAL, G_PEND = ("G", "c07-run"), ("G", "c07-bal"), ("G", "c07-pend")
    obs = []

    def geti(st, key):
        v = st.mem.get(key)
        return v.lin if isinstance(v, VInt) else None

    def resolve(st):
        """account the last pushed byte in the run counter once the path determines whether it is 0x1b"""
        pend = geti(st, G_PEND)
        if pend is None or st.const_of(pend) == -1:
            return True
        sg = pend.single()
        vals = st.values(sg[0]) if sg and sg[1] == 1 and pend.c == 0 else (frozenset([pend.c]) if pend.is_const() else None)
        run = geti(st, G_RUN)
        if vals is not None and vals == frozenset([0x1b]):
            st.mem[G_RUN] = VInt(run + 1, 64, False)
        elif vals is not None and 0x1b not in vals and -1 not in vals:
            st.mem[G_RUN] = cint(0, 64, False)
        else:
            return False
        st.mem[G_PEND] = cint(-1, 64, True)
        return True

    def force(st):
        if not resolve(st):
            st.mem[G_PEND] = cint(-1, 64, True)
            st.ghost["c07-unresolved"] = 1
            st.mem[G_RUN] = VInt(Lin.sym(st.fresh(0, None, "c07 unresolved run")), 64, False)

    def on_block(ip_, frame, bb, st):
        if G_RUN in st.mem:
            resolve(st)

    def buf_len(st, ref):
        if isinstance(ref, VRef):
            v = st.ghost.get(("deref", ref.root, ref.steps))
            if isinstance(v, VSlice):
                return v
        return None

    def on_call(ip_, frame, bb, t, st, callee, args):
        if G_RUN not in st.mem:
            return
        line = frame.body["blocks"][bb]["tspan"]["line"]
        if callee.get("trait") == "util::Buffer" and callee.get("method") in ("push", "extend_from_slice"):
            rec = {"method": callee["method"], "line": line, "fn": frame.body["def"]}
            if callee["method"] == "extend_from_slice" and isinstance(args[1], VSlice):
                force(st)
                rec["consts"] = tuple(slice_consts(ip_, st, args[1]) or ())
                rec["n"] = args[1].n
                rec["run"] = st.const_of(geti(st, G_RUN))
                if rec["run"] is None and rec["consts"] == tuple(ESC) and __import__("os").environ.get("C07DBG"):
                    print("DBG run", line, bb, [(d["name"], d["place"]["local"]) for d in frame.body["debug"]], geti(st, G_RUN), st.describe(geti(st, G_RUN)), [repr(f) for f in st.facts][:20], {k: v for k, v in st.mem.items() if isinstance(v, VInt)})
                cur = buf_len(st, args[0])
                rec["len"] = cur.n if cur is not None else None
                rec["cur"] = (cur.root, cur.steps, cur.start, cur.n) if cur is not None else None
                st.mem[G_RUN] = cint(0, 64, False)
                if "c07-first" not in st.ghost:
                    st.ghost["c07-first"] = rec["consts"]
                key = tuple((k, rec[k]) for k in ("consts", "n", "len", "cur", "line"))
                st.ghost["c07-tail"] = (st.ghost.get("c07-tail", ()) + (key,))[-3:]
                obs.append(dict(rec, st=st.copy()))
            else:
                force(st)
                v = args[1]
                if isinstance(v, VInt):
                    st.mem[G_PEND] = VInt(v.lin, 64, True)
                    last = st.ghost.get("c07-last")
                    bal = geti(st, G_BAL)
                    if last is not None and st.prove_eq0(last - v.lin):
                        st.mem[G_BAL] = VInt(bal - 1, 64, True)
                    else:
                        st.ghost["c07-foreign-push"] = 1
                if "c07-first" not in st.ghost:
                    st.ghost["c07-first"] = ("push",)
                st.ghost.pop("c07-tail", None)
                obs.append(rec)
        if callee.get("trait") == "std::iter::Iterator" and callee.get("method") == "next":
            force(st)
            obs.append({"method": "next", "run": st.interval(geti(st, G_RUN)), "bal": st.interval(geti(st, G_BAL)), "line": line,
                        "unresolved": st.ghost.get("c07-unresolved", False)})
        r = callee.get("resolved") or callee
        crc_arg = args[1] if r["def"].endswith("::checksum") and len(args) > 1 and isinstance(args[1], VSlice) else None
        if r["def"].endswith("::finalize") and args:
            # digest() + one update(x) + finalize() is checksum(x)
            o_ = args[0]
            if isinstance(o_, VRef):
                o_ = ip_.read_raw(st, o_.root, o_.steps)
            ent = getattr(ip_, "crc_once", {}).get(id(o_))
            if ent is not None and ent[0] is o_:
                crc_arg = ent[1]
        if crc_arg is not None:
            args = [args[0], crc_arg]
            cur = None
            for k, v in st.ghost.items():
                if isinstance(k, tuple) and k and k[0] == "deref" and isinstance(v, VSlice) and v.root == args[1].root:
                    cur = v
            whole = cur is not None and st.prove_eq0(args[1].start - cur.start) and st.prove_eq0(args[1].n - cur.n)
            st.ghost["c07-cks"] = (args[1].root, args[1].steps, args[1].start, args[1].n, whole)
            obs.append({"method": "checksum", "whole": whole, "line": line})

    def on_call_result(ip_, frame, bb, t, callee, args, outs):
        if callee.get("trait") == "std::iter::Iterator" and callee.get("method") == "next":
            for s2, val in outs:
                if G_RUN not in s2.mem or not isinstance(val, VEnum):
                    continue
                # Option discriminant: 1 = Some
                s2.mem[G_BAL] = VInt(geti(s2, G_BAL) + val.disc, 64, True)
                it = val.pay.get(1, (None,))[0]
                if isinstance(it, VInt):
                    s2.ghost["c07-last"] = it.lin
        if callee.get("trait") == "std::borrow::Borrow" and callee.get("method") == "borrow":
            for s2, val in outs:
                if G_RUN in s2.mem and isinstance(val, VRef):
                    v = ip_.read_raw(s2, val.root, val.steps)
                    if isinstance(v, VInt):
                        s2.ghost["c07-last"] = v.lin

    def on_assign(ip_, frame, bb, stmt, st, val):
        # the fetched item may be a Borrow<u8>: remember the byte it yields
        pass

    ip.on_call.append(on_call)
    ip.on_call_result.append(on_call_result)
    ip.on_block.append(on_block)
    old = ip.join_threshold
    ip.join_threshold = 10 ** 9
    st0 = ip.new_state()
    st0.mem[G_RUN] = cint(0, 64, False)
    st0.mem[G_BAL] = cint(0, 64, True)
    st0.mem[G_PEND] = cint(-1, 64, True)
    try:
        outs = A.run_fn(b, st0=st0)
    finally:
        ip.join_threshold = old
        ip.on_call.remove(on_call)
        ip.on_call_result.remove(on_call_result)
        ip.on_block.remove(on_block)
    n_ok = n_err = 0
    oks = []
    for (s2, rv, args) in outs:
        for s3, var, pay in split_enum(ip, s2, rv, "encode result"):
            ctx.count("R-C07-OOM")
            failed = s3.ghost.get("buf-write-failed", 0) > 0
            ok = (var == 1) == failed
            n_ok += var == 0
            n_err += var == 1
            if var == 0:
                oks.append(s3)
            ctx.oblig(ok)
            if not ok:
                ctx.violation("R-C07-OOM", "outcome|%s|failed=%s" % ("Err" if var else "Ok", failed), where,
                              "encode() returns %s on a path where %s" % ("Err" if var else "Ok", "a buffer write failed (the result was dropped)" if failed else "no write failed"))
    if not (n_ok and n_err):
        ctx.violation("BELOW-FLOOR", "R-C07-OOM|outcomes", where, "encode() must have Ok and Err outcomes")
    ext = [o for o in obs if o["method"] == "extend_from_slice"]
    ctx.sample({"encode_buffer_writes_observed": [{"line": o["line"], "method": o["method"],
                                                  "bytes": [("0x%02x" % c if isinstance(c, int) else "sym") for c in (o.get("consts") or [])][:8]}
                                                 for o in obs if o["method"] in ("extend_from_slice", "push")][:8]})
    # ---- constants: first write, escape insertion, trailer (per successful path)
    ctx.count("R-C07-CONST", 4)
    ok = bool(oks) and all(s3.ghost.get("c07-first") == tuple(START_SEQ) for s3 in oks)
    ctx.oblig(ok)
    if not ok:
        ctx.violation("R-C07-CONST", "encode|start", where, "the first write of encode() must be the start sequence 1b1b1b1b01010101 (first writes %r)"
                      % (sorted({repr(s3.ghost.get("c07-first")) for s3 in oks})[:3],))
    esc = [o for o in ext if o.get("consts") and tuple(o["consts"]) == tuple(ESC)]
    ok = bool(esc) and all(o.get("run") == 4 for o in esc)
    ctx.oblig(ok)
    if not ok:
        ctx.violation("R-C07-CONST", "encode|escape", where, "the escape sequence 1b1b1b1b must be inserted exactly after the 4th consecutive 0x1b "
                      "written (observed run lengths %r)" % ([o.get("run") for o in esc],))
    ctx.rule("R-C07-ESC", "at every fetch of the next payload byte the number of consecutive 0x1b written since the last escape lies in 0..3 "
                          "(ghost counter), and every fetched byte has been written exactly once")
    nx = [o for o in obs if o["method"] == "next"]
    ctx.count("R-C07-ESC", len(nx))
    ok = bool(nx) and all(not o["unresolved"] and o["run"][0] is not None and o["run"][0] >= 0 and o["run"][1] is not None and o["run"][1] <= 3 for o in nx)
    ctx.oblig(ok)
    if not ok:
        ctx.violation("R-C07-ESC", "encode|counter", where, "the run of consecutive 0x1b bytes written is not confined to 0..3 when the next payload "
                      "byte is fetched (ranges %r): after an inserted escape the count must restart, else longer runs are not escaped"
                      % (sorted({(o["run"], bool(o["unresolved"])) for o in nx}, key=str)[:8],))
    other = [o for o in ext if o not in esc and not (o.get("consts") and (tuple(o["consts"]) == tuple(START_SEQ)))]
    # trailer
    ctx.count("R-C07-PAD", 3)
    okc = oke = okp = bool(oks)
    why = "no successful path"
    for s3 in oks:
        tail = s3.ghost.get("c07-tail", ())
        if len(tail) != 3:
            okc = oke = okp = False
            why = "the last three writes of a successful path are not extend_from_slice calls"
            break
        Z, E, C = [dict(x) for x in tail]
        e = E["consts"]
        if not (len(e) == 6 and list(e[:5]) == END5):
            oke = False
            continue
        pad = e[5][1] if isinstance(e[5], tuple) else Lin.const(e[5])
        lo, hi = s3.interval(pad)
        in_range = lo is not None and lo >= 0 and hi is not None and hi <= 3
        zeros = all(c == 0 for c in Z["consts"]) or (len(Z["consts"]) == 0)
        nz = s3.prove_eq0(Z["n"] - pad)
        cong = Z["len"] is not None and congruent0(ip, s3, Z["len"] + pad, 4)
        if not (in_range and zeros and nz and cong):
            okp = False
            why = "range %s, zero bytes %s, zero count == pad %s, (length before padding + pad) %% 4 == 0 %s" % (in_range, zeros, nz, cong)
        c = C["consts"]
        syms = [x[1].single()[0] for x in c if isinstance(x, tuple) and x[1] is not None and x[1].single()]
        defs = [le_byte_def(ip, ip.tab.defn(s_)) for s_ in syms]
        cks = s3.ghost.get("c07-cks")
        good = len(c) == 2 and len(defs) == 2 and all(d and d[0] == "le_byte" for d in defs) and [d[2] for d in defs] == [0, 1] and cks is not None and cks[4]
        if good:
            org = ip.tab.origin(defs[0][1].single()[0]) if defs[0][1].single() else None
            good = isinstance(org, tuple) and org[0] == "crc_checksum" and defs[0][1] == defs[1][1] and C["cur"] is not None \
                and org[1] == C["cur"][0] and s3.prove_eq0(org[4] - C["cur"][3])
        if not good:
            okc = False
    ctx.oblig(oke)
    if not oke:
        ctx.violation("R-C07-CONST", "encode|end", where, "encode() does not write the end sequence 1b1b1b1b1a<pad> as its second-to-last write")
    ctx.oblig(okc)
    if not okc:
        ctx.violation("R-C07-CONST", "encode|crc", where, "the last two bytes must be to_le_bytes() of CRC_X25.checksum over everything written before")
    ctx.oblig(okp)
    if not okp:
        ctx.violation("R-C07-PAD", "encode", where, "encode(): the pad count must lie in 0..3, make the length a multiple of 4, be written after 0x1a "
                      "and equal the number of zero bytes written just before the end sequence (%s)" % why)
    # every fetched byte is written exactly once
    ctx.count("R-C07-ESC")
    okb = bool(nx) and all(o["bal"] == (0, 0) for o in nx) and all(s3.const_of(geti(s3, G_BAL)) == 0 for s3 in oks) \
        and not any(s3.ghost.get("c07-foreign-push") for s3 in oks)
    ctx.oblig(okb)
    if not okb:
        ctx.violation("R-C07-ESC", "encode|balance", where, "every byte fetched from the input must be written to the buffer exactly once before the "
                      "next one is fetched (fetched - written at fetch: %r)" % ([o["bal"] for o in nx][:3],))


def enc_variants(F):
    """canonical name -> variant index of the iterator encoder's private state enum.  If the variants were renamed they are
    identified by shape: the one with a signed counter is the trailer state, the three with an unsigned counter are, in
    declaration order, start sequence / payload / inserted escape (a wrong identification makes the table rules fail; it cannot
    hide a defect)."""
    vs = F.adts[ENCST]["variants"]
    names = {v["name"]: v["idx"] for v in vs}
    want = ("Init", "LookingForEscape", "HandlingEscape", "End")
    if all(n in names for n in want):
        return names
    signed = [v["idx"] for v in vs if len(v["fields"]) == 1 and v["fields"][0]["ty"].get("k") == "int" and v["fields"][0]["ty"].get("sg")]
    unsigned = [v["idx"] for v in vs if len(v["fields"]) == 1 and v["fields"][0]["ty"].get("k") == "int" and not v["fields"][0]["ty"].get("sg")]
    if len(vs) != 4 or len(signed) != 1 or len(unsigned) != 3:
        raise AnchorMissing("EncoderState: variants %r cannot be identified" % sorted(names))
    unsigned.sort()
    return {"Init": unsigned[0], "LookingForEscape": unsigned[1], "HandlingEscape": unsigned[2], "End": signed[0]}


def enc_state(ip, F, variant, n):
    st = ip.new_state()
    adt = F.adts[ENC]
    fields = adt["variants"][0]["fields"]
    vals = []
    stv = enc_variants(F)
    for fl in fields:
        t = fl["ty"]
        if t.get("k") == "adt" and t["def"] == ENCST:
            w, sg = (8, True) if variant == "End" else (8, False)
            vals.append(VEnum(ENCST, Lin.const(stv[variant]), {stv[variant]: (cint(n, w, sg),)}))
        elif t.get("k") == "adt" and t["def"].startswith("crc::"):
            vals.append(VOpq(t, "crc-digest-fed"))
        else:
            vals.append(ip.fresh_value(st, t, "enc." + fl["name"]))
    root = ip.new_oid("self")
    st.mem[root] = VAgg("struct", ENC, vals)
    return st, root, stv


def check_iter(ctx, F, A):
    from ..vra.cong import congruent0
    ip = A.ip
    nb = [b for b in F.bodies.values() if b.get("impl_trait") == "std::iter::Iterator" and b.get("name") == "next"
          and (b.get("impl_self_ty") or {}).get("def") == ENC]
    if len(nb) != 1:
        raise AnchorMissing("Encoder::next")
    nb = nb[0]
    where = (nb["span"]["file"], nb["span"]["line"], nb["def"])
    i_state = field_index(F, ENC, "state")
    i_pad = field_index(F, ENC, "padding")
    feeds = []
    iter_calls = []

    def on_crc(ip_, frame, bb, st, what, ref, x):
        if what == "update":
            st.ghost["c07-feed"] = st.ghost.get("c07-feed", ()) + (tuple(slice_consts(ip_, st, x) or uniform_run(ip_, st, x) or const_window(ip_, st, x) or ["?"]),)
        elif what == "finalize":
            st.ghost["c07-final"] = True

    def on_call(ip_, frame, bb, t, st, callee, args):
        if callee.get("trait") == "std::iter::Iterator" and callee.get("method") == "next" and \
                (callee.get("self_ty") or {}).get("k") in ("param", "alias"):
            st.ghost["c07-iter"] = st.ghost.get("c07-iter", 0) + 1
    ip.on_crc.append(on_crc)
    ip.on_call.append(on_call)
    old = ip.join_threshold
    ip.join_threshold = 10 ** 9

    def uniform_run(ip_, st, sl):
        """a slice of unknown (small) length all of whose possible elements are the same constant c: [("rep", c, length)]"""
        lo, hi = st.interval(sl.n)
        s0 = st.const_of(sl.start)
        if lo is None or hi is None or hi > 8 or s0 is None:
            return None
        vals = set()
        for i in range(hi):
            try:
                v = ip_.read_raw(st, sl.root, sl.steps + (("ix", Lin.const(s0 + i)),))
            except Unsupported:
                return None
            vals.add(st.const_of(v.lin) if isinstance(v, VInt) else None)
        if len(vals) != 1 or None in vals:
            return None
        return [("rep", vals.pop(), sl.n)]

    def const_window(ip_, st, sl):
        """a window of unknown (small) position / length into an array of constants: [("sub", all constants, start, length)]"""
        try:
            base = ip_.read_raw(st, sl.root, sl.steps)
        except Unsupported:
            return None
        if not isinstance(base, VArr) or len(base.elems) > 16:
            return None
        cs = []
        for e in base.elems:
            if not isinstance(e, VInt):
                return None
            c_ = st.const_of(e.lin)
            cs.append(c_ if c_ is not None else ("sym", e.lin))
        for ln in (sl.start, sl.n):
            lo, hi = st.interval(ln)
            if lo is None or hi is None or hi - lo > 8:
                return None
        return [("sub", tuple(cs), sl.start, sl.n)]

    def split_open(res):
        """outcomes whose end-state counter or whose fed run length is still symbolic are split per feasible value, and every update
        fed to the CRC is flattened into bytes (one update of k zeros = k updates of one zero)"""
        out = []
        for r in res:
            cands = [r["st"]]
            lins = [x[2] for upd in r["feed"] for x in upd if isinstance(x, tuple) and x and x[0] == "rep"]
            for upd in r["feed"]:
                for x in upd:
                    if isinstance(x, tuple) and x and x[0] == "sub":
                        lins.extend([x[2], x[3]])
            sv = r["obj"].elems[i_state]
            var = r["st"].const_of(sv.disc)
            if var is not None and sv.pay.get(var) and isinstance(sv.pay[var][0], VInt):
                lins.append(sv.pay[var][0].lin)
            for ln in lins:
                nxt = []
                for s4 in cands:
                    if s4.const_of(ln) is not None:
                        nxt.append(s4)
                        continue
                    lo, hi = s4.interval(ln)
                    if lo is None or hi is None or hi - lo > 12:
                        nxt.append(s4)
                        continue
                    for v in range(lo, hi + 1):
                        s5 = s4.copy()
                        try:
                            s5.assume_eq0(ln - v)
                        except Infeasible:
                            continue
                        nxt.append(s5)
                cands = nxt
            for s4 in cands:
                feed = []
                for upd in r["feed"]:
                    u = []
                    for x in upd:
                        if isinstance(x, tuple) and x and x[0] == "rep":
                            k = s4.const_of(x[2])
                            u.extend([x[1]] * k if k is not None else ["?"])
                        elif isinstance(x, tuple) and x and x[0] == "sub":
                            a_, k = s4.const_of(x[2]), s4.const_of(x[3])
                            u.extend(list(x[1][a_:a_ + k]) if a_ is not None and k is not None and a_ + k <= len(x[1]) else ["?"])
                        else:
                            u.append(x)
                    feed.append(tuple(u))
                r2 = dict(r)
                r2["st"] = s4
                r2["feed"] = tuple(feed)
                name = r["state"][0]
                nn = s4.const_of(sv.pay[var][0].lin) if var is not None and sv.pay.get(var) and isinstance(sv.pay[var][0], VInt) else r["state"][1]
                r2["state"] = (name, nn)
                out.append(r2)
        return out

    def step(variant, n):
        return split_open(step0(variant, n))

    def step0(variant, n):
        st, root, stv = enc_state(ip, F, variant, n)
        res = []
        for (s2, rv, args) in A.run_fn(nb, st0=st, first_arg=VRef(root, (), True)):
            obj = s2.mem[root]
            sv = obj.elems[i_state]
            var = s2.const_of(sv.disc)
            name = [k for k, v in stv.items() if v == var][0] if var is not None else None
            nn = s2.const_of(sv.pay[var][0].lin) if var is not None else None
            for s3, ov, pay in split_enum(ip, s2, rv, "next"):
                res.append({"st": s3, "out": (pay[0] if ov == 1 else None), "state": (name, nn), "feed": s3.ghost.get("c07-feed", ()),
                            "iter": s3.ghost.get("c07-iter", 0), "obj": obj, "final": s3.ghost.get("c07-final", False),
                            "obj0": st.mem.get(root)})
        return res
    stv_all = enc_variants(F)

    def pad_of(st, obj):
        """the pad count an encoder object stands for = the byte it emits in state End(5); (state, Lin) or None"""
        elems = list(obj.elems)
        elems[i_state] = VEnum(ENCST, Lin.const(stv_all["End"]), {stv_all["End"]: (cint(5, 8, True),)})
        root = ip.new_oid("self-pad")
        s0 = st.copy()
        s0.mem[root] = VAgg("struct", ENC, elems)
        outs = []
        for (s2, rv, _a) in A.run_fn(nb, st0=s0, first_arg=VRef(root, (), True)):
            for s3, ov, pay in split_enum(ip, s2, rv, "next"):
                outs.append((s3, pay[0] if ov == 1 else None))
        if len(outs) != 1 or not isinstance(outs[0][1], VInt):
            return None
        return outs[0][0], outs[0][1].lin

    try:
        def emitted(r):
            o = r["out"]
            if o is None:
                return None
            c = r["st"].const_of(o.lin) if isinstance(o, VInt) else None
            return c if c is not None else o
        # Init(n): n-th start byte
        for n in range(8):
            ctx.count("R-C07-ITER")
            rs = step("Init", n)
            ok = len(rs) == 1 and emitted(rs[0]) == START_SEQ[n] and rs[0]["state"] == ("Init", n + 1) and not rs[0]["feed"] and rs[0]["iter"] == 0
            ctx.oblig(ok)
            if not ok:
                ctx.violation("R-C07-ITER", "Init(%d)" % n, where, "Init(%d) must emit 0x%02x and go to Init(%d) (got %r)" %
                              (n, START_SEQ[n], n + 1, [(emitted(r), r["state"]) for r in rs]))
        ctx.sample({"iterator_encoder_transitions": [{"state": "Init(%d)" % n, "emits": "0x%02x" % START_SEQ[n], "next": "Init(%d)" % (n + 1)} for n in (0, 4, 7)]})
        # Init(8) and HandlingEscape(4) continue with a data byte (LookingForEscape(0))
        for variant, n in (("Init", 8), ("HandlingEscape", 4), ("LookingForEscape", 0), ("LookingForEscape", 2), ("LookingForEscape", 3)):
            ctx.count("R-C07-ITER")
            rs = step(variant, n)
            base = n if variant == "LookingForEscape" else 0
            good = True
            good_pad = True
            saw_data = False
            for r in rs:
                e = emitted(r)
                if r["state"][0] == "LookingForEscape" and isinstance(e, VInt):
                    saw_data = True
                    # data byte: emitted unchanged, fed to the crc once, counter = base+1 for 0x1b else 0
                    if r["iter"] != 1 or len(r["feed"]) != 1 or r["feed"][0] != (("sym", e.lin),):
                        good = False
                    # the pad count the object stands for drops by one (mod 4) per data byte
                    p0 = pad_of(r["st"], r["obj0"])
                    p1 = pad_of(p0[0], r["obj"]) if p0 else None
                    if not (p0 and p1 and congruent0(ip, p1[0], p1[1] + 1 - p0[1], 4)):
                        good_pad = False
                    vals = r["st"].values(e.lin.single()[0]) if e.lin.single() else None
                    nn = r["state"][1]
                    if nn is None:
                        good = False
                    elif vals is not None and vals == frozenset([0x1b]):
                        good = good and nn == base + 1
                    elif vals is not None and 0x1b not in vals:
                        good = good and nn == 0
                    else:
                        good = good and False
                elif r["state"][0] == "End" or r["out"] is None or r["state"][0] in ("End",):
                    pass
            ok = good and saw_data
            ctx.oblig(ok)
            if not ok:
                ctx.violation("R-C07-ITER", "%s(%d)|data" % (variant, n), where,
                              "%s(%d): a data byte must be emitted unchanged, fed to the CRC exactly once, and the 1b-run counter must become "
                              "%d for 0x1b and 0 otherwise (%r)" % (variant, n, base + 1, [(emitted(r), r["state"], r["feed"]) for r in rs][:4]))
            ctx.count("R-C07-PAD")
            ctx.oblig(good_pad)
            if not good_pad:
                ctx.violation("R-C07-PAD", "iter|bump|%s(%d)" % (variant, n), where, "%s(%d): each data byte must lower the pad count (the byte emitted "
                              "in state End(5)) by one modulo 4" % (variant, n))
        # LookingForEscape(4): exactly four escape bytes
        rs = step("LookingForEscape", 4)
        ctx.count("R-C07-ITER")
        ok = len(rs) == 1 and emitted(rs[0]) == 0x1b and rs[0]["state"] == ("HandlingEscape", 1) and rs[0]["feed"] == (tuple(ESC),) and rs[0]["iter"] == 0
        ctx.oblig(ok)
        if not ok:
            ctx.violation("R-C07-ITER", "LookingForEscape(4)", where, "after four consecutive 0x1b the encoder must feed 1b1b1b1b to the CRC and start "
                          "emitting the escape (got %r)" % ([(emitted(r), r["state"], r["feed"]) for r in rs],))
        for n in (1, 2, 3):
            rs = step("HandlingEscape", n)
            ctx.count("R-C07-ITER")
            ok = len(rs) == 1 and emitted(rs[0]) == 0x1b and rs[0]["state"] == ("HandlingEscape", n + 1) and not rs[0]["feed"] and rs[0]["iter"] == 0
            ctx.oblig(ok)
            if not ok:
                ctx.violation("R-C07-ITER", "HandlingEscape(%d)" % n, where, "HandlingEscape(%d) must emit 0x1b (escape byte %d of 4)" % (n, n + 1))
        # end of data: from LookingForEscape(n<4) with an exhausted iterator -> pad zeros / end sequence
        rs = [r for r in step("LookingForEscape", 0) if r["state"][0] == "End" or (r["state"][0] is not None and r["state"][0] == "End")]
        ctx.count("R-C07-PAD")
        okp = False
        okp_all = True
        n_end = 0
        for r in rs:
            flat = [x for upd in r["feed"] for x in upd]
            last = flat[-6:]
            pad = last[5][1] if len(last) == 6 and isinstance(last[5], tuple) else (last[5] if len(last) == 6 else None)
            zeros = flat[:-6]
            if len(last) == 6 and list(last[:5]) == END5 and all(z == 0 for z in zeros):
                padv = pad if isinstance(pad, int) else (r["st"].const_of(pad) if pad is not None else None)
                p1 = pad_of(r["st"], r["obj"])
                e = emitted(r)
                this = padv == len(zeros) and p1 is not None and p1[0].const_of(p1[1]) == padv and r["state"] == ("End", 1 - padv) \
                    and e == (0 if padv > 0 else 0x1b)
                n_end += 1
                okp_all = okp_all and this
                okp = okp or this
        okp = okp and okp_all and n_end == len(rs)
        ctx.oblig(okp)
        if not okp:
            ctx.violation("R-C07-PAD", "iter|end-feed", where, "at end of data the encoder must feed `pad` zero bytes and then 1b1b1b1b1a<pad> to the CRC, "
                          "with pad the count it later emits, and continue with End(-pad) (%r)" % ([(r["feed"], r["state"]) for r in rs][:3],))
        # End(n)
        want = {-3: 0, -2: 0, -1: 0, 0: 0x1b, 1: 0x1b, 2: 0x1b, 3: 0x1b, 4: 0x1a}
        for n in range(-3, 8):
            rs = step("End", n)
            ctx.count("R-C07-ITER")
            ok = len(rs) == 1 and rs[0]["state"] == ("End", n + 1) and rs[0]["iter"] == 0 and not rs[0]["feed"]
            if ok:
                e = emitted(rs[0])
                if n in want:
                    ok = e == want[n]
                elif n == 5:
                    # the pad byte: in 0..3 for every object value (what it counts is fixed by the bump / end-of-data rules)
                    lo, hi = rs[0]["st"].interval(e.lin) if isinstance(e, VInt) else ((e, e) if isinstance(e, int) else (None, None))
                    ok = lo is not None and lo >= 0 and hi is not None and hi <= 3
                else:
                    d = le_byte_def(ip, ip.tab.defn(e.lin.single()[0])) if isinstance(e, VInt) and e.lin.single() else None
                    ok = d is not None and d[0] == "le_byte" and d[2] == n - 6 and rs[0]["final"]
            if ok:
                # nothing but the state changes (so the pad count and the CRC stay what they were)
                ok = all(x == y for j, (x, y) in enumerate(zip(rs[0]["obj"].elems, rs[0]["obj0"].elems)) if j != i_state)
            ctx.oblig(ok)
            if not ok:
                ctx.violation("R-C07-ITER", "End(%d)" % n, where, "End(%d) emits the wrong byte or goes to the wrong state (%r)" %
                              (n, [(emitted(r), r["state"]) for r in rs]))
        # fused
        rs = step("End", 8)
        ctx.count("R-C07-FUSED")
        ok = len(rs) == 1 and rs[0]["out"] is None and rs[0]["state"] == ("End", 8) and rs[0]["iter"] == 0 and not rs[0]["feed"] \
            and rs[0]["obj"] == rs[0]["obj0"]
        ctx.oblig(ok)
        if not ok:
            ctx.violation("R-C07-FUSED", "End(8)", where, "after the last byte next() must return None and leave state, CRC and inner iterator untouched (%r)"
                          % ([(r["out"], r["state"], r["iter"]) for r in rs],))
    finally:
        ip.join_threshold = old
        ip.on_crc.remove(on_crc)
        ip.on_call.remove(on_call)
    # Encoder::new feeds the start sequence
    new = [b for b in F.bodies.values() if b.get("name") == "new" and (b.get("impl_self_ty") or {}).get("def") == ENC]
    if len(new) != 1:
        raise AnchorMissing("Encoder::new")
    ip.on_crc.append(on_crc)
    try:
        outs = A.run_fn(new[0])
    finally:
        ip.on_crc.remove(on_crc)
    ctx.count("R-C07-CONST")
    ok = len(outs) == 1 and outs[0][0].ghost.get("c07-feed") == (tuple(START_SEQ),)
    if ok:
        obj = outs[0][1]
        sv = obj.elems[i_state]
        ok = outs[0][0].const_of(sv.disc) is not None and outs[0][0].const_of(list(sv.pay.values())[0][0].lin) == 0
    if ok:
        p = pad_of(outs[0][0], outs[0][1])
        ok = p is not None and p[0].const_of(p[1]) == 0
    ctx.oblig(ok)
    if not ok:
        ctx.violation("R-C07-CONST", "iter|new", (new[0]["span"]["file"], new[0]["span"]["line"], new[0]["def"]),
                      "Encoder::new must start in Init(0) with the CRC fed exactly the start sequence and a pad count of 0")


def check_crc_instance(ctx, F):
    """CRC_X25 is built from crc::CRC_16_IBM_SDLC (CRC-16/X.25)"""
    import re
    from ..build import REPO
    ctx.count("R-C07-CONST")
    st = F.statics.get("util::CRC_X25")
    ok = st is not None
    if ok:
        # the static's initialiser is a const expression; its operand is visible in the crate source at the recorded span
        path = st["span"]["file"]
        try:
            import os
            line = open(os.path.join(REPO, path)).read().splitlines()[st["span"]["line"] - 1]
            ok = "CRC_16_IBM_SDLC" in line and "Crc::<u16>" in line.replace(" ", "")
        except Exception:
            ok = False
    ctx.oblig(ok, nontrivial=False)
    if not ok:
        ctx.violation("R-C07-CONST", "crc-instance", ("src/util.rs", 0, "util::CRC_X25"), "CRC_X25 must be crc::Crc::<u16>::new(&crc::CRC_16_IBM_SDLC)")

"""C05 Transport layer is total: no panic, abort, overflow or hang on any byte stream."""
from .totality import *
from ..common import ASSUMPTIONS
from ..engine import TYPESTATE

SCOPE_FILES = ("src/transport/", "src/util.rs", "src/lib.rs")


def scope_bodies(F):
    out, skipped = [], {}
    for b in F.bodies.values():
        if not in_files(b, SCOPE_FILES):
            continue
        ex = excluded(b)
        if ex:
            skipped[ex] = skipped.get(ex, 0) + 1
            continue
        out.append(b)
    return out, skipped


def run(ctx):
    ctx.rule("R-C05-OBL", "every OVF/IDX/DIV/PANIC/EXT/REC obligation reachable from a public transport entry point is "
                          "discharged by value-range analysis under the inferred object invariants")
    ctx.rule("R-C05-LOOPS", "every loop has a termination certificate (L1 finite std iterator, L2 one item of a caller-supplied "
                            "source per cycle, L3 shrinking slice, U fully unrolled)")
    ctx.rule("R-C05-VISITED", "every in-scope body is reached by the analysis from some root")
    ctx.rule("R-C05-INV", "object invariants (typestate) inferred as least fixpoints over all interface methods, covering "
                          "Ok and Err exits alike, so an object stays usable after every error")
    F = ctx.facts("all")
    A = ctx.analysis("all")
    bodies, skipped = scope_bodies(F)

    def out_of_scope(callee):
        r = callee.get("resolved") or callee
        b = F.bodies.get(r["def"])
        return b is not None and b["span"]["file"].startswith("src/parser/")
    A.ip.opaque_fn = out_of_scope   # the parsers are C06's scope; here they are total opaque functions
    # invariants first (fail closed if an anchor is gone)
    invs = {}
    for t in ("transport::decode::NonOwningDecoder", "transport::encode::Encoder", "util::ArrayBuf", "util::SliceByteSource"):
        try:
            inv = A.invariant(t)
            invs[t] = A.inv_info[t]
            ctx.count("R-C05-INV")
        except (AnchorMissing, Unsupported) as e:
            ctx.violation("R-C05-INV", t, ("", 0, t), "cannot infer object invariant: %s" % e)
    # DecoderReader::read is analysed first, from every decoder state; its callers then use it as an opaque total function
    since = run_roots(ctx, A, bodies, "R-C05", modular=("transport::decoder_reader::DecoderReader::<B, R>::read",
                                                           "transport::decoder_reader::DecoderReader::<B, R>::next"))
    # closures that no root reached through a call (lazy iterator adapters) are analysed on their own
    missing = check_visited(ctx, A, bodies, "R-C05")
    for b in list(missing):
        if b["kind"] == "Closure":
            try:
                A.run_fn(b)
                ctx.count("R-C05-ROOTS")
            except (Unsupported, AnchorMissing) as e:
                ctx.violation("R-C05-UNSUPPORTED", b["def"], (b["span"]["file"], b["span"]["line"], b["def"]), str(e))
    from .totality import is_root, ts_helper_names
    hs = ts_helper_names(A)
    missing = check_visited(ctx, A, bodies, "R-C05-RECHECK", F, [b["def"] for b in bodies if is_root(b) and b["def"] not in hs])
    for b in missing:
        if ctx.is_reviewed("R-C05-VISITED", b["def"]):
            continue
        ctx.violation("R-C05-VISITED", b["def"], (b["span"]["file"], b["span"]["line"], b["def"]),
                      "in-scope body is not reached from any analysed root (obligations inside it are unchecked)")
    by_kind = triage(ctx, A, since, "R-C05", F)
    # the one reviewed panic (FromIterator for ArrayBuf) must stay unreachable from every other in-scope body
    ctx.rule("R-C05-FROMITER-CALLERS", "no in-scope body calls ArrayBuf::from_iter (its reviewed panic contract stays outside the entry points)")
    for b in bodies:
        for blk in b["blocks"]:
            t = blk["term"]
            if not blk["cleanup"] and t["k"] == "call" and t.get("callee"):
                if any("FromIterator" in n and "ArrayBuf" in n for n in callee_names(t)):
                    ctx.violation("R-C05-FROMITER-CALLERS", b["def"], (b["span"]["file"], blk["tspan"]["line"], b["def"]),
                                  "in-scope call to the panicking ArrayBuf::from_iter")
    ctx.count("R-C05-FROMITER-CALLERS")
    loops = loop_certificates(ctx, A, bodies, "R-C05", since)
    ctx.rule("R-C05-SITES", "static enumeration of all Assert terminators and panicking calls in scope (cross-check of the obligation log)")
    sites = static_panic_sites(ctx, A, bodies, "R-C05", since)
    sccs = recursion_sites(F, bodies)
    if ctx.tier == "thorough":
        ctx.rule("R-C05-CLIPPY", "cross-reference: every potential-panic site flagged by clippy's restriction lints maps to an enumerated obligation")
        ctx.cov["clippy_crossref"] = clippy_crossref(ctx, A, bodies, "R-C05", since, ("src/transport/", "src/util.rs", "src/lib.rs"))
    ctx.cov.update({
        "config": "all features (std, alloc, nb, embedded-hal-02, serde)",
        "bodies_in_scope": len(bodies), "bodies_excluded_A7": skipped,
        "obligations_by_kind": by_kind,
        "static_sites": sites,
        "invariants": invs,
        "loops": loops,
        "recursion_sccs": sccs,
        "function_instances_analysed": len(A.ip.visited),
        "interpreter_stats": A.ip.stats,
        "external_callees_reviewed": len(A.ip.extern), "contracts": len(A.ip.contracts),
    })
    ctx.sample({"invariant NonOwningDecoder (per state variant: raw_msg_len, crc, state payload, zero_cache)":
                invs.get("transport::decode::NonOwningDecoder", {}).get("partitions")})
    ctx.sample({"invariant Encoder": invs.get("transport::encode::Encoder", {}).get("partitions")})
    ctx.assumptions = [ASSUMPTIONS[k] for k in ("A1", "A2", "A3", "A4", "A6", "A7")]
    ctx.explanation = (
        "Sound-by-construction abstract interpretation of the MIR of every transport/util/lib entry point: all panic edges "
        "(Assert terminators, panicking callees, slice/index/copy preconditions of reviewed std summaries) are enumerated and "
        "each must be proved unreachable from path facts plus inferred per-variant object invariants; loops and recursion "
        "need certificates. Decides panic-, overflow- and hang-freedom for all inputs, lengths, call orders and capacities; "
        "does not decide termination when a caller-supplied byte source never ends.")

"""C16 Buffer need equals payload length; overflow is an error, never truncation (structural clauses)."""
from ..common import ASSUMPTIONS
from ..engine import AnchorMissing
from ..cfg import CFG, callee_names
from ..lin import Lin
from ..vra.interp import Unsupported
from ..vra.values import *
from .decoder import *


def run(ctx):
    ctx.rule("R-C16-PADFIRST", "on the success path the zeros handed to the buffer are exactly withheld - pad: the pad count is removed "
                               "before the flush, only zeros are flushed, nothing stays withheld")
    ctx.rule("R-C16-WRITE", "a failed buffer write turns into Err(OutOfMemory) on every path "
                            "and Err(OutOfMemory) is reported only when a write failed (no truncation, no spurious OOM)")
    ctx.rule("R-C16-WITHHELD", "at most 4 zeros are ever withheld; a data byte is preceded in the buffer by all withheld zeros")
    ctx.rule("R-C16-DEFAULT", "SmlReader's default buffer is ArrayBuf<8192>")
    F = ctx.facts("all")
    A = ctx.analysis("all")
    ip = A.ip
    try:
        an = Anchors(F)
        A.invariant(NOD)
        outs, gates = frame_analysis(A, an)
    except (AnchorMissing, Unsupported) as e:
        ctx.violation("ANCHOR-MISSING", "decoder", ("", 0, ""), str(e))
        return
    where = (an.push["span"]["file"], an.push["span"]["line"], an.push["def"])
    # ---- PADFIRST
    if not gates:
        ctx.violation("BELOW-FLOOR", "R-C16-PADFIRST", where, "no success path found")
    for g in gates:
        ctx.count("R-C16-PADFIRST")
        for key, text in (("flush_zc", "the flush on the success path sees zero_cache = withheld - pad"),
                          ("n_pushed_eq", "the number of bytes flushed equals withheld - pad"),
                          ("pushed_all_zero", "only zero bytes are flushed at the end of a frame")):
            ok = bool(g.get(key))
            ctx.oblig(ok)
            if not ok:
                ctx.violation("R-C16-PADFIRST", key, ("src/transport/decode.rs", g["line"], g["fn"]),
                              "success path from state #%s: cannot prove that %s (flushed %r)" % (g["part"], text, g.get("flushed_zeros")))
        ok = g.get("zc_after") == 0
        ctx.oblig(ok)
        if not ok:
            ctx.violation("R-C16-PADFIRST", "zc_after", ("src/transport/decode.rs", g["line"], g["fn"]), "zeros stay withheld after a delivered frame")
    if gates:
        ctx.sample({"success_paths": len(gates), "example": {k: gates[0].get(k) for k in ("flush_zc", "n_pushed", "n_pushed_eq", "pushed_all_zero")}})
    # ---- WRITE: single write site
    sites = []
    for b in F.bodies.values():
        if not b["span"]["file"].endswith("transport/decode.rs"):
            continue
        for bb, t in CFG(b).calls():
            c = t.get("callee") or {}
            if c.get("trait") == "util::Buffer" and c.get("method") in ("push", "extend_from_slice"):
                sites.append((b["def"], c["method"], b["blocks"][bb]["tspan"]["line"]))
    # (where the writes are issued from - the core, a helper type - is the decoder's business: every write is seen by the
    #  buffer contract wherever it happens, and a failed one must surface as Err(OutOfMemory), below)
    ctx.count("R-C16-WRITE", len(sites))
    ctx.cov["buffer_write_sites"] = sorted("%s:%s" % (s[0], s[1]) for s in sites)
    if not sites:
        ctx.violation("BELOW-FLOOR", "R-C16-WRITE|sites", where, "no buffer write found in the decoder module")
    n_oom = n_fail = 0
    for o in outs:
        ctx.count("R-C16-WRITE")
        failed = o["write_failed"] > 0
        oom = o["label"] == "Err(OutOfMemory)"
        n_oom += oom
        n_fail += failed
        ok = failed == oom
        ctx.oblig(ok)
        if not ok:
            ctx.violation("R-C16-WRITE", "partition=%s|%s|failed=%s" % (o["key"], o["label"], failed), where,
                          "push_byte from state #%s: %s" % (o["key"], ("a buffer write failed but the outcome is %s (truncation)" % o["label"])
                                                           if failed else "Err(OutOfMemory) reported although every buffer write succeeded"))
    if n_oom == 0:
        ctx.violation("BELOW-FLOOR", "R-C16-WRITE", where, "no Err(OutOfMemory) outcome found")
    # ---- WITHHELD
    inv = A.invariant(NOD)
    for key, S in inv.parts.items():
        ctx.count("R-C16-WITHHELD")
        zc = zc_of(an, S.mem[("INV", 0)]).lin
        lo, hi = S.interval(zc)
        ok = hi is not None and hi <= 4
        ctx.oblig(ok)
        if not ok:
            ctx.violation("R-C16-WITHHELD", "bound|partition=%s" % (key,), where, "withheld zeros not bounded by 4 in state #%s: [%s,%s]" % (key, lo, hi))
    n_data = 0
    for o in outs:
        if o["key"] != an.v_normal or o["label"] != "Ok(false)" or an.variant_of(o["st"], o["obj"]) != an.v_normal:
            continue
        st = o["st"]
        b = o["args"][2]
        if not isinstance(b, VInt):
            continue
        sg = b.lin.single()
        vals = st.values(sg[0]) if sg and sg[1] == 1 and b.lin.c == 0 else None
        if vals is None or 0 in vals:
            continue
        # a non-zero data byte in the normal state: the buffer receives exactly the withheld zeros, then the byte
        n_data += 1
        ctx.count("R-C16-WITHHELD")
        zc0 = zc_of(an, o["obj0"]).lin
        p = o["pushed"]
        ok = len(p) >= 1 and st.prove_eq0(p[-1] - b.lin) and all(st.const_of(x) == 0 for x in p[:-1]) \
            and st.prove_eq0(Lin.const(len(p) - 1) - zc0) and st.const_of(zc_of(an, o["obj"]).lin) == 0
        ctx.oblig(ok)
        if not ok:
            ctx.violation("R-C16-WITHHELD", "order", where, "a data byte must be written after exactly the withheld zeros and nothing else "
                          "(withheld %s, written %r, byte %r)" % (st.describe(zc0), p, b.lin))
    if n_data == 0:
        ctx.violation("BELOW-FLOOR", "R-C16-WITHHELD", where, "no data-byte path found")
    # ---- DEFAULT
    al = F.aliases.get("DefaultBuffer")
    ctx.count("R-C16-DEFAULT")
    ok = False
    if al:
        t = al["ty"]
        if t.get("k") == "adt" and t["def"] == "util::ArrayBuf":
            cs = [a["c"] for a in t.get("args", []) if a["g"] == "const"]
            ok = len(cs) == 1 and cs[0].get("v") == 8192
    ctx.oblig(ok, nontrivial=False)
    if not ok:
        ctx.violation("R-C16-DEFAULT", "alias", ("src/lib.rs", 0, "DefaultBuffer"), "DefaultBuffer is not ArrayBuf<8192>: %r" % (al and al["ty"].get("s"),))
    ctx.cov.update({"write_sites": sites, "outcomes": len(outs), "oom_outcomes": n_oom, "failed_write_paths": n_fail})
    ctx.include("C18", "capacity exactly L suffices / below L is an error presupposes that ArrayBuf<N> is an exact bounded vector for every N")
    ctx.include("C14", "'reports out-of-memory for that frame ... and is immediately ready for the next frame': every push_byte outcome "
                       "Err(OutOfMemory) must leave the decoder in the fresh state with a cleared buffer (R-C14-BOUNDARY), from whichever "
                       "write it stems")
    ctx.assumptions = [ASSUMPTIONS[k] for k in ("A1", "A2", "A6")]
    ctx.explanation = (
        "Structural clauses of the buffer-need property decided on every abstract path of push_byte: zeros flushed on success are "
        "withheld - pad (linear fact), only zeros are flushed, a data byte is preceded by exactly the withheld zeros, at most 4 zeros are "
        "withheld (invariant), a failed buffer write is reported as Err(OutOfMemory) on every path and nowhere else (no truncation), "
        "and the default reader buffer is ArrayBuf<8192>. Not decided: that capacity L always suffices for a payload of L bytes "
        "(needs the payload-reconstruction argument of C01).")

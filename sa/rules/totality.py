"""Shared machinery of the totality properties (C05 transport, C06 parsers, C18 ArrayBuf):
root analysis under object invariants, obligation triage (rule U, reviewed table), visit
coverage, loop / recursion certificates."""
from ..cfg import CFG, callee_names
from ..engine import TYPESTATE, AnchorMissing
from ..vra.interp import Unsupported
from ..vra.values import VInt
from ..facts import named_place

FMT_TRAITS = ("std::fmt::Debug", "std::fmt::Display")

# callees that drive a loop: finite std iterators (L1) and caller-supplied sources (L2)
L1_SOURCES = (
    "std::iter::range::<impl std::iter::Iterator for std::ops::Range<A>>::next",
    "<std::array::IntoIter<T, N> as std::iter::Iterator>::next",
    "<std::slice::Iter<'a, T> as std::iter::Iterator>::next",
)
L2_SOURCES = ("std::iter::Iterator::next", "util::ByteSource::read_byte")


def in_files(body, prefixes):
    f = body["span"]["file"]
    return any(f.startswith(p) for p in prefixes)


def excluded(body):
    """A7: derived impls, Debug/Display, serde-generated code are outside the panic scope"""
    if body.get("auto_derived"):
        return "derived"
    if body.get("impl_trait") in FMT_TRAITS:
        return "fmt"
    if "_::" in body["def"] or "serde" in body["def"]:
        return "serde"
    if body["span"].get("exp") and not body["span"]["file"].startswith("src/"):
        return "macro"
    return None


def is_root(body):
    if body["kind"] == "Closure":
        return False
    if body.get("impl_trait"):
        return True
    return body["vis"] == "pub"


def ts_helper_names(A):
    out = set()
    for t in TYPESTATE:
        try:
            _i, helpers = A.ts_methods(t)
        except AnchorMissing:
            continue
        for h in helpers:
            out.add(h["def"])
    return out


def place_field(body, pl, depth=0):
    """(field name, type string) a place denotes, looking through `_l = &mut <place>` definitions and through
    temporaries that are plain copies of a field (`_t = copy x.f`)"""
    if pl["proj"] and pl["proj"][-1]["k"] == "field":
        return pl["proj"][-1].get("name"), pl["ty"].get("s")
    if depth < 4 and len(pl["proj"]) == 1 and pl["proj"][0]["k"] == "deref":
        for blk in body["blocks"]:
            for st in blk["stmts"]:
                if st["k"] == "assign" and st["place"]["local"] == pl["local"] and not st["place"]["proj"] \
                        and st["rv"]["k"] == "ref":
                    return place_field(body, st["rv"]["place"], depth + 1)
    if depth < 4 and not pl["proj"]:
        defs = []
        for blk in body["blocks"]:
            for st in blk["stmts"]:
                if st["k"] == "assign" and st["place"]["local"] == pl["local"] and not st["place"]["proj"]:
                    defs.append(st["rv"])
        if len(defs) == 1 and defs[0]["k"] == "use" and defs[0]["op"]["k"] in ("copy", "move"):
            return place_field(body, defs[0]["op"]["place"], depth + 1)
    return None, None


SMALL_WRITES = {}   # id(assign stmt) -> every value the analysis saw written there lies in [0, 2^32]


def install_write_monitor(ip):
    """records, for every assignment the analysis executes, whether the written integer is bounded by 2^32 in every context
    (rule U accepts such a write to a counter like a constant: `self.n = START_SEQ.len()`)"""
    if getattr(ip, "_small_write_monitor", False):
        return
    ip._small_write_monitor = True

    def on_assign(ip_, frame, bb, stmt, st, val):
        if isinstance(val, VInt) and not val.sg and val.w == 64:
            lo, hi = st.interval(val.lin)
            ok = lo is not None and hi is not None and 0 <= lo and hi <= (1 << 32)
            SMALL_WRITES[id(stmt)] = SMALL_WRITES.get(id(stmt), True) and ok
    ip.on_assign.append(on_assign)


def rule_u(facts, body, bb, r_lo, r_hi):
    """monotone usize counter (accepted under A3): the overflowing `p + e` has a usize field p and an
    addend proved to lie in [0, 256], and every write to that field in the crate is a constant, a
    usize-typed copy, or the result of such a checked increment of the same field"""
    blk = body["blocks"][bb]
    t = blk["term"]
    if t["k"] != "assert" or t["ak"] != "Overflow" or t["op"] != "Add":
        return None
    if r_lo is None or r_hi is None or r_lo < 0 or r_hi > 256:
        return None
    l = t["l"]
    if l["k"] not in ("copy", "move"):
        return None
    ty = l["place"]["ty"]
    if not (ty.get("k") == "int" and ty.get("ptr") and not ty["sg"]):
        return None
    fname, fty = place_field(body, l["place"])
    if fname is None:
        return None
    for b in facts.bodies.values():
        for blk2 in b["blocks"]:
            if blk2["cleanup"]:
                continue
            for st in blk2["stmts"]:
                if st["k"] != "assign":
                    continue
                n2, t2 = place_field(b, st["place"])
                if n2 != fname or t2 != fty:
                    continue
                rv = st["rv"]
                if rv["k"] == "use" and rv["op"]["k"] == "const" and "v" in rv["op"]:
                    continue
                if rv["k"] == "use" and rv["op"]["k"] in ("copy", "move"):
                    src = rv["op"]["place"]
                    if src["proj"] and src["proj"][-1]["k"] == "field" and src["proj"][-1]["i"] == 0 and \
                            _is_checked_inc(b, src["local"], fname):
                        continue
                    if _is_default_call_result(b, src["local"]):
                        continue
                    # a copy of the same counter field of another instance of the type (e.g. `self.f = fresh.f`)
                    if place_field(b, src) == (fname, fty):
                        continue
                if SMALL_WRITES.get(id(st)) is True:
                    continue
                return None
    return "rule U: usize counter `%s` is only ever assigned constants (or values the analysis bounds by 2^32) or incremented by a value in [0,256] (A3)" % fname


def _is_checked_inc(b, local, fname):
    for blk in b["blocks"]:
        for st in blk["stmts"]:
            if st["k"] == "assign" and st["place"]["local"] == local and not st["place"]["proj"]:
                rv = st["rv"]
                if rv["k"] == "binop" and rv["op"] == "AddWithOverflow":
                    l = rv["l"]
                    if l["k"] in ("copy", "move") and place_field(b, l["place"])[0] == fname:
                        return True
    return False


def _is_default_call_result(b, local):
    for blk in b["blocks"]:
        t = blk["term"]
        if t["k"] == "call" and t["dest"]["local"] == local and t.get("callee") and \
                t["callee"]["def"] == "std::default::Default::default":
            return True
    return False


def run_roots(ctx, A, bodies, rid, modular=()):
    A.ip.source_calls = True
    install_write_monitor(A.ip)
    """analyse every root in `bodies`; returns log start index.
    modular: def-path prefixes of roots that, once analysed from arbitrary invariant states, are treated as opaque total
    functions when later roots call them (their obligations are already in the log)."""
    since = len(A.ip.log)
    helpers = ts_helper_names(A)
    n = 0
    done = set()
    outer = A.ip.opaque_fn

    def opaque(callee):
        r = callee.get("resolved") or callee
        if r["def"] in done:
            return True
        return outer(callee) if outer else False
    A.ip.opaque_fn = opaque
    order = sorted(bodies, key=lambda b: (0 if any(b["def"].startswith(m) for m in modular) else 1, b["span"]["file"], b["span"]["line"]))
    for b in order:
        if b["def"] in helpers or not is_root(b):
            continue
        try:
            outs = A.run_fn(b)
            if any(b["def"].startswith(m) for m in modular):
                done.add(b["def"])
            n += 1
            ctx.count(rid + "-ROOTS")
        except (Unsupported, AnchorMissing) as e:
            ctx.violation(rid + "-UNSUPPORTED", b["def"], (b["span"]["file"], b["span"]["line"], b["def"]),
                          "analysis could not handle this root: %s" % e)
    A.ip.opaque_fn = outer
    return since


def check_counter_growth(ctx, A, rid):
    """side condition of the A3 bound on 64-bit counters of stateful objects (join.COUNTER_MAX): on the final object invariants
    every interface method leaves each such leaf either small or equal to one leaf of the pre-state plus at most 2^16"""
    ctx.rule(rid + "-COUNTER", "64-bit unsigned fields of stateful objects grow by at most 2^16 per method call (or are set to a value below "
                               "2^32): with fewer than 2^40 calls per object (A3) they stay below 2^62 and cannot overflow")
    for tname in sorted(A.invs):
        ctx.count(rid + "-COUNTER")
        bad = A.growth.get(tname, [])
        ctx.oblig(not bad)
        for fn, what in bad[:6]:
            b = A.f.bodies.get(fn)
            where = (b["span"]["file"], b["span"]["line"], fn) if b else ("", 0, fn)
            ctx.violation(rid + "-COUNTER", "%s|%s" % (tname, fn), where,
                          "%s: after %s a 64-bit field may have grown by more than 2^16 or in a non-additive way (%s): "
                          "the counter bound assumed by the analysis does not cover it" % (tname, fn.split("::")[-1], "; ".join(what)))


def triage(ctx, A, since, rid, facts, scope_filter=None):
    """turn the interpreter's obligation log into discharged / reviewed / violation"""
    check_counter_growth(ctx, A, rid)
    obls = A.obligations(since)
    by_kind = {}
    for o in obls:
        body = facts.bodies.get(o["fn"])
        if scope_filter and body is not None and not scope_filter(body):
            continue
        k = o["kind"]
        bk = by_kind.setdefault(k, {"total": 0, "discharged": 0, "rule_u": 0, "reviewed": 0, "failed": 0})
        bk["total"] += 1
        ctx.count(rid + "-OBL")
        key = "%s|%s|%s" % (o["fn"], k, o.get("site_key") or "")
        if o["failed"] == 0:
            bk["discharged"] += 1
            ctx.oblig(True, nontrivial=("in [" in (o["detail_ok"] or "")))
            if len(ctx.samples) < 6 and k in ("OVF", "IDX"):
                ctx.sample({"obligation": k, "fn": o["fn"], "line": o["line"], "contexts": o["contexts"],
                            "discharged_with": o["detail_ok"]})
            continue
        why = None
        if k == "OVF" and body is not None and o["bb"] is not None:
            why = rule_u(facts, body, o["bb"], o.get("r_lo"), o.get("r_hi"))
        if why:
            bk["rule_u"] += 1
            ctx.oblig(True)
            ctx.sample({"obligation": k, "fn": o["fn"], "line": o["line"], "accepted_by": why})
            continue
        rv = ctx.is_reviewed(rid + "-" + k, "%s|%s" % (o["fn"], o["site"]))
        if not rv:
            # the reviewed site may have been moved into a private helper that only the reviewed function calls: the review is
            # about that function's documented contract, wherever its body is written
            own = sole_owner(facts, o["fn"])
            if own is not None:
                rv = ctx.is_reviewed(rid + "-" + k, "%s|%s" % (own, o["site"]))
        if rv:
            bk["reviewed"] += 1
            ctx.oblig(True)
            continue
        bk["failed"] += 1
        ctx.oblig(False)
        ctx.violation(rid + "-" + k, "%s|%s" % (o["fn"], o["site"]), (o["file"], o["line"], o["fn"]),
                      "%s obligation not discharged in %d of %d contexts: %s" % (k, o["failed"], o["contexts"], o["detail_fail"]),
                      {"site": o["site"], "instances": sorted(o["insts"])[:5]})
    return by_kind


_CALLERS = {}


def sole_owner(F, d, depth=0):
    """the single non-private function from which the private function d is (transitively) exclusively called, else None"""
    key = id(F)
    if key not in _CALLERS:
        cs = {}
        for b in F.bodies.values():
            for blk in b["blocks"]:
                t = blk["term"]
                if t["k"] == "call" and t.get("callee"):
                    for nm in callee_names(t):
                        if nm in F.bodies:
                            cs.setdefault(nm, set()).add(b["def"])
        _CALLERS[key] = cs
    b = F.bodies.get(d)
    if b is None or depth > 4:
        return None
    if b.get("kind") == "Closure":
        parent = b.get("closure_of")
        return sole_owner(F, parent, depth + 1) or parent
    if b["vis"] == "pub" or b.get("impl_trait"):
        return None
    callers = _CALLERS[key].get(d, set()) - {d}
    owners = set()
    for c in callers:
        cb = F.bodies[c]
        if cb["vis"] == "pub" or cb.get("impl_trait"):
            owners.add(c)
        else:
            o2 = sole_owner(F, c, depth + 1)
            if o2 is None:
                return None
            owners.add(o2)
    return owners.pop() if len(owners) == 1 else None


def static_reach(F, root_defs, ip=None):
    """defs reachable in the instance-level static call graph from root_defs.  Calls are resolved the way the analyser's
    dispatch resolves them (rustc's resolution, then impl lookup once the caller's type arguments make the receiver
    concrete); a trait-method call whose receiver stays abstract reaches every impl of that method.  Closures of a reached
    body and function items mentioned as constants are reached too."""
    from ..vra.types import subst
    from ..vra.interp import subst_garg
    impls = {}
    for b in F.bodies.values():
        if b.get("impl_trait") and b.get("name"):
            impls.setdefault((b["impl_trait"], b["name"]), []).append(b["def"])
    if ip is not None and ip.impl_index is None:
        ip.build_impl_index()

    def consts(x, out):
        if isinstance(x, dict):
            t = x.get("ty")
            if x.get("k") == "const" and isinstance(t, dict) and t.get("k") == "fndef" and t.get("def") in F.bodies:
                out.append((t["def"], t.get("args", [])))
            for v in x.values():
                consts(v, out)
        elif isinstance(x, list):
            for v in x:
                consts(v, out)

    def ekey(d, env):
        from ..vra.types import ty_str
        return d + "{" + ",".join("%s=%s" % (k, ty_str(v) if isinstance(v, dict) else v) for k, v in sorted(env.items())) + "}"

    reach = set()
    seen = set()
    todo = [(d, {}) for d in root_defs]
    steps = 0
    while todo:
        d, env = todo.pop()
        k = ekey(d, env)
        if k in seen or d not in F.bodies:
            continue
        seen.add(k)
        reach.add(d)
        steps += 1
        if steps > 20000:
            return None
        b = F.bodies[d]
        for blk in b["blocks"]:
            t = blk["term"]
            if t["k"] != "call":
                continue
            c = t.get("callee") or {}
            if not c or "ctor_adt" in c:
                continue
            res = c.get("resolved")
            if res and res.get("local") and res["def"] in F.bodies and res.get("ik") == "item":
                body2 = F.bodies[res["def"]]
                todo.append((res["def"], ip.env_for(body2, res["args"], env) if ip is not None else {}))
                continue
            if "trait" in c and "self_ty" in c:
                hit = None
                if ip is not None:
                    sty = subst(c["self_ty"], env)
                    if c["trait"] in ip.impl_index and sty.get("k") not in ("param", "alias", "other", "deep"):
                        targs = [subst_garg(a_, env) for a_ in c["args"][1:]]
                        hit = ip.find_impl_method(c["trait"], c["method"], sty, targs)
                        if hit is not None:
                            todo.append((hit[0]["def"], hit[1]))
                            continue
                        if c["trait"] in F.traits:
                            continue       # concrete receiver without a local impl of a local trait: no local target
                for d2 in impls.get((c["trait"], c["method"]), ()):
                    todo.append((d2, {}))
                continue
            if c.get("local") and c.get("def") in F.bodies:
                body2 = F.bodies[c["def"]]
                todo.append((c["def"], ip.env_for(body2, c["args"], env) if ip is not None else {}))
        cs = []
        consts(b["blocks"], cs)
        for d2, args in cs:
            todo.append((d2, ip.env_for(F.bodies[d2], args, env) if ip is not None else {}))
        pre = d + "::{closure"
        for d2 in F.bodies:
            if d2.startswith(pre):
                todo.append((d2, env))
    return reach


def check_visited(ctx, A, bodies, rid, F=None, roots=None):
    """in-scope bodies the analysis did not enter.  With F and roots given, bodies that are not even statically reachable
    from the roots (dead code: no caller at all, e.g. after a refactoring) are not reported: nothing the API can do runs them."""
    names = set()
    for k in A.ip.visited:
        names.add(k.split("{")[0] if not k.startswith("<") else k)
    vis = set()
    for k in A.ip.visited:
        # instance keys are "<def>{env}"; the def itself may contain braces only in closures "{closure#0}"
        vis.add(k)
    visited_defs = set()
    for b in bodies:
        d = b["def"]
        if any(k == d or k.startswith(d + "{") for k in vis):
            visited_defs.add(d)
    missing = []
    reach = static_reach(F, roots, A.ip) if F is not None and roots is not None else None
    dead = []
    for b in bodies:
        if b["def"] in visited_defs:
            ctx.count(rid + "-VISITED")
        elif reach is not None and b["def"] not in reach:
            dead.append(b["def"])
        else:
            missing.append(b)
    if dead:
        ctx.cov.setdefault("statically_unreachable_bodies", sorted(set(dead)))
    return missing


def loop_certificates(ctx, A, bodies, rid, since=0):
    """every natural loop of every in-scope body needs a termination certificate"""
    obs = {}
    for o in A.observations("loop", since):
        obs.setdefault((o["fn"], o["head"]), []).append(o)
    res = []
    for b in bodies:
        cfg = CFG(b)
        for head, lbody in cfg.loops().items():
            if head not in cfg.reach:
                continue
            ctx.count(rid + "-LOOPS")
            cert = structural_loop_cert(cfg, head, lbody)
            os_ = obs.get((b["def"], head), [])
            modes = sorted(set(o["mode"] for o in os_))
            measures = sorted(set(str(o.get("measure")) for o in os_ if o["mode"] == "fixpoint"))
            ok = False
            why = []
            if cert:
                ok = True
                why.append(cert)
            if os_ and all(o["mode"] == "unrolled" for o in os_):
                ok = True
                why.append("U: every abstract path leaves the loop within the unroll bound in all %d analysed contexts" % len(os_))
            if any(o["mode"] == "fixpoint" for o in os_) and \
                    all(o["mode"] == "unrolled" or (o.get("measure") or "").endswith("shrinks")
                        or o.get("measure") == "no-back-edge" for o in os_) and \
                    any((o.get("measure") or "").endswith("shrinks") for o in os_):
                ok = True
                why.append("L3: a slice strictly shrinks on every back edge (%s)" % ",".join(measures))
            if any(o["mode"] == "fixpoint" for o in os_) and \
                    all(o["mode"] == "unrolled" or o.get("measure") in ("source-item-consumed", "no-back-edge") for o in os_) and \
                    any(o.get("measure") == "source-item-consumed" for o in os_):
                ok = True
                why.append("L4: every back edge has taken an item from a caller-supplied source, and no path on which the source "
                           "reported exhaustion returns to the loop head (A4: the source eventually ends)")
            if not os_:
                ok = False
                why.append("loop never reached by the analysis")
            res.append({"fn": b["def"], "head": head, "line": b["blocks"][head]["tspan"]["line"], "ok": ok,
                        "certificates": why, "modes": modes})
            ctx.oblig(ok)
            if not ok:
                ctx.violation(rid + "-LOOP", "%s|loop@%s" % (b["def"], _loop_desc(b, cfg, head, lbody)),
                              (b["span"]["file"], b["blocks"][head]["tspan"]["line"], b["def"]),
                              "no termination certificate for loop at bb%d: %s" % (head, "; ".join(why) or "none"))
    return res


def _loop_desc(b, cfg, head, lbody):
    calls = []
    for n in sorted(lbody):
        t = b["blocks"][n]["term"]
        if t["k"] == "call" and t.get("callee"):
            calls.append(t["callee"]["def"].split("::")[-1])
    return ",".join(calls[:4])


def structural_loop_cert(cfg, head, lbody):
    """L1/L2: some call to an item source lies on every cycle through the head, and its
    exhausted-edge leaves the loop"""
    b = cfg.body
    for n in sorted(lbody):
        t = b["blocks"][n]["term"]
        if t["k"] != "call":
            continue
        names = callee_names(t)
        kind = None
        if any(x in L1_SOURCES for x in names):
            kind = "L1"
        elif any(x in L2_SOURCES for x in names):
            kind = "L2"
        if kind is None:
            continue
        # every cycle passes n: head not reachable from head's successors when n is removed
        cyc = False
        for s in cfg.succ[head]:
            if s in lbody and head in cfg.reachable_from(s, avoid={n}) and s != n:
                cyc = True
        if head == n:
            cyc = False
        if cyc:
            continue
        # exhausted edge: the switch on the call result; the None (0) / Err (1) target leaves the loop
        tgt = t.get("target")
        sw = None
        cur = tgt
        for _ in range(4):
            if cur is None:
                break
            tt = b["blocks"][cur]["term"]
            if tt["k"] == "switch":
                sw = tt
                break
            if tt["k"] == "goto":
                cur = tt["target"]
            else:
                break
        if sw is None:
            continue
        exhausted = 0 if ("Iterator::next" in names[0] or names[0].endswith("::next")) else 1
        ex_t = [bbx for v, bbx in sw["targets"] if v == exhausted]
        if not ex_t:
            continue
        if head in cfg.reachable_from(ex_t[0]) and ex_t[0] in lbody:
            # exhausted edge stays in the loop
            continue
        return "%s: one item of %s consumed on every cycle; the exhausted edge (bb%d) leaves the loop" % (
            kind, names[-1].split("::")[-1] if kind == "L1" else names[0], ex_t[0])
    return None


def recursion_sites(facts, bodies):
    """direct/mutual recursion among bodies (resolved local callees)"""
    names = {b["def"] for b in bodies}
    graph = {}
    for b in bodies:
        outs = set()
        for blk in b["blocks"]:
            t = blk["term"]
            if blk["cleanup"] or t["k"] != "call" or not t.get("callee"):
                continue
            for nm in callee_names(t):
                if nm in names:
                    outs.add(nm)
        graph[b["def"]] = outs
    # SCCs (Tarjan)
    idx, low, onst, st, sccs = {}, {}, set(), [], []
    counter = [0]

    def sc(v):
        idx[v] = low[v] = counter[0]
        counter[0] += 1
        st.append(v)
        onst.add(v)
        for w in graph.get(v, ()):
            if w not in idx:
                sc(w)
                low[v] = min(low[v], low[w])
            elif w in onst:
                low[v] = min(low[v], idx[w])
        if low[v] == idx[v]:
            comp = []
            while True:
                w = st.pop()
                onst.discard(w)
                comp.append(w)
                if w == v:
                    break
            if len(comp) > 1 or v in graph.get(v, ()):
                sccs.append(sorted(comp))
    for v in graph:
        if v not in idx:
            sc(v)
    return sccs


PANIC_FNS = ("core::panicking::panic", "core::panicking::panic_fmt", "core::panicking::assert_failed",
             "core::panicking::unreachable_display", "core::panicking::panic_nounwind", "core::panicking::panic_bounds_check",
             "std::rt::begin_panic", "core::panicking::panic_explicit", "core::option::unwrap_failed",
             "core::result::unwrap_failed", "core::option::expect_failed")


def static_panic_sites(ctx, A, bodies, rid, since=0):
    """enumerate every Assert terminator and every call of a panicking function in the in-scope bodies
    (independently of what the interpreter reached) and report those no analysed path reaches as
    discharged-by-unreachability; a site that was reached is already in the obligation log"""
    logged = set()
    failed = set()
    for r in A.ip.log[since:]:
        if r["t"] == "obl":
            logged.add((r["fn"], r["bb"]))
    res = {"asserts": 0, "panic_calls": 0, "never_reached": 0, "samples": []}
    for b in bodies:
        cfg = CFG(b)
        for blk in b["blocks"]:
            if blk["cleanup"] or blk["idx"] not in cfg.reach:
                continue
            t = blk["term"]
            site = None
            if t["k"] == "assert":
                res["asserts"] += 1
                site = "assert " + t["ak"]
            elif t["k"] == "call" and any(n in PANIC_FNS for n in callee_names(t)):
                res["panic_calls"] += 1
                site = "call " + callee_names(t)[-1]
            if site is None:
                continue
            ctx.count(rid + "-SITES")
            if (b["def"], blk["idx"]) not in logged:
                res["never_reached"] += 1
                ctx.oblig(True)
                if len(res["samples"]) < 6:
                    res["samples"].append({"fn": b["def"], "line": blk["tspan"]["line"], "site": site,
                                           "status": "no abstract path reaches this block under the inferred invariants"})
    return res


CLIPPY_LINTS = ("arithmetic_side_effects", "indexing_slicing", "unwrap_used", "expect_used", "panic", "unreachable")


def clippy_crossref(ctx, A, bodies, rid, since, files):
    """thorough tier: every site that the never-enabled clippy restriction lints flag as a potential panic must map
    to at least one enumerated obligation / panic site of this check (completeness cross-reference of the MIR
    enumeration -- clippy gives no verdict on any of them)"""
    import json as _json
    import os
    import shutil
    import subprocess
    import tempfile
    from ..build import REPO
    tdir = tempfile.mkdtemp(prefix="clippy-target-")
    try:
        cmd = ["cargo", "+nightly", "clippy", "--offline", "--all-features", "-p", "sml-rs", "--lib", "--message-format=json", "--",
               "-A", "clippy::all"] + [x for l in CLIPPY_LINTS for x in ("-W", "clippy::" + l)]
        env = dict(os.environ, CARGO_TARGET_DIR=tdir, CARGO_NET_OFFLINE="true")
        r = subprocess.run(cmd, cwd=REPO, env=env, stdout=subprocess.PIPE, stderr=subprocess.PIPE, text=True)
    finally:
        shutil.rmtree(tdir, ignore_errors=True)
    sites = []
    for line in r.stdout.splitlines():
        try:
            m = _json.loads(line)
        except ValueError:
            continue
        msg = m.get("message") or {}
        code = (msg.get("code") or {}).get("code") or ""
        if not code.startswith("clippy::") or code.split("::")[1] not in CLIPPY_LINTS:
            continue
        for sp in msg.get("spans", []):
            if sp.get("is_primary") and any(sp["file_name"].startswith(f) for f in files):
                sites.append((sp["file_name"], sp["line_start"], sp["line_end"], code))
    known = set()
    for rec in A.ip.log[since:]:
        if rec.get("t") == "obl":
            known.add((rec["file"], rec["line"]))
    for S in A.ip.summaries.values():
        for rec in S.records:
            if rec.get("t") == "obl":
                known.add((rec["file"], rec["line"]))
        for L in S.lifted:
            known.add((L["rec"]["file"], L["rec"]["line"]))
    for b in bodies:
        for blk in b["blocks"]:
            t = blk["term"]
            if not blk["cleanup"] and (t["k"] == "assert" or (t["k"] == "call" and any(n in PANIC_FNS for n in callee_names(t)))):
                known.add((blk["tspan"]["file"], blk["tspan"]["line"]))
                if "cs_file" in blk["tspan"]:
                    known.add((blk["tspan"]["cs_file"], blk["tspan"]["cs_line"]))
    unmapped = []
    for (f, l0, l1, code) in sites:
        ctx.count(rid + "-CLIPPY")
        if not any((f, l) in known for l in range(l0, l1 + 1)):
            unmapped.append((f, l0, code))
    for (f, l, code) in unmapped:
        ctx.violation(rid + "-CLIPPY", "%s|%s" % (f, code), (f, l, ""),
                      "clippy (%s) flags a potential panic site at %s:%d that maps to no enumerated obligation of this check" % (code, f, l))
    if r.returncode != 0 and not sites:
        ctx.violation(rid + "-CLIPPY", "run", ("", 0, ""), "cargo clippy failed: " + r.stderr[-300:])
    return {"clippy_sites": len(sites), "unmapped": unmapped}

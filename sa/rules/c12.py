"""C12 Type-length fields and primitive values are decoded exactly or rejected."""
from ..common import ASSUMPTIONS
from ..engine import AnchorMissing
from ..cfg import CFG, callee_names
from ..lin import Lin
from ..trace import Tracer, trace_of
from ..vra.interp import Unsupported
from ..vra.state import Infeasible
from ..vra.values import *
from ..vra.stdsum import split_enum
from ..vra.types import INT_TYS
from .grammar import *
from . import c03

SP = "parser::SmlParse"
SPT = "parser::SmlParseTlf"
TLFE = "parser::tlf::TlfParseError"
PRIM_FILES = ("src/parser/tlf.rs", "src/parser/num.rs", "src/parser/octet_string.rs")


def slice_ty():
    return {"k": "ref", "mut": False, "to": {"k": "slice", "of": INT_TYS["u8"], "s": "[u8]"}, "s": "&[u8]"}


def run(ctx):
    ctx.rule("R-C12-EXACT", "no operation in the TLF / number / octet-string parsers loses bits of a decoded value (no truncating shift, wrap or "
                            "narrowing cast whose operand range does not provably fit); every TlfParseError variant that exists is reachable")
    ctx.rule("R-C12-SUB", "the field's own size is subtracted exactly for non-list types, through a checked subtraction whose failure is an "
                          "error, and the subtrahend equals the number of TLF bytes consumed")
    ctx.rule("R-C12-TY", "type table {0:octet,4:bool,5:int,6:unsigned,7:list, else error}; byte decomposition len=b&0x0f, ty=(b>>4)&7, more=b&0x80; "
                         "continuation bytes with type bits and multi-byte booleans are rejected")
    ctx.rule("R-C12-INT", "integers: exactly `len` bytes are taken, copied right-aligned into [SIZE-len, SIZE), the fill byte is 0xff exactly for "
                          "a signed value whose first byte is >= 0x80 and 0x00 otherwise, and the conversion is from_be_bytes of the same type")
    ctx.rule("R-C12-PRIM", "take_byte / take_n / take return exactly the designated prefix and rest or UnexpectedEOF; bool = (byte != 0); "
                           "octet string = exactly `len` bytes after the TLF")
    F = ctx.facts("all")
    A = ctx.analysis("all")
    try:
        run_rules(ctx, F, A)
    except (AnchorMissing, Unsupported, KeyError) as e:
        ctx.violation("ANCHOR-MISSING", "primitives", ("", 0, ""), "%s: %s" % (type(e).__name__, e))
    ctx.assumptions = [ASSUMPTIONS[k] for k in ("A1", "A2", "A3")]
    try:
        # "in the narrowest standard width holding its encoded size", "booleans": the width dispatch of C03
        from . import c03
        from .grammar import Extractor, SPEC_VALUE_TYPES, SPEC_STATUS_TYPES
        ctx.rule("R-C03-WIDTH", "(shared with C03) per (type, length) class of the TLF: parsed by the narrowest specified type whose acceptance box contains "
                                "the class, bound into that type's variant; every other class is TlfMismatch")
        X = Extractor(A, F)
        c03.check_dispatch(ctx, F, A, X, "parser::common::Value", SPEC_VALUE_TYPES)
        c03.check_dispatch(ctx, F, A, X, "parser::common::Status", SPEC_STATUS_TYPES)
    except (AnchorMissing, Unsupported, KeyError) as e:
        ctx.violation("ANCHOR-MISSING", "dispatch", ("", 0, ""), "%s: %s" % (type(e).__name__, e))
    ctx.explanation = (
        "TLF and primitive decoding decided structurally on the real bodies by value-range analysis: every arithmetic step on a decoded "
        "length must be value-exact or fail into an error (lossy operations are detected by operand ranges, not by syntax), all error "
        "variants must be reachable, the own-size subtraction is tied to the consumed-byte count by an inferred linear relation, the "
        "type table and byte decomposition are compared exhaustively over the 256 byte values by constant propagation, and integer "
        "decoding is decided through the three structural facts right-aligned copy / sign fill / big-endian conversion.")


def run_rules(ctx, F, A):
    ip = A.ip
    tlf_parse = find_impl_body(F, SP, "parse", "parser::tlf::TypeLengthField")
    where_tlf = (tlf_parse["span"]["file"], tlf_parse["span"]["line"], tlf_parse["def"])
    tfn = [f["name"] for f in F.adts[c03.TLF]["variants"][0]["fields"]]
    v_list = c03.ty_variant(F, "ListOf")
    v_bool = c03.ty_variant(F, "Boolean")
    # ------------------------------------------------------------ TLF::parse, path sensitive with call trace
    since = len(ip.log)
    old_sum = ip.summarizable
    ip.summarizable = None
    # Specification-side ghost accumulator, independent of how the parser keeps its own state: every innermost parser call
    # (a crate function slice -> Result<(rest, _), _> that itself calls no such function) that consumes exactly one byte b
    # contributes G' = 16 * G + (b & 15); CNT counts these bytes.  Both live in the abstract memory, so loop joins relate
    # them to the parser's own variables.
    from .grammar import is_parser_sig, is_parser_fn
    from ..vra.stdsum import slice_elem
    G_ACC, G_CNT = ("G", "c12-acc"), ("G", "c12-cnt")

    def leaf_candidate(callee):
        return is_parser_fn(F, callee) and is_parser_sig(F, callee) and (callee.get("method") != "check_tlf")

    def on_call(ip_, frame, bb, t, st, callee, args_):
        if G_ACC not in st.mem or not leaf_candidate(callee):
            return
        stack = st.ghost.get("c12-stack", ())
        if stack:
            stack = stack[:-1] + (True,)
        st.ghost["c12-stack"] = stack + (False,)

    def on_res(ip_, frame, bb, t, callee, args_, outs_):
        if not leaf_candidate(callee):
            return
        for (s2, rv) in outs_:
            if G_ACC not in s2.mem:
                continue
            stack = s2.ghost.get("c12-stack")
            if not stack:
                s2.ghost["c12-acc-lost"] = 1
                continue
            nested = stack[-1]
            s2.ghost["c12-stack"] = stack[:-1]
            if nested or not (isinstance(rv, VEnum) and s2.const_of(rv.disc) == 0):
                continue
            okp_ = ok_payload(ip_, s2, rv)
            src = [x for x in args_ if isinstance(x, VSlice)]
            if okp_ is None or not src or not isinstance(okp_[0], VSlice):
                s2.ghost["c12-acc-lost"] = 1
                continue
            rest_, src = okp_[0], src[0]
            if not (rest_.root == src.root and s2.prove_eq0(rest_.start - src.start - 1)):
                s2.ghost["c12-acc-lost"] = 1
                continue
            byte = slice_elem(ip_, s2, src, Lin.const(0))
            if not isinstance(byte, VInt):
                s2.ghost["c12-acc-lost"] = 1
                continue
            nib = ip_.fresh_int(s2, 8, False, "and", ("and", byte.lin, 15), 0, 15).lin
            acc, cnt = s2.mem[G_ACC].lin, s2.mem[G_CNT].lin
            s2.mem[G_ACC] = VInt(acc.scale(16) + nib, 128, False)
            s2.mem[G_CNT] = VInt(cnt + 1, 64, False)
    ip.on_call.append(on_call)
    ip.on_call_result.append(on_res)
    try:
        with Tracer(A, select=lambda key, callee: True):
            st = ip.new_state()
            st.mem[G_ACC] = cint(0, 128, False)
            st.mem[G_CNT] = cint(0, 64, False)
            args = ip.fresh_args(tlf_parse, {}, st)
            inp = args[0]
            outs = ip.run_root(tlf_parse, {}, args, st)
    finally:
        ip.on_call.remove(on_call)
        ip.on_call_result.remove(on_res)
    ip.summarizable = old_sum
    ctx.rule("R-C12-ACC", "on every successful path the returned length equals the base-16 number formed by the low nibbles of all consumed "
                          "bytes (ghost accumulator G' = 16*G + (byte & 15) per consumed byte), minus the consumed byte count unless the type is a list")
    ctx.rule("R-C12-REJECT", "the TLF parser refuses a field only for a reason the rule prescribes: overflow only when the concatenated groups "
                             "exceed 32 bits, underflow only when the value is below the field's own size, end of input only when no byte is left")
    errs = set()
    n_ok = 0
    n_unattributed = 0
    # byte attribution (ghost CNT) is reliable only if it accounts for every consumed byte on every successful path; otherwise
    # (e.g. the parser indexes the input directly instead of calling single-byte helpers) the rejection rule has nothing to stand on
    attribution_ok = True
    for (s2, rv) in outs:
        okp0 = ok_payload(ip, s2, rv)
        if okp0 is not None:
            cnt0 = s2.mem.get(G_CNT)
            if s2.ghost.get("c12-acc-lost") or cnt0 is None or not isinstance(okp0[0], VSlice) or okp0[0].root != inp.root \
                    or not s2.prove_eq0(cnt0.lin - (okp0[0].start - inp.start)):
                attribution_ok = False
    ctx.cov["tlf_byte_attribution"] = attribution_ok
    for (s2, rv) in outs:
        okp = ok_payload(ip, s2, rv)
        if okp is None:
            ev = err_variant(F, s2, rv)
            if ev == "InvalidTlf":
                e = rv.pay[1][0].pay[s2.const_of(rv.pay[1][0].disc)][0]
                ev = F.adts[TLFE]["variants"][s2.const_of(e.disc)]["name"]
            errs.add(ev)
            # ---- every rejection must be justified by the value the field denotes (completeness: nothing well-formed is refused)
            acc, cnt = s2.mem.get(G_ACC), s2.mem.get(G_CNT)
            if not attribution_ok or s2.ghost.get("c12-acc-lost") or acc is None or cnt is None:
                n_unattributed += 1
                continue
            why = None
            if ev == "TlfLengthOverflow":
                # the accumulated value does not fit 32 bits (now, or with the group that must follow), or 2^32-1 bytes were consumed
                if not (s2.prove_ge0(acc.lin - (1 << 28)) or s2.prove_ge0(cnt.lin - ((1 << 32) - 1))):
                    why = "TlfLengthOverflow is reported although the concatenated length groups may still fit 32 bits (accumulated %s after %s bytes)" % (
                        s2.describe(acc.lin), s2.describe(cnt.lin))
            elif ev == "TlfLengthUnderflow":
                if not s2.prove_ge0(cnt.lin - acc.lin - 1):
                    why = "TlfLengthUnderflow is reported although the length may be at least the field's own size (accumulated %s, consumed %s)" % (
                        s2.describe(acc.lin), s2.describe(cnt.lin))
            elif ev == "UnexpectedEOF":
                if not s2.prove_eq0(inp.n - cnt.lin):
                    why = "UnexpectedEOF is reported although input bytes may remain (input length %s, consumed %s)" % (s2.describe(inp.n), s2.describe(cnt.lin))
            if ev in ("TlfLengthOverflow", "TlfLengthUnderflow", "UnexpectedEOF"):
                ctx.count("R-C12-REJECT")
                ctx.oblig(why is None)
                if why:
                    ctx.violation("R-C12-REJECT", ev, where_tlf, why)
            continue
        n_ok += 1
        rest, tlf = okp
        tyv = s2.const_of(tlf.elems[tfn.index("ty")].disc)
        ln = tlf.elems[tfn.index("len")].lin
        consumed = rest.start - inp.start
        acc, cnt = s2.mem.get(G_ACC), s2.mem.get(G_CNT)
        lost = s2.ghost.get("c12-acc-lost") or acc is None or cnt is None or rest.root != inp.root or not s2.prove_eq0(cnt.lin - consumed)
        ctx.count("R-C12-ACC")
        if lost:
            # the consumed bytes could not be attributed to single-byte parser calls: fall back to the closed form on exact paths
            k = s2.const_of(consumed)
            spec = None
            if k is not None and 1 <= k <= 16 and rest.root == inp.root:
                spec = Lin.const(0)
                for i in range(k):
                    bv = slice_elem(ip, s2, inp, Lin.const(i))
                    if not isinstance(bv, VInt):
                        spec = None
                        break
                    spec = spec.scale(16) + ip.fresh_int(s2, 8, False, "and", ("and", bv.lin, 15), 0, 15).lin
            if spec is None:
                n_unattributed += 1
                continue
            accl = spec
        else:
            accl = acc.lin
        if tyv == v_list:
            ok = s2.prove_eq0(ln - accl)
            msg = "for the list type the returned length must be the accumulated nibbles (returned %s, accumulated %s)" % (s2.describe(ln), s2.describe(accl))
            rid = "R-C12-ACC"
        else:
            ok = s2.prove_eq0(ln + consumed - accl)
            rid = "R-C12-SUB" if s2.prove_eq0(ln - accl) or not s2.prove_ge0(accl - ln - 1) else "R-C12-ACC"
            msg = "for non-list types the returned length must be (accumulated nibbles - number of TLF bytes consumed) " \
                  "(returned %s, accumulated %s, consumed %s)" % (s2.describe(ln), s2.describe(accl), s2.describe(consumed))
        ctx.count("R-C12-SUB")
        ctx.oblig(ok)
        if not ok:
            ctx.violation(rid, "ty=%s" % tyv, where_tlf, msg)
    ctx.cov["tlf_paths_without_byte_attribution"] = n_unattributed
    if n_ok < 2:
        ctx.violation("BELOW-FLOOR", "R-C12-SUB", where_tlf, "fewer than 2 success paths of the TLF parser")
    # lossy operations anywhere in the primitive parsers
    for o in A.observations("lossy", since):
        b = F.bodies.get(o["fn"])
        if b is not None and b["span"]["file"] in PRIM_FILES:
            ctx.violation("R-C12-EXACT", "%s|%s" % (o["fn"], o["what"]), (b["span"]["file"], b["span"]["line"], o["fn"]),
                          "a decoded value passes through a lossy operation (%s of %s): bits can be dropped without an error" % (o["what"], o["detail"]))
    ctx.count("R-C12-EXACT")
    ctx.oblig(True)
    # undischarged overflow inside the TLF parser = a wrapped length
    for o in A.obligations(since):
        if o["failed"] and o["kind"] in ("OVF",) and F.bodies.get(o["fn"], {"span": {"file": ""}})["span"]["file"] in PRIM_FILES:
            ctx.violation("R-C12-EXACT", "%s|%s" % (o["fn"], o["site"]), (o["file"], o["line"], o["fn"]),
                          "arithmetic on a decoded length can overflow: " + (o["detail_fail"] or ""))
    # DEAD-ERR: every constructed TlfParseError variant is reachable
    constructed = set()
    for b in F.bodies.values():
        if b.get("auto_derived") or "_::" in b["def"]:
            continue
        for blk in b["blocks"]:
            for stt in blk["stmts"]:
                if stt["k"] == "assign" and stt["rv"]["k"] == "aggregate" and stt["rv"].get("def") == TLFE:
                    constructed.add(stt["rv"]["variant_name"])
    ctx.count("R-C12-EXACT", len(constructed))
    ctx.sample({"tlf_error_variants_reachable": sorted(errs), "constructed": sorted(constructed)})
    for v in sorted(constructed):
        ok = v in errs
        ctx.oblig(ok)
        if not ok:
            ctx.violation("R-C12-EXACT", "dead-error|" + v, where_tlf,
                          "TlfParseError::%s is constructed but no input reaches it: the check guarding it can never fail (stated belief "
                          "contradicts the code, e.g. an overflow test that cannot detect overflow)" % v)
    for must in ("TlfLengthOverflow", "TlfLengthUnderflow", "TlfReserved", "TlfNextByteTypeMismatch", "TlfInvalidTy", "UnexpectedEOF"):
        if must not in errs:
            ctx.violation("R-C12-EXACT", "missing-error|" + must, where_tlf, "the TLF parser has no path reporting %s" % must)
    # ------------------------------------------------------------ type table and byte decomposition, through the TLF parser itself:
    # every one-byte input and every (list/octet-string) two-byte input is evaluated concretely and compared with the SML rule
    # (type = bits 4-6, length nibble = bits 0-3, continuation = bit 7; continuation bytes must have type bits 000)
    tyadt = F.adts[c03.TY]
    tyname = {v["idx"]: v["name"] for v in tyadt["variants"]}

    def run_tlf(bs):
        st0 = ip.new_state()
        root0 = ip.new_oid("bytes")
        st0.mem[root0] = VArr([cint(x, 8, False) for x in bs])
        r = ip.run_root(tlf_parse, {}, [VSlice(root0, (), Lin.const(0), Lin.const(len(bs)), False)], st0)
        res = set()
        for s2, rv in r:
            okp_ = ok_payload(ip, s2, rv)
            if okp_ is None:
                ev_ = err_variant(F, s2, rv)
                if ev_ == "InvalidTlf":
                    e_ = rv.pay[1][0].pay[s2.const_of(rv.pay[1][0].disc)][0]
                    ev_ = F.adts[TLFE]["variants"][s2.const_of(e_.disc)]["name"]
                res.add(("Err", ev_))
                continue
            rest_, t_ = okp_
            res.add(("Ok", tyname.get(s2.const_of(t_.elems[tfn.index("ty")].disc)), s2.const_of(t_.elems[tfn.index("len")].lin),
                     s2.const_of(rest_.start), s2.const_of(rest_.n)))
        if len(res) != 1:
            return ("outcomes", tuple(sorted(res, key=str)))
        return res.pop()

    def spec_tlf(bs):
        b0 = bs[0]
        ty = TY_TABLE.get((b0 >> 4) & 7)
        if ty is None:
            return ("Err", "TlfInvalidTy")
        acc, k = b0 & 15, 1
        more = bool(b0 & 0x80)
        if more and ty == "Boolean":
            return ("Err", "TlfReserved")
        while more:
            if k >= len(bs):
                return ("Err", "UnexpectedEOF")
            bk = bs[k]
            if (bk >> 4) & 7:
                return ("Err", "TlfNextByteTypeMismatch")
            acc, k, more = acc * 16 + (bk & 15), k + 1, bool(bk & 0x80)
        if ty != "ListOf":
            if acc < k:
                return ("Err", "TlfLengthUnderflow")
            acc -= k
        return ("Ok", ty, acc, k, len(bs) - k)
    old_sum2 = ip.summarizable
    ip.summarizable = None
    old_nu = ip._no_unroll
    ip._no_unroll = set()          # concrete inputs: loops are unrolled, not summarised
    try:
        bad = []
        for v in range(256):
            got, want = run_tlf([v]), spec_tlf([v])
            if got != want:
                bad.append(((v,), got, want))
        ctx.count("R-C12-TY", 256)
        ctx.obligations += 256
        ctx.discharged += 256 - len(bad)
        if bad:
            ctx.violation("R-C12-TY", "first-byte|%s" % ",".join("%02x" % b_[0][0] for b_ in bad[:4]), where_tlf,
                          "one-byte input: type table / length nibble / continuation bit differ from the SML rule at %r" % (bad[:4],))
        bad = []
        n2 = 0
        for b0 in (0x80, 0x82, 0xf0, 0xf1, 0xd2, 0xe3):
            for v in range(256):
                n2 += 1
                got, want = run_tlf([b0, v]), spec_tlf([b0, v])
                if got != want:
                    bad.append(((b0, v), got, want))
        ctx.count("R-C12-TY", n2)
        ctx.obligations += n2
        ctx.discharged += n2 - len(bad)
        if bad:
            ctx.violation("R-C12-TY", "next-byte|%s" % ",".join("%02x%02x" % b_[0] for b_ in bad[:4]), where_tlf,
                          "two-byte input: continuation bytes must be accepted exactly when their type bits are 000 and contribute their low nibble "
                          "(differs at %r)" % (bad[:4],))
    finally:
        ip.summarizable = old_sum2
        ip._no_unroll = old_nu
    ctx.count("R-C12-TY")
    ok = "TlfReserved" in errs
    # boolean + continuation must be rejected: no Ok outcome with ty == Boolean that consumed more than one byte
    for (s2, rv) in outs:
        okp = ok_payload(ip, s2, rv)
        if okp and s2.const_of(okp[1].elems[tfn.index("ty")].disc) == v_bool and not s2.prove_eq0(okp[0].start - inp.start - 1):
            ok = False
    ctx.oblig(ok)
    if not ok:
        ctx.violation("R-C12-TY", "bool-multibyte", where_tlf, "a Boolean TLF with continuation bytes must be rejected (TlfReserved)")
    # ------------------------------------------------------------ take_* primitives
    check_takes(ctx, F, A)
    # ------------------------------------------------------------ integers
    check_ints(ctx, F, A)
    # ------------------------------------------------------------ bool / octet string
    check_bool_octet(ctx, F, A, tfn)


def check_takes(ctx, F, A):
    ip = A.ip
    tn = F.one("parser::take_n")
    where = (tn["span"]["file"], tn["span"]["line"], tn["def"])
    st = ip.new_state()
    args = ip.fresh_args(tn, {}, st)
    inp, n = args
    good = True
    cnt = 0
    for (s2, rv) in ip.run_root(tn, {}, args, st):
        c = s2.const_of(rv.disc)
        cnt += 1
        if c == 0:
            rest, pre = rv.pay[0][0].elems
            if not (rest.root == inp.root and pre.root == inp.root and s2.prove_eq0(pre.start - inp.start) and s2.prove_eq0(pre.n - n.lin)
                    and s2.prove_eq0(rest.start - inp.start - n.lin) and s2.prove_eq0(rest.n - inp.n + n.lin) and s2.prove_ge0(inp.n - n.lin)):
                good = False
        else:
            if err_variant(F, s2, rv) != "UnexpectedEOF" or not s2.prove_ge0(n.lin - inp.n - 1):
                good = False
    ctx.count("R-C12-PRIM")
    ctx.oblig(good and cnt == 2)
    if not (good and cnt == 2):
        ctx.violation("R-C12-PRIM", "take_n", where, "take_n(input, n) must return (input[n..], input[..n]) iff len >= n, else UnexpectedEOF")
    tb = F.one("parser::take_byte")
    where = (tb["span"]["file"], tb["span"]["line"], tb["def"])
    st = ip.new_state()
    args = ip.fresh_args(tb, {}, st)
    inp = args[0]
    good = True
    cnt = 0
    for (s2, rv) in ip.run_root(tb, {}, args, st):
        c = s2.const_of(rv.disc)
        cnt += 1
        if c == 0:
            rest, b = rv.pay[0][0].elems
            first = s2.ghost.get(("elem", inp.root, inp.steps, inp.start))
            if not (rest.root == inp.root and s2.prove_eq0(rest.start - inp.start - 1) and s2.prove_eq0(rest.n - inp.n + 1)
                    and first is not None and b == first):
                good = False
        else:
            if err_variant(F, s2, rv) != "UnexpectedEOF" or not s2.prove_eq0(inp.n):
                good = False
    ctx.count("R-C12-PRIM")
    ctx.oblig(good and cnt == 2)
    if not (good and cnt == 2):
        ctx.violation("R-C12-PRIM", "take_byte", where, "take_byte must return (input[1..], input[0]) for non-empty input, else UnexpectedEOF")
    tks = F.find("parser::take")
    if not tks:
        # the fixed-size helper is an implementation detail: without it there is nothing of this kind to check (its only use, the
        # Time workaround, is decided on Time::parse_with_tlf itself by R-C03-CHOICE)
        ctx.cov["take_helper"] = "absent"
        return
    tk = tks[0]
    where = (tk["span"]["file"], tk["span"]["line"], tk["def"])
    good = True
    cnt = 0
    st = ip.new_state()
    args = ip.fresh_args(tk, {"N": 4}, st)
    inp = args[0]
    for (s2, rv) in ip.run_root(tk, {"N": 4}, args, st):
        cnt += 1
        if s2.const_of(rv.disc) == 0:
            rest, arr = rv.pay[0][0].elems
            av = ip.read_raw(s2, arr.root, arr.steps)
            firsts = [s2.ghost.get(("elem", inp.root, inp.steps, inp.start + i)) for i in range(4)]
            if not (rest.root == inp.root and s2.prove_eq0(rest.start - inp.start - 4) and isinstance(av, VArr) and list(av.elems) == firsts):
                good = False
        else:
            if err_variant(F, s2, rv) != "UnexpectedEOF" or not s2.prove_ge0(Lin.const(3) - inp.n):
                good = False
    ctx.count("R-C12-PRIM")
    ctx.oblig(good and cnt == 2)
    if not (good and cnt == 2):
        ctx.violation("R-C12-PRIM", "take", where, "take::<N> must return (input[N..], first N bytes) iff len >= N, else UnexpectedEOF")


def check_ints(ctx, F, A):
    """Integers, decided on <T as SmlParseTlf>::parse_with_tlf itself for every type and every admissible length (a concrete
    TLF, a symbolic input): exactly `len` bytes are taken; the array handed to T::from_be_bytes consists of SIZE - len fill bytes
    followed by the len input bytes in order; the fill byte is 0xff exactly for a signed type whose first byte is >= 0x80, else
    0x00; the value returned is the result of that conversion.  How the array is assembled does not matter."""
    ip = A.ip
    tfn = [f["name"] for f in F.adts[c03.TLF]["variants"][0]["fields"]]
    from ..vra.stdsum import slice_elem
    rec = {}

    def on_call(ip_, frame, bb, t, st, callee, args):
        r = (callee.get("resolved") or callee)["def"]
        if r.startswith("core::num::<impl ") and r.endswith(">::from_be_bytes") and st.ghost.get("c12-int-on"):
            a0 = args[0]
            st.ghost["c12-be"] = (r, tuple(a0.elems) if isinstance(a0, VArr) else None)

    def on_res(ip_, frame, bb, t, callee, args, outs):
        r = (callee.get("resolved") or callee)["def"]
        if r.startswith("core::num::<impl ") and r.endswith(">::from_be_bytes"):
            for s2, v in outs:
                if s2.ghost.get("c12-int-on"):
                    s2.ghost["c12-be-ret"] = v

    def value_ok(s2, val, inp, ln, size, signed):
        """the returned integer equals the big-endian two's-complement (signed) / binary (unsigned) number made of the ln input bytes"""
        if not isinstance(val, VInt):
            return False
        srcs = [slice_elem(ip, s2, inp, Lin.const(j)) for j in range(ln)]
        if not all(isinstance(x, VInt) for x in srcs):
            return False
        spec = Lin.const(0)
        for j, x in enumerate(srcs):
            spec = spec + x.lin.scale(1 << (8 * (ln - 1 - j)))
        cases = [(None, spec)]
        if signed:
            cases = [(Lin.const(0x7f) - srcs[0].lin, spec), (srcs[0].lin - 0x80, spec - Lin.const(1 << (8 * ln)))]
        for cond, want in cases:
            s3 = s2.copy()
            if cond is not None:
                try:
                    s3.assume_ge0(cond)
                except Infeasible:
                    continue
            if not s3.prove_eq0(val.lin - want):
                return False
        return True

    def array_ok(s2, val, be, inp, ln, size, signed, tname, fills):
        if be is None or be[0] != "core::num::<impl %s>::from_be_bytes" % tname or be[1] is None or len(be[1]) != size:
            return "returns the number encoded by the %d bytes (value %s; no %s::from_be_bytes of a %d-byte array either)" % (
                ln, s2.describe(val.lin) if isinstance(val, VInt) else val, tname, size)
        if s2.ghost.get("c12-be-ret") != val:
            return "returns the value of that conversion"
        arr = be[1]
        first = slice_elem(ip, s2, inp, Lin.const(0))
        for j in range(ln):
            src = slice_elem(ip, s2, inp, Lin.const(j))
            e = arr[size - ln + j]
            if not (isinstance(e, VInt) and isinstance(src, VInt) and s2.prove_eq0(e.lin - src.lin)):
                return "copies the bytes right-aligned to [SIZE-len, SIZE) in order (byte %d differs)" % j
        fvs = {s2.const_of(e.lin) if isinstance(e, VInt) else None for e in arr[:size - ln]}
        if len(fvs) > 1 or (fvs and None in fvs):
            return "fills the leading bytes with one constant"
        if fvs:
            fv = fvs.pop()
            fills.add(fv)
            lo, hi = s2.interval(first.lin) if isinstance(first, VInt) else (None, None)
            if fv == 0xff:
                good = signed and lo is not None and lo >= 0x80
            elif fv == 0:
                good = (not signed) or (hi is not None and hi <= 0x7f)
            else:
                good = False
            if not good:
                return "fills with 0xff exactly when signed and the first byte is >= 0x80 (fill %s, first byte %s)" % (fv, (lo, hi))
        return None

    by_value = 0
    ip.on_call.append(on_call)
    ip.on_call_result.append(on_res)
    old_thr, old_sum = ip.join_threshold, ip.summarizable
    ip.join_threshold, ip.summarizable = 10 ** 9, None
    try:
        for tname, ity in sorted(INT_TYS.items()):
            if tname in ("usize", "isize", "u128", "i128"):
                continue
            size, signed = ity["w"] // 8, ity["sg"]
            b = find_impl_body(F, SPT, "parse_with_tlf", tname)
            where = (b["span"]["file"], b["span"]["line"], b["def"])
            slty = b["locals"][1]["ty"]
            tyv = c03.ty_variant(F, "Integer" if signed else "Unsigned")
            for ln in range(1, size + 1):
                st = ip.new_state()
                st.ghost["c12-int-on"] = True
                inp = ip.fresh_value(st, slty, "input")
                vals = [None, None]
                vals[tfn.index("ty")] = VEnum(c03.TY, Lin.const(tyv), {tyv: ()})
                vals[tfn.index("len")] = cint(ln, 32, False)
                root = ip.new_oid("tlf")
                st.mem[root] = VAgg("struct", c03.TLF, vals)
                # signed types are analysed once per sign of the encoded number (first byte below / from 0x80): code that derives
                # the extension arithmetically from the sign bit is then exact on either side.  An input shorter than len (no
                # first byte to speak of) is covered by both runs.
                starts = [st]
                if signed:
                    first = slice_elem(ip, st, inp, Lin.const(0))
                    starts = []
                    if isinstance(first, VInt):
                        for cond in (Lin.const(0x7f) - first.lin, first.lin - 0x80):
                            sx = st.copy()
                            try:
                                sx.assume_ge0(cond)
                                starts.append(sx)
                            except Infeasible:
                                pass
                    if not starts:
                        starts = [st]
                outs = [o for sx in starts for o in ip.run_root(b, {}, [inp, VRef(root, (), False)], sx)]
                n_ok = 0
                fills = set()
                for (s2, rv) in outs:
                    okp = ok_payload(ip, s2, rv)
                    if okp is None:
                        continue
                    n_ok += 1
                    ctx.count("R-C12-INT")
                    rest, val = okp
                    be = s2.ghost.get("c12-be")
                    why = None
                    if not (isinstance(rest, VSlice) and rest.root == inp.root and s2.prove_eq0(rest.start - inp.start - ln)):
                        why = "takes exactly len bytes"
                    elif not value_ok(s2, val, inp, ln, size, signed):
                        # not provable on the value itself: accept the canonical construction (sign-/zero-filled array given to from_be_bytes)
                        why = array_ok(s2, val, be, inp, ln, size, signed, tname, fills)
                    else:
                        by_value += 1
                    ctx.oblig(why is None)
                    if len(ctx.samples) < 8 and tname in ("i16", "u32") and ln == 1 and why is None:
                        ctx.sample({"integer": tname, "len": ln, "returned_value": s2.describe(val.lin) if isinstance(val, VInt) else repr(val),
                                    "array_given_to_from_be_bytes": [repr(e) for e in be[1]] if be and be[1] else None})
                    if why:
                        ctx.violation("R-C12-INT", "%s|%s" % (tname, why.split()[0]), where,
                                      "%s with a %d-byte encoding: cannot prove that it %s" % (tname, ln, why))
                if n_ok < 1:
                    ctx.violation("BELOW-FLOOR", "R-C12-INT|%s|%d" % (tname, ln), where, "%s, %d bytes: %d success paths" % (tname, ln, n_ok))
    finally:
        ctx.cov["ints_proved_on_value"] = by_value
        ip.join_threshold, ip.summarizable = old_thr, old_sum
        ip.on_call.remove(on_call)
        ip.on_call_result.remove(on_res)


def check_bool_octet(ctx, F, A, tfn):
    ip = A.ip
    X = Extractor(A, F)
    b = find_impl_body(F, SPT, "parse_with_tlf", "bool")
    where = (b["span"]["file"], b["span"]["line"], b["def"])
    good = False
    for p in X.paths(b):
        okp = ok_payload(ip, p["st"], p["ret"])
        if okp is None:
            continue
        evs = parse_events(p)
        v = okp[1]
        byte = evs[0]["val"] if evs else None
        if len(evs) == 1 and evs[0]["key"] == "parser::take_byte" and evs[0]["input"] == p["args"][0] and okp[0] == evs[0]["rest"] \
                and isinstance(v, VBool) and isinstance(byte, VInt):
            # v <=> byte != 0
            t = ip.branch(p["st"], v.e, True)
            f = ip.branch(p["st"], v.e, False)
            good = all((s.interval(byte.lin)[0] or 0) >= 1 for s in t) and all(s.const_of(byte.lin) == 0 for s in f) and bool(t) and bool(f)
    ctx.count("R-C12-PRIM")
    ctx.oblig(good)
    if not good:
        ctx.violation("R-C12-PRIM", "bool", where, "a boolean must be decoded as (byte != 0) of exactly one byte")
    b = find_impl_body(F, SPT, "parse_with_tlf", OCT)
    where = (b["span"]["file"], b["span"]["line"], b["def"])
    good = False
    for p in X.paths(b):
        okp = ok_payload(ip, p["st"], p["ret"])
        if okp is None:
            continue
        tr = [e for e in p["trace"] if e["key"] == "parser::take_n"]
        tlf = ip.read_raw(p["st"], p["args"][1].root, p["args"][1].steps)
        ln = tlf.elems[tfn.index("len")].lin
        if len(tr) == 1 and tr[0]["args"][0] == p["args"][0] and isinstance(tr[0]["args"][1], VInt) and tr[0]["args"][1].lin == ln \
                and p["ret"] == tr[0]["ret"]:
            good = True
    ctx.count("R-C12-PRIM")
    ctx.oblig(good)
    if not good:
        ctx.violation("R-C12-PRIM", "octet", where, "an octet string must be exactly take_n(input, tlf.len), returned unchanged")

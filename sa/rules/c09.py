"""C09 Allocating and streaming parser agree (sibling agreement of the two implementations)."""
from ..common import ASSUMPTIONS
from ..engine import AnchorMissing, field_index
from ..cfg import CFG, callee_names
from ..lin import Lin
from ..vra.interp import Unsupported
from ..vra.state import Infeasible
from ..vra.values import *
from .grammar import *
from . import c03, c04

SP = "parser::SmlParse"
SPT = "parser::SmlParseTlf"
PT = "parser::streaming::Parser"


def ok_sequence(ctx, X, F, body):
    ip = X.ip
    oks = [p for p in X.paths(body) if ok_payload(ip, p["st"], p["ret"]) is not None]
    if len(oks) != 1:
        raise AnchorMissing("%s: %d success paths" % (body["def"], len(oks)))
    return oks[0], [self_type_of(e["key"]) for e in parse_events(oks[0])]


def tag_table(X, F, body):
    """{tag: (variant name, payload parser type)} of a choice parser, plus the error of the default arm"""
    ip = X.ip
    adt_def = body["impl_self_ty"]["def"]
    adt = F.adts[adt_def]
    tbl, default = {}, set()
    for p in X.paths(body):
        evs = parse_events(p)
        if not evs or not evs[0]["ok"]:
            continue
        okp = ok_payload(ip, p["st"], p["ret"])
        if len(evs) == 1:
            default.add(err_variant(F, p["st"], p["ret"]) if okp is None else "Ok")
            continue
        if okp is not None:
            c = p["st"].const_of(evs[0]["val"].lin)
            v = okp[1]
            tbl[c] = (adt["variants"][p["st"].const_of(v.disc)]["name"], self_type_of(evs[1]["key"]))
    return tbl, default


def run(ctx):
    ctx.rule("R-C09-ENVELOPE", "the allocating message parser's sequence equals the streaming message-start sequence followed by [checksum, end marker], "
                               "which is what the streaming countdown-1 step parses; both compare the checksum after both trailing parsers")
    ctx.rule("R-C09-BODY", "both body tag tables are equal and map to sibling types; GetListResponse = GetListResponseStart ++ list ++ GetListResponseEnd; "
                           "open / close / list-entry parsers are the same functions in both")
    ctx.rule("R-C09-CRC", "both parsers compute the checksum with the same callee chain over the same byte range (shared with R-C04-CRC)")
    ctx.rule("R-C09-COUNT", "streaming countdown: a list response announcing n values sets the countdown to n+2; each countdown >= 3 emits one "
                            "ListEntry and decrements; 2 emits the list end; 1 checks the message trailer; announced n is the list TLF's length")
    ctx.rule("R-C09-ERRKIND", "corresponding rejections use the same error variants (list-type mismatch, unknown tag, checksum, end marker)")
    F = ctx.facts("all")
    A = ctx.analysis("all")
    X = Extractor(A, F)
    try:
        run_rules(ctx, F, A, X)
    except (AnchorMissing, Unsupported, KeyError) as e:
        ctx.violation("ANCHOR-MISSING", "grammar", ("", 0, ""), "%s: %s" % (type(e).__name__, e))
    ctx.assumptions = [ASSUMPTIONS[k] for k in ("A1", "A2", "A7")]
    ctx.explanation = (
        "Sibling cross-check of the two parser implementations on extracted structure: parse sequences, tag tables, checksum ranges and "
        "check order are compared between complete and streaming; the streaming countdown transitions are extracted from parse_next by "
        "value-range analysis from constructed abstract states and must realise 'n entries, then one end event, then the trailer'. "
        "Equality of produced values is inherited from the shared field parsers (same functions), not re-proved.")


def run_rules(ctx, F, A, X):
    ip = A.ip
    # ---- ENVELOPE
    bc = find_impl_body(F, SP, "parse", "parser::complete::Message")
    bs = find_impl_body(F, SP, "parse", "parser::streaming::MessageStart")
    _pc, sc = ok_sequence(ctx, X, F, bc)
    _ps, ss = ok_sequence(ctx, X, F, bs)
    norm = lambda seq: [("MessageBody" if s.endswith("::MessageBody") else s) for s in seq]
    ctx.count("R-C09-ENVELOPE")
    ok = norm(sc) == norm(ss) + ["u16", "parser::common::EndOfSmlMessage"]
    ctx.oblig(ok)
    ctx.sample({"complete": sc, "streaming_start": ss})
    if not ok:
        ctx.violation("R-C09-ENVELOPE", "sequence", (bc["span"]["file"], bc["span"]["line"], bc["def"]),
                      "complete message sequence %r != streaming start sequence %r ++ [u16, EndOfSmlMessage]" % (sc, ss))
    # field binding of the envelope is identical (same field names, same positions)
    ctx.count("R-C09-ENVELOPE")
    fc, fs = struct_field_names(F, "parser::complete::Message"), struct_field_names(F, "parser::streaming::MessageStart")
    ok = fc == fs
    ctx.oblig(ok, nontrivial=False)
    if not ok:
        ctx.violation("R-C09-ENVELOPE", "fields", ("", 0, ""), "Message and MessageStart declare different fields: %r vs %r" % (fc, fs))
    # ---- BODY
    tc, dc = tag_table(X, F, find_impl_body(F, SPT, "parse_with_tlf", "parser::complete::MessageBody"))
    ts, ds = tag_table(X, F, find_impl_body(F, SPT, "parse_with_tlf", "parser::streaming::MessageBody"))
    ctx.count("R-C09-BODY")
    ok = set(tc) == set(ts) and all(tc[k][0] == ts[k][0] for k in tc)
    sib = True
    for k in tc:
        a, b = tc[k][1], ts.get(k, (None, None))[1]
        if a != b and not (a == "parser::complete::GetListResponse" and b == "parser::streaming::GetListResponseStart"):
            sib = False
    ctx.oblig(ok and sib)
    ctx.sample({"complete_tags": {hex(k): v for k, v in tc.items()}, "streaming_tags": {hex(k): v for k, v in ts.items()}})
    if not (ok and sib):
        ctx.violation("R-C09-BODY", "tags", ("src/parser/streaming.rs", 0, "MessageBody"),
                      "body tag tables differ: complete %r vs streaming %r" % (tc, ts))
    ctx.count("R-C09-ERRKIND")
    ok = dc == ds == {"UnexpectedVariant"}
    ctx.oblig(ok)
    if not ok:
        ctx.violation("R-C09-ERRKIND", "unknown-tag", ("src/parser/streaming.rs", 0, "MessageBody"), "unknown body tags: complete %r, streaming %r" % (dc, ds))
    # GLR decomposition
    _p, g = ok_sequence(ctx, X, F, find_impl_body(F, SPT, "parse_with_tlf", "parser::complete::GetListResponse"))
    pstart, gs = ok_sequence(ctx, X, F, find_impl_body(F, SPT, "parse_with_tlf", "parser::streaming::GetListResponseStart"))
    _p, ge = ok_sequence(ctx, X, F, find_impl_body(F, SP, "parse", "parser::streaming::GetListResponseEnd"))
    ctx.count("R-C09-BODY")
    lst = "std::vec::Vec<parser::common::ListEntry>"
    gs_fields = [x for x in gs if not x.startswith("parser::tlf::TypeLengthField")]
    ok = g == gs_fields + [lst] + ge and gs[-1].startswith("parser::tlf::TypeLengthField")
    ctx.oblig(ok)
    if not ok:
        ctx.violation("R-C09-BODY", "glr", ("src/parser/streaming.rs", 0, "GetListResponseStart"),
                      "GetListResponse %r is not GetListResponseStart %r ++ list ++ GetListResponseEnd %r" % (g, gs, ge))
    # announced n = length of the list TLF; list TLF accepted iff ListOf
    evs = parse_events(pstart)
    okp = ok_payload(ip, pstart["st"], pstart["ret"])
    names = struct_field_names(F, "parser::streaming::GetListResponseStart")
    ctx.count("R-C09-COUNT")
    tlfv = evs[-1]["val"]
    tfn = [f["name"] for f in F.adts[c03.TLF]["variants"][0]["fields"]]
    nv = okp[1].elems[names.index("num_vals")]
    ok = isinstance(nv, VInt) and nv.lin == tlfv.elems[tfn.index("len")].lin and \
        pstart["st"].const_of(tlfv.elems[tfn.index("ty")].disc) == c03.ty_variant(F, "ListOf")
    ctx.oblig(ok)
    if not ok:
        ctx.violation("R-C09-COUNT", "num_vals", ("src/parser/streaming.rs", 0, "GetListResponseStart"),
                      "num_vals must be the length of the list TLF, accepted only for type ListOf")
    # list-type mismatch error kinds
    ctx.count("R-C09-ERRKIND")
    errs = set()
    for p in X.paths(find_impl_body(F, SPT, "parse_with_tlf", "parser::streaming::GetListResponseStart")):
        ev2 = parse_events(p)
        if ev2 and ev2[-1]["ok"] and ev2[-1]["key"].startswith("<parser::tlf::TypeLengthField") and ok_payload(ip, p["st"], p["ret"]) is None:
            errs.add(err_variant(F, p["st"], p["ret"]))
    blanket = [b for b in F.bodies.values() if b.get("impl_trait") == SP and b.get("name") == "parse" and (b.get("impl_self_ty") or {}).get("k") == "param"]
    berr = set()
    if len(blanket) == 1:
        old_c = dict(ip.contracts)
        from ..trace import suffix_parser_contract
        ip.contracts[(SPT, "check_tlf")] = lambda ip_, fr, bb_, st, cal, args, dty: [(st, VBool(("sym", st.fresh(0, 1, "check"))))]
        ip.contracts[(SPT, "parse_with_tlf")] = suffix_parser_contract
        try:
            for p in X.paths(blanket[0]):
                if any(e["key"].endswith("::check_tlf") for e in p["trace"]) and not any(e["key"].endswith("::parse_with_tlf") for e in p["trace"]):
                    if ok_payload(ip, p["st"], p["ret"]) is None:
                        berr.add(err_variant(F, p["st"], p["ret"]))
        finally:
            ip.contracts.clear()
            ip.contracts.update(old_c)
    ok = errs == {"TlfMismatch"} and berr == {"TlfMismatch"}
    ctx.oblig(ok)
    if not ok:
        ctx.violation("R-C09-ERRKIND", "list-type", ("src/parser/streaming.rs", 0, "GetListResponseStart"),
                      "a non-list TLF in place of the value list: streaming reports %r, allocating (blanket check_tlf) reports %r" % (errs, berr))
    # shared field parsers are the same functions (one body each)
    for nm in ("parser::common::OpenResponse", "parser::common::CloseResponse", "parser::common::ListEntry"):
        ctx.count("R-C09-BODY")
        find_impl_body(F, SPT, "parse_with_tlf", nm)
    # ---- CRC (both) : reuse the C04 checks
    before = len(ctx.violations)
    c04.check_streaming_crc(ctx, F, A, X)
    p0, _ = ok_sequence(ctx, X, F, bc)
    evs = parse_events(p0)
    keys = [self_type_of(e["key"]) for e in evs]
    i = keys.index("u16")
    inp = p0["args"][0]
    ok, why = c04.crc_fact(ip, p0["st"], evs[i]["val"].lin, inp.root, inp.start, evs[i]["input"].start - inp.start)
    ctx.count("R-C09-CRC")
    ctx.oblig(ok)
    if not ok:
        ctx.violation("R-C09-CRC", "complete", (bc["span"]["file"], bc["span"]["line"], bc["def"]), why)
    for v in ctx.violations[before:]:
        v["key"] = v["key"].replace("R-C04-", "R-C09-")
        v["rule"] = v["rule"].replace("R-C04-", "R-C09-")
    # ---- COUNT: countdown transitions of parse_next
    check_countdown(ctx, F, A, X)


def parser_state(ip, F, pending, st=None):
    """abstract streaming parser with the given countdown (int or None for 'any value >= 3')"""
    st = st or ip.new_state()
    fi_in, fi_msg, fi_p = field_index(F, PT, "input"), field_index(F, PT, "msg_input"), field_index(F, PT, "pending_list_entries")
    slty = {"k": "ref", "mut": False, "to": {"k": "slice", "of": {"k": "int", "w": 8, "sg": False, "ptr": False, "s": "u8"}, "s": "[u8]"}, "s": "&[u8]"}
    msg = ip.fresh_value(st, slty, "msg_input")
    d = st.fresh(0, None, "consumed")
    st.assume_ge0(msg.n - Lin.sym(d))
    inp = VSlice(msg.root, msg.steps, msg.start + Lin.sym(d), msg.n - Lin.sym(d), False)
    pty = F.adts[PT]["variants"][0]["fields"][fi_p]["ty"]
    if pending is None:
        pv = ip.fresh_int(st, pty["w"], pty["sg"], "countdown", None, 3, None)
    else:
        pv = cint(pending, pty["w"], pty["sg"])
    vals = [None, None, None]
    vals[fi_in], vals[fi_msg], vals[fi_p] = inp, msg, pv
    root = ip.new_oid("self")
    st.mem[root] = VAgg("struct", PT, vals)
    return st, root, inp, pv, fi_p


def check_protocol(ctx, F, A, X):
    """event protocol of the streaming parser by simulation (representation independent, see streamsim.py)"""
    from .streamsim import StreamSim
    from . import c04 as _c04
    ctx.rule("R-C09-PROTOCOL", "streaming parser, simulated against the event protocol with ghost state (phase, outstanding entries): "
                               "MessageStart, then for a list response announcing n values exactly n ListEntry events and one "
                               "GetListResponseEnd, the checksum field and end marker parsed (and the checksum gate passed) before the next "
                               "message or the end, errors end the iteration, nothing but None afterwards")
    sim = StreamSim(F, A, X)
    viols, stats = sim.run(crc_fact=_c04.crc_fact)
    where = (sim.nb["span"]["file"], sim.nb["span"]["line"], sim.nb["def"])
    ctx.count("R-C09-PROTOCOL", stats["transitions"])
    ctx.oblig(not viols)
    ctx.cov["streaming_protocol_simulation"] = {k: stats[k] for k in ("transitions", "trailers_checked", "rounds", "phases")}
    if set(stats["phases"]) != {"0", "1", "2", "3", "4"}:
        ctx.violation("BELOW-FLOOR", "R-C09-PROTOCOL", where, "the simulation reached only the phases %r" % (stats["phases"],))
    for key, msg in viols:
        ctx.violation("R-C09-PROTOCOL", key, where, msg)


def check_countdown(ctx, F, A, X):
    check_protocol(ctx, F, A, X)
    try:
        check_countdown_fields(ctx, F, A, X)
    except AnchorMissing as e:
        # the countdown is not the integer field the detailed rule is written for: the protocol simulation above is the check
        ctx.cov["countdown_field_rule"] = "not applicable to this encoding (%s); decided by R-C09-PROTOCOL" % e


def check_countdown_fields(ctx, F, A, X):
    ip = A.ip
    pn = [b for b in F.bodies.values() if b.get("name") == "parse_next" and (b.get("impl_self_ty") or {}).get("def") == PT]
    if len(pn) != 1:
        raise AnchorMissing("Parser::parse_next")
    pn = pn[0]
    where = (pn["span"]["file"], pn["span"]["line"], pn["def"])
    ev_adt = F.adts["parser::streaming::ParseEvent"]

    def ok_event(p):
        """(event variant name, payload) of Ok(Some(event))"""
        r = p["ret"]
        if p["st"].const_of(r.disc) != 0:
            return None
        o = r.pay[0][0]
        if not isinstance(o, VEnum) or p["st"].const_of(o.disc) != 1:
            return ("None", None)
        e = o.pay[1][0]
        return (ev_adt["variants"][p["st"].const_of(e.disc)]["name"], e)

    def viol(key, msg):
        ctx.violation("R-C09-COUNT", key, where, msg)

    # -- countdown >= 3: one ListEntry, decrement by one
    st, root, inp, pv, fi_p = parser_state(ip, F, None)
    good = 0
    for p in X.paths(pn, args=[VRef(root, (), True)], st=st):
        e = ok_event(p)
        if e is None:
            continue
        evs = parse_events(p)
        obj = p["st"].mem[root]
        ok = e[0] == "ListEntry" and len(evs) == 1 and self_type_of(evs[0]["key"]) == "parser::common::ListEntry" \
            and evs[0]["input"] == inp and find_in(e[1], evs[0]["val"]) and p["st"].prove_eq0(obj.elems[fi_p].lin - pv.lin + 1)
        good += ok
        ctx.count("R-C09-COUNT")
        ctx.oblig(ok)
        if not ok:
            viol(">=3", "countdown >= 3 must emit exactly one ListEntry parsed from the current input and decrement the countdown by 1 (event %s)" % e[0])
    if not good:
        viol(">=3|missing", "no ListEntry transition found for countdown >= 3")
    # -- countdown 2: the list end, then 1
    st, root, inp, pv, fi_p = parser_state(ip, F, 2)
    good = 0
    for p in X.paths(pn, args=[VRef(root, (), True)], st=st):
        e = ok_event(p)
        if e is None:
            continue
        evs = parse_events(p)
        obj = p["st"].mem[root]
        ok = e[0] == "GetListResponseEnd" and len(evs) == 1 and self_type_of(evs[0]["key"]) == "parser::streaming::GetListResponseEnd" \
            and evs[0]["input"] == inp and p["st"].const_of(obj.elems[fi_p].lin) == 1
        good += ok
        ctx.count("R-C09-COUNT")
        ctx.oblig(ok)
        if not ok:
            viol("2", "countdown 2 must emit GetListResponseEnd and continue with countdown 1 (event %s)" % e[0])
    if not good:
        viol("2|missing", "no list-end transition found for countdown 2")
    # -- countdown 0: message start; list responses announce n and set n + 2, others set 1
    st, root, inp, pv, fi_p = parser_state(ip, F, 0)
    st.assume_ge0(inp.n - 1)
    seen = set()
    glr_names = struct_field_names(F, "parser::streaming::GetListResponseStart")
    for p in X.paths(pn, args=[VRef(root, (), True)], st=st):
        e = ok_event(p)
        if e is None or e[0] == "None":
            continue
        evs = parse_events(p)
        obj = p["st"].mem[root]
        ctx.count("R-C09-COUNT")
        if e[0] != "MessageStart" or len(evs) != 1 or self_type_of(evs[0]["key"]) != "parser::streaming::MessageStart":
            viol("0|event", "countdown 0 must emit MessageStart (got %s)" % e[0])
            continue
        msg = evs[0]["val"]
        mnames = struct_field_names(F, "parser::streaming::MessageStart")
        body = msg.elems[mnames.index("message_body")]
        bv = p["st"].const_of(body.disc)
        bvars = F.adts["parser::streaming::MessageBody"]["variants"]
        if bv is not None:
            bname = bvars[bv]["name"]
            seen.add(bname)
        else:
            sg = body.disc.single()
            vals = p["st"].values(sg[0]) if sg else None
            names = sorted(bvars[v]["name"] for v in (vals or []))
            bname = "|".join(names)
            seen.update(names)
            if "GetListResponse" in names:
                viol("0|split", "list and non-list messages are not distinguished when setting the countdown")
                continue
        cd = obj.elems[fi_p].lin
        if bname == "GetListResponse":
            glr = body.pay[bv][0]
            nv = glr.elems[glr_names.index("num_vals")].lin
            ok = p["st"].prove_eq0(cd - nv - 2) and not p["st"].ghost.get("unproved-asserts")
            msgt = "a list response announcing n values must set the countdown to n + 2 (without an arithmetic step that can overflow: %r)" % (p["st"].ghost.get("unproved-asserts"),)
        else:
            ok = p["st"].const_of(cd) == 1
            msgt = "a non-list message must set the countdown to 1"
        ctx.oblig(ok)
        if not ok:
            viol("0|%s" % bname, "%s (countdown %s)" % (msgt, p["st"].describe(cd)))
    if not {"OpenResponse", "CloseResponse", "GetListResponse"} <= seen:
        viol("0|variants", "message-start transitions for all three body kinds expected, saw %r" % (seen,))
    # -- countdown 1: trailer [u16, end], checksum compare after both, then countdown 0
    st, root, inp, pv, fi_p = parser_state(ip, F, 1)
    orders = set()
    for p in X.paths(pn, args=[VRef(root, (), True)], st=st):
        evs = parse_events(p)
        keys = [self_type_of(e["key"]) for e in evs]
        if err_variant(F, p["st"], p["ret"]) == "CrcMismatch":
            orders.add(tuple(keys))
    ctx.count("R-C09-ENVELOPE")
    ok = orders == {("u16", "parser::common::EndOfSmlMessage")}
    ctx.oblig(ok)
    if not ok:
        viol("1|order", "the checksum mismatch must be reported after both the checksum field and the end marker were parsed (orders %r), "
                        "as in the allocating parser" % (orders,))
    bc = find_impl_body(F, SP, "parse", "parser::complete::Message")
    corders = set()
    for p in X.paths(bc):
        if err_variant(F, p["st"], p["ret"]) == "CrcMismatch":
            corders.add(tuple(self_type_of(e["key"]) for e in parse_events(p))[-2:])
    ctx.count("R-C09-ENVELOPE")
    ok = corders == {("u16", "parser::common::EndOfSmlMessage")}
    ctx.oblig(ok)
    if not ok:
        ctx.violation("R-C09-ENVELOPE", "complete|order", (bc["span"]["file"], bc["span"]["line"], bc["def"]),
                      "allocating parser: checksum mismatch must be reported after checksum field and end marker (orders %r)" % (corders,))

"""Protocol monitor for the DecoderReader front-ends (read / next / read_nb / next_nb), independent of how they are layered.

The byte source, the push decoder and the error-classification methods are opaque components; everything else (private helpers,
`read` called from `next`, closures) is inlined.  The monitor state lives in the abstract memory (root ("G", "rd-st")), so it
survives loop-head joins whichever way the byte loop is written:

    0 start / 1 last push said Ok(false) / 2 last push said Ok(true) / 3 byte read, not yet pushed / 4 push said Err /
    5 source error, decoder untouched / 6 source error, decoder reset

    read_byte needs 0|1;  _push_byte needs 3 and the byte just read (kept in ("G", "rd-byte"), compared as a value);
    borrow_buf needs 2;  reset needs 5 (-> 6);  any other decoder method is a violation.

At return the monitor state determines the *result of the read* the call stands for:
    2 -> Ok(borrowed buffer)   4 -> Err(DecodeErr(decoder's error))   5 -> Err(IoErr(source error, 0))   6 -> Err(IoErr(source error, reset()))
and each front-end is specified against it (see spec_* below).  State 5 additionally requires that the path pinned the error's kind
to WouldBlock, state 6 that it excluded WouldBlock (R-C11-WB / R-C11-RESET)."""
from ..lin import Lin
from ..trace import callee_key
from ..vra.interp import Unsupported
from ..vra.state import Infeasible
from ..vra.values import *
from ..vra.stdsum import split_enum
from .frontends import *

RD = "transport::decoder_reader::DecoderReader"
ERRKIND = "util::ErrKind"
G_ST = ("G", "rd-st")
G_BYTE = ("G", "rd-byte")
G_PUSHED = ("G", "rd-pushed")   # 1 once the decoder has consumed a byte in this call and asked for more (Ok(false))

BAD = {
    1: "a byte is read from the source while the previous one is still unpushed, or after the decoder reported an error / a complete transmission / the source failed",
    2: "the decoder is fed without a freshly read byte (a byte is pushed twice or skipped)",
    3: "the byte pushed into the decoder is not the byte just read from the source",
    4: "the decoder's buffer is borrowed although its last answer was not Ok(true)",
    5: "the decoder is reset although the source reported no error (or it is reset twice)",
    6: "a decoder method other than _push_byte / borrow_buf / reset is used",
}


def run(A, F, body):
    """[{st, ret, g, bad, byte..}] one entry per abstract path of `body` under the monitor"""
    ip = A.ip

    def bad(st, code):
        st.ghost["rd-bad"] = max(st.ghost.get("rd-bad", 0), code)

    def gconst(st):
        v = st.mem.get(G_ST)
        return st.const_of(v.lin) if isinstance(v, VInt) else None

    def on_res(ip_, frame, bb, t, callee, args, outs):
        nm = short(callee_key(callee, frame.env))
        if nm in ("kind", "is_eof", "is_would_block"):
            for (s2, val) in outs:
                if G_ST in s2.mem:
                    s2.ghost["rd-" + nm] = val
            return
        if nm not in ("read_byte", "_push_byte", "borrow_buf", "reset", "finalize", "push_byte"):
            return
        new = []
        for (s2, val) in outs:
            if G_ST not in s2.mem:
                new.append((s2, val))
                continue
            if nm == "read_byte":
                lo, hi = s2.interval(s2.mem[G_ST].lin)
                if not (lo is not None and lo >= 0 and hi is not None and hi <= 1):
                    bad(s2, 1)
                for s3, var, pay in split_enum(ip_, s2, val, "read_byte result"):
                    s3.mem[G_ST] = cint(3 if var == 0 else 5, 8, False)
                    if var == 0 and isinstance(pay[0], VInt):
                        s3.mem[G_BYTE] = pay[0]
                    if var == 1:
                        s3.ghost["rd-srcerr"] = pay[0]
                        for k in ("rd-kind", "rd-is_eof", "rd-is_would_block"):
                            s3.ghost.pop(k, None)
                    new.append((s3, VEnum(val.defn, Lin.const(var), {var: pay})))
            elif nm == "_push_byte":
                gb = s2.mem.get(G_BYTE)
                if gconst(s2) != 3:
                    bad(s2, 2)
                elif not (isinstance(gb, VInt) and isinstance(args[1], VInt) and s2.prove_eq0(args[1].lin - gb.lin)):
                    bad(s2, 3)
                for s3, var, pay in split_enum(ip_, s2, val, "push result"):
                    if var == 1:
                        s3.mem[G_ST] = cint(4, 8, False)
                        s3.ghost["rd-decerr"] = pay[0]
                        new.append((s3, VEnum(val.defn, Lin.const(1), {1: pay})))
                        continue
                    bv = pay[0]
                    for truth in (False, True):
                        for s4 in (ip_.branch(s3, bv.e, truth) if isinstance(bv, VBool) else []):
                            s4.mem[G_ST] = cint(2 if truth else 1, 8, False)
                            if not truth:
                                s4.mem[G_PUSHED] = cint(1, 8, False)
                            new.append((s4, VEnum(val.defn, Lin.const(0), {0: (TRUE if truth else FALSE,)})))
            elif nm == "borrow_buf":
                if gconst(s2) != 2:
                    bad(s2, 4)
                s2.ghost["rd-buf"] = val
                new.append((s2, val))
            elif nm == "reset":
                if gconst(s2) != 5:
                    bad(s2, 5)
                s2.mem[G_ST] = cint(6, 8, False)
                s2.ghost["rd-count"] = val
                pv = s2.mem.get(G_PUSHED)
                if isinstance(pv, VInt) and s2.const_of(pv.lin) == 1 and isinstance(val, VInt):
                    # decoder contract (R-C17-CONSERVE, proved on the decoder): after a push that answered Ok(false) at least that
                    # byte is pending, so reset() reports at least 1
                    try:
                        s2.assume_ge0(val.lin - 1)
                    except Infeasible:
                        continue
                new.append((s2, val))
            else:
                bad(s2, 6)
                new.append((s2, val))
        outs[:] = new

    ip.on_call_result.append(on_res)
    old_thr = ip.join_threshold
    ip.join_threshold = 10 ** 9
    try:
        st0 = ip.new_state()
        st0.mem[G_ST] = cint(0, 8, False)
        st0.mem[G_BYTE] = cint(0, 8, False)
        st0.mem[G_PUSHED] = cint(0, 8, False)
        ps = paths(A, F, body, opaque_components(F), st=st0)
    finally:
        ip.join_threshold = old_thr
        ip.on_call_result.remove(on_res)
    out = []
    for p in ps:
        st = p["st"]
        out.append({"st": st, "ret": p["ret"], "g": gconst(st), "bad": st.ghost.get("rd-bad", 0), "buf": st.ghost.get("rd-buf"),
                    "decerr": st.ghost.get("rd-decerr"), "srcerr": st.ghost.get("rd-srcerr"), "count": st.ghost.get("rd-count"),
                    "kind": st.ghost.get("rd-kind"), "is_eof": st.ghost.get("rd-is_eof"), "is_wb": st.ghost.get("rd-is_would_block")})
    return out


def kinds_allowed(F, st, kv):
    """names of the ErrKind variants the path still allows for the classified error (None if kind() was not consulted)"""
    if not isinstance(kv, VEnum):
        return None
    c = st.const_of(kv.disc)
    names = {v["idx"]: v["name"] for v in F.adts[ERRKIND]["variants"]}
    if c is not None:
        return {names[c]}
    sg = kv.disc.single()
    vals = st.values(sg[0]) if sg and sg[1] == 1 and kv.disc.c == 0 else None
    if vals is None:
        lo, hi = st.interval(kv.disc)
        vals = set(range(lo, hi + 1)) if lo is not None and hi is not None and hi - lo < 8 else None
    return {names[v] for v in vals if v in names} if vals is not None else None


def virtual_read(F, r):
    """(kind, why-not) the read result the monitor state stands for: ('ok',) ('dec',) ('io', count Lin) or (None, reason)"""
    st, g = r["st"], r["g"]
    if r["bad"]:
        return None, BAD[r["bad"]]
    if g == 2:
        return ("ok",), None
    if g == 4:
        return ("dec",), None
    if g in (5, 6):
        ks = kinds_allowed(F, st, r["kind"])
        if g == 5:
            if ks != {"WouldBlock"}:
                return None, "a source error leaves the decoder untouched and is reported with count 0 although its kind is not known to be " \
                             "WouldBlock (kinds still possible: %s)" % (sorted(ks) if ks else "kind() not consulted")
            return ("io", Lin.const(0)), None
        if ks is None or "WouldBlock" in ks:
            return None, "the decoder is reset on a source error whose kind may be WouldBlock (%s)" % (sorted(ks) if ks else "kind() not consulted")
        c = r["count"]
        if not isinstance(c, VInt):
            return None, "reset() did not return a count"
        return ("io", c.lin), None
    return None, "the call returns while the monitor is in state %r (a byte was read but not pushed, or the decoder asked for more input)" % (g,)


def same_read_result(F, r, v, rv):
    """the Result value rv returned by the code equals the read result v the monitor state stands for"""
    st = r["st"]
    var, pay = enum_variant(F, st, rv)
    if v[0] == "ok":
        return var == "Ok" and r["buf"] is not None and pay[0] == r["buf"]
    if var != "Err":
        return False
    ev2, ep = enum_variant(F, st, pay[0])
    if v[0] == "dec":
        return ev2 == "DecodeErr" and len(ep) == 1 and ep[0] == r["decerr"]
    return ev2 == "IoErr" and len(ep) == 2 and ep[0] == r["srcerr"] and isinstance(ep[1], VInt) and st.prove_eq0(ep[1].lin - v[1])


def pred_truth(F, r, which):
    """truth of e.is_eof() / e.is_would_block() for the source error on this path: the predicate's own result if the path evaluated
    it, else what the classification the path already pinned down implies (the predicates test exactly those kinds: R-C11-KIND)"""
    st = r["st"]
    t = truth(st, r["is_eof" if which == "Eof" else "is_wb"])
    if t is not None:
        return t
    ks = kinds_allowed(F, st, r["kind"])
    if ks is None:
        return None
    if ks == {which}:
        return True
    if which not in ks:
        return False
    return None


def truth(st, bv):
    if bv is None:
        return None
    if bool_is(st, bv, True):
        return True
    if bool_is(st, bv, False):
        return False
    return None


def eof_zero(F, r, v):
    """(surely, possibly): the read result is `IoErr(e, 0)` with e.is_eof()"""
    if v[0] != "io":
        return False, False
    st = r["st"]
    zero_sure = st.prove_eq0(v[1])
    try:
        st.copy().assume_eq0(v[1])
        zero_poss = True
    except Infeasible:
        zero_poss = False
    t = pred_truth(F, r, "Eof")
    return (zero_sure and t is True), (zero_poss and t is not False)


def spec_read(F, r, v):
    return same_read_result(F, r, v, r["ret"]), "read() must return exactly the result of the read (whole buffer / the decoder's error / the source's " \
                                                 "error with the reset count, 0 for would-block)"


def spec_next(F, r, v):
    st = r["st"]
    var, pay = enum_variant(F, st, r["ret"])
    sure, poss = eof_zero(F, r, v)
    if var == "None":
        return sure, "next() returns None although the read did not end with an end-of-file error and nothing pending"
    if var == "Some":
        if poss:
            return False, "next() forwards a result that may be the EOF-with-nothing-pending case (must be None)"
        return same_read_result(F, r, v, pay[0]), "next() must forward everything except EOF-with-count-0 unchanged as Some(..)"
    return False, "next() result of unknown shape"


def spec_read_nb(F, r, v):
    st = r["st"]
    var, pay = enum_variant(F, st, r["ret"])
    wb = pred_truth(F, r, "WouldBlock") if v[0] == "io" else False
    if var == "Ok":
        return v[0] == "ok" and pay[0] == r["buf"], "read_nb: Ok only for a complete transmission (the borrowed buffer)"
    nv, npay = enum_variant(F, st, pay[0]) if var == "Err" else (None, ())
    if nv == "WouldBlock":
        return v[0] == "io" and wb is True, "read_nb: nb::Error::WouldBlock only for a source error that is_would_block()"
    if nv == "Other":
        inner = VEnum("std::result::Result", Lin.const(1), {1: (npay[0],)})
        return v[0] != "ok" and wb is False and same_read_result(F, r, v, inner), \
            "read_nb: every error that is not would-block is forwarded unchanged as nb::Error::Other"
    return False, "read_nb result of unknown shape"


def spec_next_nb(F, r, v):
    st = r["st"]
    var, pay = enum_variant(F, st, r["ret"])
    wb = pred_truth(F, r, "WouldBlock") if v[0] == "io" else False
    sure, poss = eof_zero(F, r, v)
    if var == "Ok":
        ov, op = enum_variant(F, st, pay[0])
        if ov == "None":
            return sure and wb is not True, "next_nb: Ok(None) only for EOF with count 0"
        return ov == "Some" and v[0] == "ok" and op[0] == r["buf"], "next_nb: Ok(Some) only for a complete transmission (the borrowed buffer)"
    nv, npay = enum_variant(F, st, pay[0]) if var == "Err" else (None, ())
    if nv == "WouldBlock":
        return v[0] == "io" and wb is True, "next_nb: Err(WouldBlock) only for a would-block source error"
    if nv == "Other":
        inner = VEnum("std::result::Result", Lin.const(1), {1: (npay[0],)})
        return v[0] != "ok" and wb is False and not poss and same_read_result(F, r, v, inner), \
            "next_nb: every other error is forwarded unchanged as Err(Other), except EOF with count 0 (Ok(None))"
    return False, "next_nb result of unknown shape"


SPECS = {"read": spec_read, "next": spec_next, "read_nb": spec_read_nb, "next_nb": spec_next_nb}


def check(ctx, F, A, fname, rid_driver, rid_of):
    """run the monitor on DecoderReader::<fname>; rid_of(kind) -> rule id for ('protocol' | 'wb' | 'reset' | 'result')"""
    b = body_of(F, RD, fname)
    where = (b["span"]["file"], b["span"]["line"], b["def"])
    seen = set()
    nviol = 0
    rs = run(A, F, b)
    for r in rs:
        v, why = virtual_read(F, r)
        if v is None:
            kind = "protocol" if r["bad"] or r["g"] not in (5, 6) else ("wb" if r["g"] == 5 else "reset")
            rid = rid_of(kind)
            ctx.count(rid)
            ctx.oblig(False)
            nviol += 1
            ctx.violation(rid, "%s|%s|%s" % (b["def"], kind, why[:40]), where, "DecoderReader::%s: %s" % (fname, why))
            continue
        if v[0] == "io":
            # paths on which is_eof() / is_would_block() contradict the kind the same error was classified as do not exist
            # (the predicates test exactly those kinds: R-C11-KIND)
            ks = kinds_allowed(F, r["st"], r["kind"])
            contradiction = False
            for which, key in (("Eof", "is_eof"), ("WouldBlock", "is_wb")):
                t = truth(r["st"], r[key])
                if ks is not None and ((t is True and which not in ks) or (t is False and ks == {which})):
                    contradiction = True
            if contradiction:
                continue
        seen.add(v[0] if v[0] != "io" else ("wb" if r["g"] == 5 else "reset"))
        if v[0] == "io":
            rid = rid_of("wb" if r["g"] == 5 else "reset")
            ctx.count(rid)
            ctx.oblig(True)
        rid = rid_of("result")
        ctx.count(rid)
        ok, msg = SPECS[fname](F, r, v)
        ctx.oblig(bool(ok))
        if not ok:
            nviol += 1
            var = enum_variant(F, r["st"], r["ret"])[0]
            ctx.violation(rid, "%s|result|%s|%s" % (b["def"], v[0], var), where, "DecoderReader::%s (read outcome: %s): %s" % (
                fname, {"ok": "complete transmission", "dec": "decoder error", "io": "source error"}[v[0]], msg))
    need = {"ok", "dec", "wb", "reset"}
    if not need <= seen and not nviol:
        ctx.violation(rid_of("result"), "%s|coverage" % b["def"], where,
                      "DecoderReader::%s: expected paths for a complete transmission, a decoder error, a would-block and another source error; saw %r"
                      % (fname, sorted(seen)))
    return rs

"""Parse-sequence (SEQ) extraction for the recursive-descent parsers and the specification tables they
are compared with (C03, C04, C09).

A parser function is analysed path by path with every *callee parser* replaced by the contract "returns an
error, or a value plus a suffix of its input" (the contract itself is re-checked on the real bodies by
R-C04-SUFFIX).  Each path then carries the ordered list of parser calls, the slice each one received, the
constraints on parsed tag values and the binding of parsed values to the fields of the result."""
from ..lin import Lin
from ..trace import Tracer, trace_of, suffix_parser_contract, callee_key
from ..vra.values import *
from ..vra.interp import Unsupported
from ..vra.state import Infeasible
from ..vra.stdsum import split_enum
from ..vra.types import ty_str, ty_args

O = "std::option::Option<%s>"
OCT = "&[u8]"
TIME = "parser::common::Time"
SIG = OCT

# ---------------------------------------------------------------------------------------------------------
# Specification tables, transcribed from SML 1.04 (BSI TR-03109-1 Anlage IV), the reference the README names.
# struct parsers: (list arity, [(field name, parser type)])
SPEC_STRUCTS = {
    "parser::common::OpenResponse": (6, [("codepage", O % OCT), ("client_id", O % OCT), ("req_file_id", OCT),
                                        ("server_id", OCT), ("ref_time", O % TIME), ("sml_version", O % "u8")]),
    "parser::common::CloseResponse": (1, [("global_signature", O % SIG)]),
    "parser::common::ListEntry": (7, [("obj_name", OCT), ("status", O % "parser::common::Status"), ("val_time", O % TIME),
                                     ("unit", O % "u8"), ("scaler", O % "i8"), ("value", "parser::common::Value"),
                                     ("value_signature", O % SIG)]),
    "parser::complete::GetListResponse": (7, [("client_id", O % OCT), ("server_id", OCT), ("list_name", O % OCT),
                                             ("act_sensor_time", O % TIME),
                                             ("val_list", "std::vec::Vec<parser::common::ListEntry>"),
                                             ("list_signature", O % SIG), ("act_gateway_time", O % TIME)]),
}
# the streaming parser splits GetListResponse into start (+ list header) / entries / end
SPEC_GLR_START = [("client_id", O % OCT), ("server_id", OCT), ("list_name", O % OCT), ("act_sensor_time", O % TIME)]
SPEC_GLR_END = [("list_signature", O % SIG), ("act_gateway_time", O % TIME)]
# message envelope: List(6)[transactionId, groupNo, abortOnError, body, crc16, endOfSmlMsg]
SPEC_MESSAGE = [("transaction_id", OCT), ("group_no", "u8"), ("abort_on_error", "u8"), ("message_body", "MessageBody")]
SPEC_MESSAGE_TAIL = ["u16", "parser::common::EndOfSmlMessage"]
# choices: tag parser type, {tag value: (variant name, payload parser type)}
SPEC_BODY_TAGS = {0x0101: "OpenResponse", 0x0201: "CloseResponse", 0x0701: "GetListResponse"}
SPEC_TIME = ("u8", {1: ("SecIndex", "u32")})
SPEC_LISTTYPE = ("u8", {1: ("Time", TIME)})
# value / status dispatch: candidate order must be narrowest first within each signedness
SPEC_VALUE_TYPES = ["bool", OCT, "i8", "i16", "i32", "i64", "u8", "u16", "u32", "u64", "parser::common::ListType"]
SPEC_STATUS_TYPES = ["u8", "u16", "u32", "u64"]
# TLF acceptance of the primitive / structural types: type -> (Ty variant, min len, max len)
SPEC_CHECK_TLF = {
    "u8": ("Unsigned", 1, 1), "u16": ("Unsigned", 1, 2), "u32": ("Unsigned", 1, 4), "u64": ("Unsigned", 1, 8),
    "i8": ("Integer", 1, 1), "i16": ("Integer", 1, 2), "i32": ("Integer", 1, 4), "i64": ("Integer", 1, 8),
    "bool": ("Boolean", 1, 1),
    OCT: ("OctetString", 0, None),
    "parser::common::OpenResponse": ("ListOf", 6, 6), "parser::common::CloseResponse": ("ListOf", 1, 1),
    "parser::common::ListEntry": ("ListOf", 7, 7), "parser::complete::GetListResponse": ("ListOf", 7, 7),
    "parser::streaming::GetListResponseStart": ("ListOf", 7, 7),
    "parser::complete::MessageBody": ("ListOf", 2, 2), "parser::streaming::MessageBody": ("ListOf", 2, 2),
    "parser::common::ListType": ("ListOf", 2, 2),
    "std::vec::Vec<parser::common::ListEntry>": ("ListOf", 0, None),
}
TY_TABLE = {0: "OctetString", 4: "Boolean", 5: "Integer", 6: "Unsigned", 7: "ListOf"}


def strip_lt(s):
    return s


def norm_ty(s):
    """normalise a type string for comparison with the tables (lifetimes already erased by ty_str)"""
    return s.replace("<'_>", "").replace("<'i>", "").replace(", std::alloc::Global", "")


# ---------------------------------------------------------------------------------------------------------
def is_parser_fn(F, callee):
    r = callee.get("resolved") or callee
    b = F.bodies.get(r["def"])
    if b is not None:
        return b["span"]["file"].startswith("src/parser/")
    if callee.get("trait", "").startswith("parser::"):
        return True
    return False


def is_parser_sig(F, callee):
    """a parser in the sense of the contract: first argument a byte slice, result Result<(&[u8], T), ParseError>
    (or an SmlParse / SmlParseTlf trait method, whatever the receiver)"""
    tr = callee.get("trait")
    if tr in ("parser::SmlParse", "parser::SmlParseTlf"):
        return callee.get("method") in ("parse", "parse_with_tlf", "check_tlf")
    r = callee.get("resolved") or callee
    b = F.bodies.get(r["def"])
    if b is None or b["arg_count"] < 1 or not b["span"]["file"].startswith("src/parser/"):
        return False
    if b.get("impl_trait") in ("parser::SmlParse", "parser::SmlParseTlf"):
        return b.get("name") in ("parse", "parse_with_tlf", "check_tlf")
    a0 = b["locals"][1]["ty"]
    rt = b["locals"][0]["ty"]
    if not (a0.get("k") == "ref" and a0["to"].get("k") == "slice"):
        return False
    if rt.get("k") == "adt" and rt["def"] == "std::result::Result":
        ta = ty_args(rt)
        return len(ta) == 2 and ta[0].get("k") == "tuple" and len(ta[0]["elems"]) == 2 and ta[0]["elems"][0].get("k") == "ref" \
            and ta[0]["elems"][0]["to"].get("k") == "slice"
    return False


def is_grammar_parser(F, callee):
    """a non-terminal of the grammar: a method of SmlParse / SmlParseTlf (parse, parse_with_tlf, check_tlf).  Free helper
    functions with a parser-like signature (take_n, a split-off half of a parser, ...) are implementation detail: they are
    analysed inline, so that the sequence of grammar-level parsers is independent of how a parser body is factored."""
    tr = callee.get("trait")
    if tr in ("parser::SmlParse", "parser::SmlParseTlf"):
        return callee.get("method") in ("parse", "parse_with_tlf", "check_tlf")
    r = callee.get("resolved") or callee
    b = F.bodies.get(r["def"])
    if b is not None and b.get("impl_trait") in ("parser::SmlParse", "parser::SmlParseTlf"):
        return b.get("name") in ("parse", "parse_with_tlf", "check_tlf")
    return False


_CALLS_GRAMMAR = {}


def calls_grammar_parser(F, d, _stack=None):
    """does the crate function d (transitively, through crate-local callees) call a grammar-level parser?"""
    key = (id(F), d)
    if key in _CALLS_GRAMMAR:
        return _CALLS_GRAMMAR[key]
    _stack = _stack or set()
    if d in _stack:
        return False
    _stack = _stack | {d}
    b = F.bodies.get(d)
    r = False
    if b is not None:
        for blk in b["blocks"]:
            t = blk["term"]
            if t["k"] != "call" or not t.get("callee"):
                continue
            c = t["callee"]
            if is_grammar_parser(F, c):
                r = True
                break
            cd = (c.get("resolved") or c).get("def")
            if cd in F.bodies and cd != d and calls_grammar_parser(F, cd, _stack):
                r = True
                break
        if not r:
            pre = d + "::{closure"
            r = any(calls_grammar_parser(F, d2, _stack) for d2 in F.bodies if d2.startswith(pre))
    _CALLS_GRAMMAR[key] = r
    return r


def is_parse_unit(F, callee):
    """what the sequence extraction treats as one step: a grammar-level parser, or a byte-level helper with a parser
    signature that calls no grammar-level parser (take_byte, take_n, take::<N>, ...).  A free function that merely groups
    several grammar-level parsers (a split-off part of a parser body) is analysed inline instead."""
    if is_grammar_parser(F, callee):
        return True
    if not is_parser_sig(F, callee):
        return False
    r = callee.get("resolved") or callee
    return not calls_grammar_parser(F, r["def"])


def ret_kind(F, callee, dest_ty):
    """'resty' for Result<(&[u8], T), ParseError>, 'bool', or None"""
    if dest_ty.get("k") == "bool":
        return "bool"
    if dest_ty.get("k") == "adt" and dest_ty["def"] == "std::result::Result":
        ta = ty_args(dest_ty)
        if len(ta) == 2 and ta[1].get("k") == "adt" and ta[1]["def"] == "parser::ParseError":
            return "resty"
    return None


_HELPER_SUFFIX = {}


def helper_obeys_suffix(A, F, d):
    """A byte-level helper with a parser-like signature (take_n, ...) may be replaced by the suffix contract only if its own body
    satisfies it: every Ok((rest, _)) it returns has `rest` a suffix of its first argument.  A helper that does not (say one that
    returns (head, tail)) is simply analysed inline; nothing relies on a contract for it."""
    key = (id(F), d)
    if key in _HELPER_SUFFIX:
        return _HELPER_SUFFIX[key]
    _HELPER_SUFFIX[key] = True        # (recursion guard)
    ip = A.ip
    b = F.bodies.get(d)
    ok = True
    if b is not None:
        old_o, old_s = ip.opaque_fn, ip.summarizable
        ip.opaque_fn, ip.summarizable = None, None
        mark = len(ip.log)
        try:
            env = {}
            for g in b.get("generics") or []:
                if isinstance(g, str) and g.isupper() and len(g) <= 2 and "N" == g:
                    env[g] = 4
            for (s2, rv, args) in A.run_fn(b, env=env or None):
                if not (isinstance(rv, VEnum) and rv.defn == "std::result::Result" and 0 in rv.pay):
                    continue
                try:
                    s3 = s2.copy()
                    s3.assume_eq0(rv.disc)
                except Infeasible:
                    continue
                p_ = rv.pay[0][0]
                inp = args[0] if args else None
                if not (isinstance(p_, VAgg) and len(p_.elems) == 2 and isinstance(p_.elems[0], VSlice) and isinstance(inp, VSlice)):
                    ok = False
                    break
                rest = p_.elems[0]
                if not (rest.root == inp.root and rest.steps == inp.steps and s3.prove_ge0(rest.start - inp.start)
                        and s3.prove_eq0(rest.start + rest.n - inp.start - inp.n)):
                    ok = False
                    break
        except Exception:
            ok = True     # cannot tell: keep the contract (R-C04-SUFFIX re-checks it on the summaries and reports a failure)
        finally:
            del ip.log[mark:]
            ip.opaque_fn, ip.summarizable = old_o, old_s
    _HELPER_SUFFIX[key] = ok
    return ok


class Extractor:
    def __init__(self, A, F):
        self.A, self.F, self.ip = A, F, A.ip
        self.real_checks = False      # True: check_tlf bodies are evaluated for real instead of yielding an unknown boolean

    def unit(self, callee):
        """is_parse_unit, minus byte-level helpers whose body does not satisfy the suffix contract (those are inlined)"""
        if not is_parse_unit(self.F, callee):
            return False
        if is_grammar_parser(self.F, callee):
            return True
        r = callee.get("resolved") or callee
        return helper_obeys_suffix(self.A, self.F, r["def"])

    def opaque(self, self_def):
        F = self.F

        def f(callee):
            if not is_parser_fn(F, callee) or not self.unit(callee):
                return False
            r = callee.get("resolved") or callee
            if r["def"] == self_def:
                return False
            name = callee.get("method") or r["def"].split("::")[-1]
            b = F.bodies.get(r["def"])
            if b is not None and b.get("auto_derived"):
                return False
            if self.real_checks and name == "check_tlf" and b is not None:
                return False
            # inline small non-parsing helpers (constructors, conversions, `map`)
            if b is not None and (b.get("impl_trait") == "std::convert::From" or
                                  (callee.get("trait") is None and name in ("new", "map"))):
                return False

            def contract(ip, frame, bb, st, callee_, args, dest_ty):
                k = ret_kind(F, callee_, dest_ty)
                if k == "resty":
                    return suffix_parser_contract(ip, frame, bb, st, callee_, args, dest_ty)
                if k == "bool" and name == "check_tlf":
                    s = st.fresh(0, 1, "check:" + name)
                    return [(st, VBool(("sym", s)))]
                if b is not None:
                    return ip.call_local_inline(frame, bb, st, b, ip.env_for(b, r.get("args", []), frame.env), args)
                return ip.havoc_call(frame, st, args, dest_ty, name)
            return contract
        return f

    def paths(self, body, env=None, args=None, st=None):
        """[{st, ret, trace, args}] for every path of body with callee parsers replaced by contracts"""
        ip = self.ip
        env = env or {}
        old = ip.opaque_fn
        old_sum = ip.summarizable
        ip.opaque_fn = self.opaque(body["def"])
        ip.summarizable = None
        out = []
        try:
            with Tracer(self.A, select=lambda key, callee: is_parser_fn(self.F, callee) and self.unit(callee)):
                st = st or ip.new_state()
                if args is None:
                    args = ip.fresh_args(body, env, st)
                for (s2, rv) in ip.run_root(body, env, args, st):
                    out.append({"st": s2, "ret": rv, "trace": trace_of(s2), "args": args})
        finally:
            ip.opaque_fn = old
            ip.summarizable = old_sum
        return out


def ok_payload(ip, st, ret):
    """(rest, value) of an Ok((rest, value)) result with constant discriminant, else None"""
    if not isinstance(ret, VEnum):
        return None
    c = st.const_of(ret.disc)
    if c != 0:
        return None
    p = ret.pay[0][0]
    if isinstance(p, VAgg) and p.kind == "tuple" and len(p.elems) == 2:
        return p.elems[0], p.elems[1]
    return None


def err_variant(F, st, ret):
    if not isinstance(ret, VEnum) or st.const_of(ret.disc) != 1:
        return None
    e = ret.pay[1][0]
    if isinstance(e, VEnum):
        c = st.const_of(e.disc)
        adt = F.adts.get(e.defn)
        if c is not None and adt:
            return adt["variants"][c]["name"]
    return "?"


def parse_events(path):
    """the events of a path that are parser calls returning ResTy, as (key, input slice, ok?, rest, value)"""
    out = []
    for ev in path["trace"]:
        r = ev["ret"]
        if isinstance(r, VEnum) and r.defn == "std::result::Result":
            sl = None
            for a in ev["args"]:
                if isinstance(a, VSlice):
                    sl = a
                    break
            c = path["st"].const_of(r.disc)
            p = r.pay.get(0)
            rest = val = None
            if p and isinstance(p[0], VAgg) and len(p[0].elems) == 2:
                rest, val = p[0].elems
            out.append({"key": ev["key"], "input": sl, "ok": c == 0, "rest": rest, "val": val, "line": ev["line"], "ev": ev})
    return out


def self_type_of(key):
    """`<T as Trait>::m` -> T"""
    if key.startswith("<") and " as " in key:
        return norm_ty(key[1:key.index(" as ")])
    return key


def find_in(val, needle):
    """is `needle` (a parsed value) stored inside val (possibly wrapped by constructors)?"""
    if val == needle:
        return True
    if isinstance(val, (VAgg, VArr)):
        return any(find_in(e, needle) for e in val.elems)
    if isinstance(val, VEnum):
        return any(find_in(e, needle) for p in val.pay.values() for e in p)
    return False


def find_impl_body(F, trait, name, self_str):
    """body of `<self_str as trait>::name` (self type compared lifetime-free)"""
    from ..vra.types import ty_str as _ts
    r = []
    for b in F.bodies.values():
        if b.get("impl_trait") == trait and b.get("name") == name and b.get("impl_self_ty") is not None:
            if norm_ty(_ts(b["impl_self_ty"])) == self_str:
                r.append(b)
    if len(r) != 1:
        from ..engine import AnchorMissing
        raise AnchorMissing("<%s as %s>::%s: %d bodies" % (self_str, trait, name, len(r)))
    return r[0]


def struct_field_names(F, adt_def):
    return [f["name"] for f in F.adts[adt_def]["variants"][0]["fields"]]


def check_struct_parser(ctx, X, F, body, adt_def, spec_fields, rid, tail=None, result_adt=None):
    """the Ok path of `body` parses exactly spec_fields in order, chained on the input, bound to the named fields"""
    ip = X.ip
    where = (body["span"]["file"], body["span"]["line"], body["def"])
    paths = X.paths(body)
    oks = [p for p in paths if ok_payload(ip, p["st"], p["ret"]) is not None]
    ctx.count(rid + "-SEQ")
    if len(oks) != 1:
        ctx.violation(rid + "-SEQ", adt_def + "|ok-paths", where, "expected exactly one success path, found %d" % len(oks))
        return None
    p = oks[0]
    evs = [e for e in parse_events(p) if not e["key"].startswith("<parser::tlf::TypeLengthField")]
    got = [self_type_of(e["key"]) for e in evs]
    want = [t for _, t in spec_fields] + list(tail or [])
    want_n = [w if w != "MessageBody" else None for w in want]
    ok = len(got) == len(want) and all(w is None and g.endswith("::MessageBody") or g == w for g, w in zip(got, want_n))
    ctx.oblig(ok)
    ctx.sample({"parser": body["def"], "sequence": got})
    if not ok:
        ctx.violation(rid + "-SEQ", adt_def + "|order", where, "parse sequence %r differs from the specified %r" % (got, want))
        return p
    # chaining: every parser call consumes the rest of the previous one
    allev = parse_events(p)
    cur = p["args"][0]
    chain_ok = True
    for e in allev:
        if e["input"] != cur:
            chain_ok = False
            break
        cur = e["rest"]
    rest, val = ok_payload(ip, p["st"], p["ret"])
    if rest != cur:
        chain_ok = False
    ctx.count(rid + "-CHAIN")
    ctx.oblig(chain_ok)
    if not chain_ok:
        ctx.violation(rid + "-CHAIN", adt_def, where, "a parser call does not receive the rest of the previous one, or the returned rest is not the last rest")
    # binding
    names = struct_field_names(F, result_adt or adt_def)
    if isinstance(val, VAgg) and len(val.elems) == len(names):
        for (fname, _t), e in zip(spec_fields, evs):
            ctx.count(rid + "-BIND")
            if fname not in names:
                ctx.violation(rid + "-BIND", adt_def + "|" + fname, where, "field %s missing" % fname)
                continue
            fv = val.elems[names.index(fname)]
            ok = find_in(fv, e["val"]) and sum(1 for x in val.elems if find_in(x, e["val"])) == 1
            ctx.oblig(ok)
            if not ok:
                ctx.violation(rid + "-BIND", adt_def + "|" + fname, where,
                              "field `%s` does not hold the value parsed at position %d (%s)" % (fname, evs.index(e) + 1, self_type_of(e["key"])))
    else:
        ctx.violation(rid + "-BIND", adt_def + "|shape", where, "result is not a %s struct value" % adt_def)
    return p

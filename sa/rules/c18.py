"""C18 ArrayBuf behaves as a capacity-bounded byte vector."""
from ..common import ASSUMPTIONS
from ..engine import AnchorMissing, field_index
from ..cfg import CFG, callee_names
from ..lin import Lin
from ..vra.interp import Unsupported
from ..vra.values import *
from ..vra.stdsum import split_enum, as_slice

T = "util::ArrayBuf"


def find_method(F, trait, name, self_def):
    r = [b for b in F.bodies.values() if b.get("impl_trait") == trait and b.get("name") == name
         and (b.get("impl_self_ty") or {}).get("def") == self_def]
    if len(r) != 1:
        raise AnchorMissing("<%s as %s>::%s: %d bodies" % (self_def, trait, name, len(r)))
    return r[0]


def result_class(ip, st, ret):
    return [(s2, "Ok" if var == 0 else "Err") for s2, var, _p in split_enum(ip, st, ret, "result")]


def run(ctx):
    ctx.rule("R-C18-INV", "0 <= len <= N is an inductive object invariant, where len is the length of the slice Deref::deref exposes "
                          "(all fields private, who-may-write = the impl)")
    ctx.rule("R-C18-EFFECT", "per-operation effect summaries of push/extend_from_slice/truncate/clear/deref equal the ideal bounded "
                             "vector, stated over the Deref view: success condition, written range and values, new length, no write on failure")
    ctx.rule("R-C18-VIEW", "PartialEq and Debug look at the buffer only through the Deref view (or a private function proved to return the same view)")
    ctx.rule("R-C18-FROMITER", "FromIterator writes every item exactly once, in order, at the end of the buffer")
    ctx.rule("R-C18-VEC", "the Vec<u8> Buffer impl reserves fallibly before every write and returns Err without touching the vector")
    ctx.rule("R-C18-WRITERS", "fields of ArrayBuf are private and only written by ArrayBuf's own impls")
    F = ctx.facts("all")
    A = ctx.analysis("all")
    ip = A.ip
    adt = F.adts.get(T)
    if adt is None:
        ctx.violation("ANCHOR-MISSING", T, ("", 0, ""), "type not found")
        return
    try:
        fi_buf = field_index(F, T, "buffer")
        deref_b = find_method(F, "std::ops::Deref", "deref", T)
    except AnchorMissing as e:
        ctx.violation("ANCHOR-MISSING", T, ("", 0, ""), str(e))
        return
    for fl in adt["variants"][0]["fields"]:
        ctx.count("R-C18-WRITERS")
        if fl["vis"] == "pub":
            ctx.violation("R-C18-WRITERS", "pub-field|" + fl["name"], (adt["span"]["file"], adt["span"]["line"], T),
                          "field %s of ArrayBuf is public: the length invariant can be broken from outside" % fl["name"])
    check_writers(ctx, F, T)

    # ---- write tracking (the array-typed field, whatever it is called)
    def on_assign(ip_, frame, bb, stmt, st, val):
        w = st.ghost.get("c18-self")
        if w is None:
            return
        try:
            a = ip_.resolve(frame, stmt["place"], st)
        except Unsupported:
            return
        if a.root == w and a.steps[:1] == (("f", fi_buf),) and len(a.steps) >= 2:
            st.ghost["c18-writes"] = st.ghost.get("c18-writes", ()) + (("elem", a.steps[1][1], val),)

    def on_copy(ip_, frame, bb, st, dst, src):
        w = st.ghost.get("c18-self")
        if w is not None and dst.root == w and dst.steps[:1] == (("f", fi_buf),):
            first = None
            if st.prove_eq0(dst.n - 1):
                from ..vra.stdsum import slice_elem
                try:
                    first = slice_elem(ip_, st, src, Lin.const(0))
                except Unsupported:
                    first = None
            st.ghost["c18-writes"] = st.ghost.get("c18-writes", ()) + (("copy", dst.start, dst.n, src, first),)
    ip.on_assign.append(on_assign)
    ip.on_copy.append(on_copy)
    try:
        inv = A.invariant(T)
    except (AnchorMissing, Unsupported) as e:
        ctx.violation("R-C18-INV", T, ("", 0, ""), "cannot infer invariant: %s" % e)
        return
    N = ip.const_param(None, "N", None)

    def view_len(st, root):
        """length of the logical content = what Deref::deref exposes: it must be buffer[0..len]; returns len (Lin) or None"""
        saved = {k: st.ghost.get(k) for k in ("c18-self", "c18-writes")}
        st.ghost.pop("c18-self", None)
        try:
            outs = ip.run_root(deref_b, {}, [VRef(root, (), False)], st)
        except Unsupported:
            return None
        finally:
            for k, v in saved.items():
                if v is not None:
                    st.ghost[k] = v
        if len(outs) != 1 or outs[0][0] is not st:
            return None
        rv = outs[0][1]
        if isinstance(rv, VSlice) and rv.root == root and rv.steps == (("f", fi_buf),) and st.prove_eq0(rv.start):
            return rv.n
        return None

    # the invariant itself
    for key, S in inv.parts.items():
        st = ip.new_state()
        obj = A.import_partition(st, S)
        root = ip.new_oid("self")
        st.mem[root] = obj
        num = view_len(st, root)
        ok = num is not None and st.prove_ge0(N - num) and st.prove_ge0(num)
        ctx.count("R-C18-INV")
        ctx.oblig(ok)
        ctx.sample({"invariant": "0 <= len(deref) <= N", "facts": [repr(f) for f in S.facts], "N": repr(N), "len": repr(num)})
        if not ok:
            ctx.violation("R-C18-INV", "num<=N", (adt["span"]["file"], adt["span"]["line"], T),
                          "num_elements <= N is not an invariant of ArrayBuf (length of the Deref view: %s): %s"
                          % (num is not None and st.describe(num), A.inv_info[T]["partitions"]))

    def cases(body):
        inv_ = A.invariant(T)
        out = []
        for key, S in inv_.parts.items():
            st = ip.new_state()
            obj0 = A.import_partition(st, S)
            root = ip.new_oid("self")
            st.mem[root] = obj0
            num0 = view_len(st, root)
            if num0 is None:
                raise AnchorMissing("Deref::deref of ArrayBuf does not expose buffer[0..len]")
            st.ghost["c18-self"] = root
            a0 = body["locals"][1]["ty"]
            for (s2, rv, args) in A.run_fn(body, st0=st, first_arg=VRef(root, (), a0.get("mut", False))):
                out.append((num0, s2, rv, args, root))
        return out

    def viol(rule, body, key, msg):
        ctx.violation(rule, "%s|%s" % (body["name"], key), (body["span"]["file"], body["span"]["line"], body["def"]), msg)

    def check(body, cond, key, msg):
        ctx.count("R-C18-EFFECT")
        ctx.oblig(bool(cond))
        if not cond:
            viol("R-C18-EFFECT", body, key, msg)

    def one_byte_write(s2, wr, idx, byte):
        """exactly one byte is written, at index idx, and it is `byte` (an element store or a one-element copy)"""
        if len(wr) != 1:
            return False
        w = wr[0]
        if w[0] == "elem":
            return s2.prove_eq0(w[1] - idx) and isinstance(w[2], VInt) and s2.prove_eq0(w[2].lin - byte)
        if w[0] == "copy":
            from ..vra.stdsum import slice_elem
            if not (s2.prove_eq0(w[1] - idx) and s2.prove_eq0(w[2] - 1)):
                return False
            e = w[4] if len(w) > 4 else None
            return isinstance(e, VInt) and s2.prove_eq0(e.lin - byte)
        return False

    try:
        # ---------------- push
        b = find_method(F, "util::Buffer", "push", T)
        n_ok = n_err = 0
        for num0, st1, rv, args, root in cases(b):
            for s2, cls in result_class(ip, st1, rv):
                wr = s2.ghost.get("c18-writes", ())
                num1 = view_len(s2, root)
                if num1 is None:
                    check(b, False, "view", "after push, Deref no longer exposes buffer[0..len]")
                    continue
                if cls == "Err":
                    n_err += 1
                    check(b, s2.prove_eq0(num0 - N), "err-iff-full", "push can fail although the buffer is not full")
                    check(b, not wr, "err-no-write", "push writes to the buffer on the failure path")
                    check(b, s2.prove_eq0(num1 - num0), "err-len", "push changes the length on the failure path")
                else:
                    n_ok += 1
                    check(b, s2.prove_ge0(N - num0 - 1), "ok-iff-room", "push can succeed on a full buffer")
                    good = isinstance(args[1], VInt) and one_byte_write(s2, wr, num0, args[1].lin)
                    check(b, good, "ok-write", "push must write exactly the pushed byte at index num_elements (writes: %r)" % (wr,))
                    check(b, s2.prove_eq0(num1 - num0 - 1), "ok-len", "push must increase the length by exactly 1")
        check(b, n_ok >= 1 and n_err >= 1, "both-outcomes", "push must have a success and a failure outcome")
        # ---------------- extend_from_slice
        b = find_method(F, "util::Buffer", "extend_from_slice", T)
        n_ok = n_err = 0
        for num0, st1, rv, args, root in cases(b):
            other = args[1]
            for s2, cls in result_class(ip, st1, rv):
                wr = s2.ghost.get("c18-writes", ())
                num1 = view_len(s2, root)
                if num1 is None:
                    check(b, False, "view", "after extend_from_slice, Deref no longer exposes buffer[0..len]")
                    continue
                if cls == "Err":
                    n_err += 1
                    check(b, s2.prove_ge0(num0 + other.n - N - 1), "err-iff-too-long", "extend_from_slice can fail although the bytes fit")
                    check(b, not wr, "err-no-write", "extend_from_slice writes to the buffer on the failure path")
                    check(b, s2.prove_eq0(num1 - num0), "err-len", "extend_from_slice changes the length on the failure path")
                else:
                    n_ok += 1
                    check(b, s2.prove_ge0(N - num0 - other.n), "ok-iff-fits", "extend_from_slice can succeed although the bytes do not fit")
                    good = len(wr) == 1 and wr[0][0] == "copy" and s2.prove_eq0(wr[0][1] - num0) and s2.prove_eq0(wr[0][2] - other.n) \
                        and wr[0][3].root == other.root and s2.prove_eq0(wr[0][3].start - other.start) and s2.prove_eq0(wr[0][3].n - other.n)
                    check(b, good, "ok-write", "extend_from_slice must copy exactly `other` to [num_elements, num_elements+len) (writes: %r)" % (wr,))
                    check(b, s2.prove_eq0(num1 - num0 - other.n), "ok-len", "extend_from_slice must increase the length by len(other)")
        check(b, n_ok >= 1 and n_err >= 1, "both-outcomes", "extend_from_slice must have a success and a failure outcome")
        # ---------------- truncate
        b = find_method(F, "util::Buffer", "truncate", T)
        for num0, st1, rv, args, root in cases(b):
            k, num1 = args[1].lin, view_len(st1, root)
            ok = num1 is not None and ((st1.prove_eq0(num1 - num0) and st1.prove_ge0(k - num0)) or (st1.prove_eq0(num1 - k) and st1.prove_ge0(num0 - k)))
            check(b, ok, "min", "truncate must set the length to min(length, len)")
            check(b, not st1.ghost.get("c18-writes", ()), "no-write", "truncate must not write to the buffer")
        # ---------------- clear
        b = find_method(F, "util::Buffer", "clear", T)
        for num0, st1, rv, args, root in cases(b):
            num1 = view_len(st1, root)
            check(b, num1 is not None and st1.prove_eq0(num1), "zero", "clear must set the length to 0")
            check(b, not st1.ghost.get("c18-writes", ()), "no-write", "clear must not write to the buffer")
        # ---------------- deref: exposes buffer[0..len] (view_len already insists on it) and changes nothing
        b = deref_b
        for num0, st1, rv, args, root in cases(b):
            ok = isinstance(rv, VSlice) and rv.root == root and rv.steps == (("f", fi_buf),) and st1.prove_eq0(rv.start) and st1.prove_eq0(rv.n - num0)
            check(b, ok, "prefix", "deref must expose exactly buffer[0..num_elements] (got %r)" % (rv,))
            check(b, not st1.ghost.get("c18-writes", ()), "no-write", "deref must not write to the buffer")
            ctx.sample({"deref_returns": repr(rv), "len": repr(num0)})
    except (AnchorMissing, Unsupported) as e:
        ctx.violation("ANCHOR-MISSING", "ArrayBuf-methods", ("", 0, ""), str(e))
    # ---------------- views: private functions proved to return the Deref view count as the view
    views = {deref_b["def"]}
    for vb in F.bodies.values():
        if (vb.get("impl_self_ty") or {}).get("def") != T or vb["arg_count"] != 1 or vb["kind"] == "Closure" or vb["def"] in views:
            continue
        rt = vb["locals"][0]["ty"]
        if not (rt.get("k") == "ref" and (rt.get("to") or {}).get("k") == "slice"):
            continue
        try:
            good = True
            for num0, st1, rv, args, root in cases(vb):
                if not (isinstance(rv, VSlice) and rv.root == root and rv.steps == (("f", fi_buf),) and st1.prove_eq0(rv.start)
                        and st1.prove_eq0(rv.n - num0) and not st1.ghost.get("c18-writes", ())):
                    good = False
            if good:
                views.add(vb["def"])
        except (AnchorMissing, Unsupported):
            pass
    for tr, nm in (("std::cmp::PartialEq", "eq"), ("std::fmt::Debug", "fmt")):
        try:
            b = find_method(F, tr, nm, T)
        except AnchorMissing as e:
            ctx.violation("ANCHOR-MISSING", tr, ("", 0, ""), str(e))
            continue
        ctx.count("R-C18-VIEW")
        direct = field_accesses(b, T)
        uses_view = False
        for _bb, t in CFG(b).calls():
            ns = callee_names(t)
            if any(n.endswith("Deref::deref") or n in views for n in ns):
                uses_view = True
        if direct or not uses_view:
            viol("R-C18-VIEW", b, "fields", "%s reads ArrayBuf fields directly (%s) instead of going through the Deref view" % (b["def"], direct))
    check_from_iter(ctx, F, A, fi_buf, view_len)
    check_vec(ctx, F, A)
    ctx.cov.update({"invariant": A.inv_info.get(T), "capacity": "symbolic const generic N in [0, isize::MAX]", "view_functions": sorted(views)})
    ctx.assumptions = [ASSUMPTIONS[k] for k in ("A1", "A2", "A3")]
    ctx.explanation = (
        "ArrayBuf<N> is analysed for a symbolic capacity N. Its logical length is what Deref::deref exposes (buffer[0..len]); "
        "0 <= len <= N is inferred as a least fixpoint over all mutating methods and proved inductive. Each operation is then analysed "
        "from the invariant and its abstract outcomes (result, written index/range and value, new length as linear facts over N, len and "
        "the arguments) are compared with the specification table of an ideal bounded vector; equality/Debug must go through the view; "
        "FromIterator writes each fetched item once at the end; the Vec impl must reserve before writing.")


def field_accesses(body, tdef):
    """places in body that project a field out of a value of type tdef"""
    out = []
    def scan_place(p):
        cur = body["locals"][p["local"]]["ty"]
        for e in p["proj"]:
            if e["k"] == "field":
                if cur.get("k") == "adt" and cur.get("def") == tdef:
                    out.append(e.get("name"))
                cur = e["ty"]
            elif e["k"] == "deref":
                cur = cur.get("to", {})
            else:
                cur = {}
    def scan_op(o):
        if isinstance(o, dict) and o.get("k") in ("copy", "move"):
            scan_place(o["place"])
    for blk in body["blocks"]:
        if blk["cleanup"]:
            continue
        for st in blk["stmts"]:
            if st["k"] == "assign":
                scan_place(st["place"])
                rv = st["rv"]
                for kk in ("op", "l", "r", "x"):
                    if kk in rv:
                        scan_op(rv[kk])
                for o in rv.get("ops", []):
                    scan_op(o)
                if "place" in rv:
                    scan_place(rv["place"])
        t = blk["term"]
        for a in t.get("args", []):
            scan_op(a)
        if "discr" in t:
            scan_op(t["discr"])
    return out


def written_fields(body, tdef):
    out = []
    for blk in body["blocks"]:
        if blk["cleanup"]:
            continue
        for st in blk["stmts"]:
            if st["k"] != "assign":
                continue
            p = st["place"]
            cur = body["locals"][p["local"]]["ty"]
            for e in p["proj"]:
                if e["k"] == "field":
                    if cur.get("k") == "adt" and cur.get("def") == tdef:
                        out.append(e.get("name"))
                    cur = e["ty"]
                elif e["k"] == "deref":
                    cur = cur.get("to", {})
                else:
                    cur = {}
    return out


def check_writers(ctx, F, tdef):
    for b in F.bodies.values():
        w = written_fields(b, tdef)
        if not w:
            continue
        ctx.count("R-C18-WRITERS")
        owner = (b.get("impl_self_ty") or {}).get("def")
        if owner != tdef:
            ctx.violation("R-C18-WRITERS", b["def"], (b["span"]["file"], b["span"]["line"], b["def"]),
                          "fields %s of %s are written outside its own impls" % (sorted(set(w)), tdef))


def check_from_iter(ctx, F, A, fi_buf, view_len):
    """FromIterator, as a monitor in the abstract memory: every item fetched from the (abstract) iterator is written exactly once,
    at the index equal to the number of items written so far, before the next one is fetched; nothing else is written."""
    ip = A.ip
    try:
        b = find_method(F, "std::iter::FromIterator", "from_iter", T)
    except AnchorMissing as e:
        ctx.violation("ANCHOR-MISSING", "from_iter", ("", 0, ""), str(e))
        return
    G_CNT, G_PEND = ("G", "c18-fi-count"), ("G", "c18-fi-pending")

    def bad(st, code):
        st.ghost["c18-fi-bad"] = max(st.ghost.get("c18-fi-bad", 0), code)

    def on_res(ip_, frame, bb, t, callee, args, outs):
        if not (callee.get("trait") == "std::iter::Iterator" and callee.get("method") == "next"
                and (callee.get("self_ty") or {}).get("k") in ("param", "alias", "other", "deep")):
            return
        new = []
        for (s2, rv) in outs:
            if G_CNT not in s2.mem or not isinstance(rv, VEnum):
                new.append((s2, rv))
                continue
            if s2.const_of(s2.mem[G_PEND].lin) != 0:
                bad(s2, 1)
            for s3, var, pay in split_enum(ip_, s2, rv, "item"):
                if var == 1:
                    s3.mem[G_PEND] = cint(1, 8, False)
                    s3.ghost["c18-fi-item"] = pay[0]
                new.append((s3, VEnum(rv.defn, Lin.const(var), {var: pay})))
        outs[:] = new

    def note_write(st, idx, val_lin):
        if G_CNT not in st.mem:
            return
        item = st.ghost.get("c18-fi-item")
        if st.const_of(st.mem[G_PEND].lin) != 1 or not isinstance(item, VInt) or val_lin is None or not st.prove_eq0(val_lin - item.lin) \
                or not st.prove_eq0(idx - st.mem[G_CNT].lin):
            bad(st, 2)
        st.mem[G_PEND] = cint(0, 8, False)
        st.mem[G_CNT] = VInt(st.mem[G_CNT].lin + 1, 64, False)

    def on_assign(ip_, frame, bb, stmt, st, val):
        if G_CNT not in st.mem:
            return
        try:
            a = ip_.resolve(frame, stmt["place"], st)
        except Unsupported:
            return
        if len(a.steps) >= 2 and a.steps[-2] == ("f", fi_buf) and a.steps[-1][0] == "ix":
            v = st.mem.get(a.root)
            if isinstance(v, VAgg) and v.defn == T or True:
                note_write(st, a.steps[-1][1], val.lin if isinstance(val, VInt) else None)

    def on_copy(ip_, frame, bb, st, dst, src):
        if G_CNT not in st.mem or not dst.steps or dst.steps[-1] != ("f", fi_buf):
            return
        from ..vra.stdsum import slice_elem
        e = None
        if st.prove_eq0(dst.n - 1):
            try:
                e = slice_elem(ip_, st, src, Lin.const(0))
            except Unsupported:
                e = None
        if e is None:
            bad(st, 2)
            return
        note_write(st, dst.start, e.lin if isinstance(e, VInt) else None)
    ip.on_call_result.append(on_res)
    ip.on_assign.append(on_assign)
    ip.on_copy.append(on_copy)
    try:
        st0 = ip.new_state()
        st0.mem[G_CNT] = cint(0, 64, False)
        st0.mem[G_PEND] = cint(0, 8, False)
        outs = A.run_fn(b, st0=st0)
    finally:
        ip.on_call_result.remove(on_res)
        ip.on_assign.remove(on_assign)
        ip.on_copy.remove(on_copy)
    ctx.count("R-C18-FROMITER")
    ok = bool(outs)
    why = "no path returns"
    for (s1, rv, _a) in outs:
        code = s1.ghost.get("c18-fi-bad", 0)
        if code or s1.const_of(s1.mem[G_PEND].lin) != 0:
            ok = False
            why = {1: "an item is fetched before the previous one was written", 2: "a write is not the fetched item at the next free index"}.get(
                code, "the last fetched item is not written")
    ctx.oblig(ok)
    if not ok:
        ctx.violation("R-C18-FROMITER", "loop", (b["span"]["file"], b["span"]["line"], b["def"]),
                      "from_iter must push every item of the iterator exactly once per iteration, unmodified (%s)" % why)


def item_flows(b, next_bb, push_bb):
    """the value pushed is the payload of the Option returned by next (through copies/moves only)"""
    dest = b["blocks"][next_bb]["term"]["dest"]["local"]
    arg = b["blocks"][push_bb]["term"]["args"][1]
    if arg["k"] not in ("copy", "move"):
        return False
    cur = arg["place"]
    for _ in range(6):
        if cur["local"] == dest and cur["proj"] and cur["proj"][0]["k"] == "downcast" and cur["proj"][0]["name"] == "Some":
            return True
        if cur["proj"]:
            return False
        src = None
        for blk in b["blocks"]:
            for st in blk["stmts"]:
                if st["k"] == "assign" and st["place"]["local"] == cur["local"] and not st["place"]["proj"]:
                    rv = st["rv"]
                    if rv["k"] == "use" and rv["op"]["k"] in ("copy", "move"):
                        src = rv["op"]["place"]
        if src is None:
            return False
        cur = src
    return False


def check_vec(ctx, F, A):
    ip = A.ip
    for nm, write_fn in (("push", "std::vec::Vec::<T, A>::push"), ("extend_from_slice", "std::vec::Vec::<T, A>::extend_from_slice")):
        try:
            b = [x for x in F.bodies.values() if x.get("impl_trait") == "util::Buffer" and x.get("name") == nm
                 and (x.get("impl_self_ty") or {}).get("def") == "std::vec::Vec"]
            if len(b) != 1:
                raise AnchorMissing("Buffer::%s for Vec<u8>" % nm)
            b = b[0]
        except AnchorMissing as e:
            ctx.violation("ANCHOR-MISSING", "vec-" + nm, ("", 0, ""), str(e))
            continue
        trace_key = "c18-trace"

        def on_call(ip_, frame, bb, t, st, callee, args, _b=b):
            if st.ghost.get("c18-vec-on"):
                r = callee.get("resolved") or callee
                st.ghost[trace_key] = st.ghost.get(trace_key, ()) + ((r["def"], tuple(args)),)
        ip.on_call.append(on_call)
        try:
            st0 = ip.new_state()
            st0.ghost["c18-vec-on"] = True
            outs = A.run_fn(b, st0=st0)
        finally:
            ip.on_call.remove(on_call)
        n_ok = n_err = 0
        for (s1, rv, args) in outs:
            for s2, cls in result_class(ip, s1, rv):
                ctx.count("R-C18-VEC")
                tr = [c for c in s2.ghost.get(trace_key, ()) if c[0].startswith("std::vec::Vec")]
                names = [c[0] for c in tr]
                want = args[1].n if nm == "extend_from_slice" else Lin.const(1)
                res_ok = bool(tr) and names[0].endswith("try_reserve") and isinstance(tr[0][1][1], VInt) and \
                    s2.prove_eq0(tr[0][1][1].lin - want)
                if cls == "Ok":
                    n_ok += 1
                    good = res_ok and names == [names[0], write_fn]
                else:
                    n_err += 1
                    good = res_ok and names == [names[0]]
                ctx.oblig(good)
                if not good:
                    ctx.violation("R-C18-VEC", "%s|%s" % (nm, cls), (b["span"]["file"], b["span"]["line"], b["def"]),
                                  "Vec Buffer::%s, %s path: expected try_reserve(%s) %s, got calls %s" %
                                  (nm, cls, "len(other)" if nm != "push" else "1", "then the infallible write" if cls == "Ok" else "only", names))
        if not (n_ok and n_err):
            ctx.violation("R-C18-VEC", nm + "|outcomes", (b["span"]["file"], b["span"]["line"], b["def"]),
                          "Vec Buffer::%s must have both an Ok and an Err(OutOfMemory) outcome" % nm)

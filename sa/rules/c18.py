"""C18 ArrayBuf behaves as a capacity-bounded byte vector."""
from ..common import ASSUMPTIONS
from ..engine import AnchorMissing, field_index
from ..cfg import CFG, callee_names
from ..lin import Lin
from ..vra.interp import Unsupported
from ..vra.values import *
from ..vra.stdsum import split_enum, as_slice

T = "util::ArrayBuf"


def find_method(F, trait, name, self_def):
    r = [b for b in F.bodies.values() if b.get("impl_trait") == trait and b.get("name") == name
         and (b.get("impl_self_ty") or {}).get("def") == self_def]
    if len(r) != 1:
        raise AnchorMissing("<%s as %s>::%s: %d bodies" % (self_def, trait, name, len(r)))
    return r[0]


def result_class(ip, st, ret):
    return [(s2, "Ok" if var == 0 else "Err") for s2, var, _p in split_enum(ip, st, ret, "result")]


def run(ctx):
    ctx.rule("R-C18-INV", "0 <= num_elements <= N is an inductive object invariant (all fields private, who-may-write = the impl)")
    ctx.rule("R-C18-EFFECT", "per-operation effect summaries of push/extend_from_slice/truncate/clear/deref equal the ideal bounded "
                             "vector: success condition, written range and values, new length, no write on failure")
    ctx.rule("R-C18-VIEW", "PartialEq and Debug look at the buffer only through Deref (the logical prefix)")
    ctx.rule("R-C18-FROMITER", "FromIterator pushes every item exactly once, in order")
    ctx.rule("R-C18-VEC", "the Vec<u8> Buffer impl reserves fallibly before every write and returns Err without touching the vector")
    ctx.rule("R-C18-WRITERS", "fields of ArrayBuf are private and only written by ArrayBuf's own impls")
    F = ctx.facts("all")
    A = ctx.analysis("all")
    ip = A.ip
    adt = F.adts.get(T)
    if adt is None:
        ctx.violation("ANCHOR-MISSING", T, ("", 0, ""), "type not found")
        return
    try:
        fi_buf = field_index(F, T, "buffer")
        fi_num = field_index(F, T, "num_elements")
    except AnchorMissing as e:
        ctx.violation("ANCHOR-MISSING", T, ("", 0, ""), str(e))
        return
    for fl in adt["variants"][0]["fields"]:
        ctx.count("R-C18-WRITERS")
        if fl["vis"] == "pub":
            ctx.violation("R-C18-WRITERS", "pub-field|" + fl["name"], (adt["span"]["file"], adt["span"]["line"], T),
                          "field %s of ArrayBuf is public: the length invariant can be broken from outside" % fl["name"])
    check_writers(ctx, F, T)
    # ---- write tracking
    def on_assign(ip_, frame, bb, stmt, st, val):
        w = st.ghost.get("c18-self")
        if w is None:
            return
        try:
            a = ip_.resolve(frame, stmt["place"], st)
        except Unsupported:
            return
        if a.root == w and a.steps[:1] == (("f", fi_buf),) and len(a.steps) >= 2:
            st.ghost["c18-writes"] = st.ghost.get("c18-writes", ()) + (("elem", a.steps[1][1], val),)

    def on_copy(ip_, frame, bb, st, dst, src):
        w = st.ghost.get("c18-self")
        if w is not None and dst.root == w and dst.steps[:1] == (("f", fi_buf),):
            st.ghost["c18-writes"] = st.ghost.get("c18-writes", ()) + (("copy", dst.start, dst.n, src),)
    ip.on_assign.append(on_assign)
    ip.on_copy.append(on_copy)
    try:
        inv = A.invariant(T)
    except (AnchorMissing, Unsupported) as e:
        ctx.violation("R-C18-INV", T, ("", 0, ""), "cannot infer invariant: %s" % e)
        return
    N = ip.const_param(None, "N", None)
    # the invariant itself
    for key, S in inv.parts.items():
        obj = S.mem[("INV", 0)]
        num = obj.elems[fi_num].lin
        ok = S.prove_ge0(N - num) and S.prove_ge0(num)
        ctx.count("R-C18-INV")
        ctx.oblig(ok)
        ctx.sample({"invariant": "0 <= num_elements <= N", "facts": [repr(f) for f in S.facts], "N": repr(N), "num_elements": repr(num)})
        if not ok:
            ctx.violation("R-C18-INV", "num<=N", (adt["span"]["file"], adt["span"]["line"], T),
                          "num_elements <= N is not an invariant of ArrayBuf: %s" % A.inv_info[T]["partitions"])

    def cases(body):
        inv_ = A.invariant(T)
        out = []
        for key, S in inv_.parts.items():
            st = ip.new_state()
            obj0 = A.import_partition(st, S)
            root = ip.new_oid("self")
            st.mem[root] = obj0
            st.ghost["c18-self"] = root
            a0 = body["locals"][1]["ty"]
            for (s2, rv, args) in A.run_fn(body, st0=st, first_arg=VRef(root, (), a0.get("mut", False))):
                out.append((obj0, s2, s2.mem[root], rv, args, root))
        return out

    def viol(rule, body, key, msg):
        ctx.violation(rule, "%s|%s" % (body["name"], key), (body["span"]["file"], body["span"]["line"], body["def"]), msg)

    def check(body, cond, key, msg):
        ctx.count("R-C18-EFFECT")
        ctx.oblig(bool(cond))
        if not cond:
            viol("R-C18-EFFECT", body, key, msg)

    try:
        # ---------------- push
        b = find_method(F, "util::Buffer", "push", T)
        n_ok = n_err = 0
        for obj0, st1, obj1, rv, args, root in cases(b):
            num0 = obj0.elems[fi_num].lin
            for s2, cls in result_class(ip, st1, rv):
                num1 = obj1.elems[fi_num].lin
                wr = s2.ghost.get("c18-writes", ())
                if cls == "Err":
                    n_err += 1
                    check(b, s2.prove_eq0(num0 - N), "err-iff-full", "push can fail although the buffer is not full")
                    check(b, not wr, "err-no-write", "push writes to the buffer on the failure path")
                    check(b, s2.prove_eq0(num1 - num0), "err-len", "push changes the length on the failure path")
                else:
                    n_ok += 1
                    check(b, s2.prove_ge0(N - num0 - 1), "ok-iff-room", "push can succeed on a full buffer")
                    good = len(wr) == 1 and wr[0][0] == "elem" and s2.prove_eq0(wr[0][1] - num0) and \
                        isinstance(wr[0][2], VInt) and isinstance(args[1], VInt) and s2.prove_eq0(wr[0][2].lin - args[1].lin)
                    check(b, good, "ok-write", "push must write exactly the pushed byte at index num_elements (writes: %r)" % (wr,))
                    check(b, s2.prove_eq0(num1 - num0 - 1), "ok-len", "push must increase the length by exactly 1")
        check(b, n_ok >= 1 and n_err >= 1, "both-outcomes", "push must have a success and a failure outcome")
        # ---------------- extend_from_slice
        b = find_method(F, "util::Buffer", "extend_from_slice", T)
        n_ok = n_err = 0
        for obj0, st1, obj1, rv, args, root in cases(b):
            num0 = obj0.elems[fi_num].lin
            other = args[1]
            for s2, cls in result_class(ip, st1, rv):
                num1 = obj1.elems[fi_num].lin
                wr = s2.ghost.get("c18-writes", ())
                if cls == "Err":
                    n_err += 1
                    check(b, s2.prove_ge0(num0 + other.n - N - 1), "err-iff-too-long", "extend_from_slice can fail although the bytes fit")
                    check(b, not wr, "err-no-write", "extend_from_slice writes to the buffer on the failure path")
                    check(b, s2.prove_eq0(num1 - num0), "err-len", "extend_from_slice changes the length on the failure path")
                else:
                    n_ok += 1
                    check(b, s2.prove_ge0(N - num0 - other.n), "ok-iff-fits", "extend_from_slice can succeed although the bytes do not fit")
                    good = len(wr) == 1 and wr[0][0] == "copy" and s2.prove_eq0(wr[0][1] - num0) and s2.prove_eq0(wr[0][2] - other.n) \
                        and wr[0][3].root == other.root and s2.prove_eq0(wr[0][3].start - other.start) and s2.prove_eq0(wr[0][3].n - other.n)
                    check(b, good, "ok-write", "extend_from_slice must copy exactly `other` to [num_elements, num_elements+len) (writes: %r)" % (wr,))
                    check(b, s2.prove_eq0(num1 - num0 - other.n), "ok-len", "extend_from_slice must increase the length by len(other)")
        check(b, n_ok >= 1 and n_err >= 1, "both-outcomes", "extend_from_slice must have a success and a failure outcome")
        # ---------------- truncate
        b = find_method(F, "util::Buffer", "truncate", T)
        for obj0, st1, obj1, rv, args, root in cases(b):
            num0, k, num1 = obj0.elems[fi_num].lin, args[1].lin, obj1.elems[fi_num].lin
            ok = (st1.prove_eq0(num1 - num0) and st1.prove_ge0(k - num0)) or (st1.prove_eq0(num1 - k) and st1.prove_ge0(num0 - k))
            check(b, ok, "min", "truncate must set the length to min(length, len)")
            check(b, not st1.ghost.get("c18-writes", ()), "no-write", "truncate must not write to the buffer")
        # ---------------- clear
        b = find_method(F, "util::Buffer", "clear", T)
        for obj0, st1, obj1, rv, args, root in cases(b):
            check(b, st1.prove_eq0(obj1.elems[fi_num].lin), "zero", "clear must set the length to 0")
            check(b, not st1.ghost.get("c18-writes", ()), "no-write", "clear must not write to the buffer")
        # ---------------- deref
        b = find_method(F, "std::ops::Deref", "deref", T)
        for obj0, st1, obj1, rv, args, root in cases(b):
            num0 = obj0.elems[fi_num].lin
            ok = isinstance(rv, VSlice) and rv.root == root and rv.steps == (("f", fi_buf),) and \
                st1.prove_eq0(rv.start) and st1.prove_eq0(rv.n - num0)
            check(b, ok, "prefix", "deref must expose exactly buffer[0..num_elements] (got %r)" % (rv,))
            ctx.sample({"deref_returns": repr(rv), "num_elements": repr(num0)})
    except (AnchorMissing, Unsupported) as e:
        ctx.violation("ANCHOR-MISSING", "ArrayBuf-methods", ("", 0, ""), str(e))
    # ---------------- views
    for tr, nm in (("std::cmp::PartialEq", "eq"), ("std::fmt::Debug", "fmt")):
        try:
            b = find_method(F, tr, nm, T)
        except AnchorMissing as e:
            ctx.violation("ANCHOR-MISSING", tr, ("", 0, ""), str(e))
            continue
        ctx.count("R-C18-VIEW")
        direct = field_accesses(b, T)
        derefs = [t for _bb, t in CFG(b).calls() if any(n.endswith("Deref::deref") for n in callee_names(t))]
        if direct or not derefs:
            viol("R-C18-VIEW", b, "fields", "%s reads ArrayBuf fields directly (%s) instead of going through Deref" % (b["def"], direct))
    check_from_iter(ctx, F, A)
    check_vec(ctx, F, A)
    ctx.cov.update({"invariant": A.inv_info.get(T), "capacity": "symbolic const generic N in [0, isize::MAX]"})
    ctx.assumptions = [ASSUMPTIONS[k] for k in ("A1", "A2", "A3")]
    ctx.explanation = (
        "ArrayBuf<N> is analysed for a symbolic capacity N. Its invariant num_elements <= N is inferred as a least fixpoint over all "
        "mutating methods and proved inductive. Each operation is then analysed from the invariant and its abstract outcomes (result, "
        "written index/range and value, new length as linear facts over N, num_elements and the arguments) are compared with the "
        "specification table of an ideal bounded vector; equality/Debug must go through Deref; the Vec impl must reserve before writing.")


def field_accesses(body, tdef):
    """places in body that project a field out of a value of type tdef"""
    out = []
    def scan_place(p):
        cur = body["locals"][p["local"]]["ty"]
        for e in p["proj"]:
            if e["k"] == "field":
                if cur.get("k") == "adt" and cur.get("def") == tdef:
                    out.append(e.get("name"))
                cur = e["ty"]
            elif e["k"] == "deref":
                cur = cur.get("to", {})
            else:
                cur = {}
    def scan_op(o):
        if isinstance(o, dict) and o.get("k") in ("copy", "move"):
            scan_place(o["place"])
    for blk in body["blocks"]:
        if blk["cleanup"]:
            continue
        for st in blk["stmts"]:
            if st["k"] == "assign":
                scan_place(st["place"])
                rv = st["rv"]
                for kk in ("op", "l", "r", "x"):
                    if kk in rv:
                        scan_op(rv[kk])
                for o in rv.get("ops", []):
                    scan_op(o)
                if "place" in rv:
                    scan_place(rv["place"])
        t = blk["term"]
        for a in t.get("args", []):
            scan_op(a)
        if "discr" in t:
            scan_op(t["discr"])
    return out


def written_fields(body, tdef):
    out = []
    for blk in body["blocks"]:
        if blk["cleanup"]:
            continue
        for st in blk["stmts"]:
            if st["k"] != "assign":
                continue
            p = st["place"]
            cur = body["locals"][p["local"]]["ty"]
            for e in p["proj"]:
                if e["k"] == "field":
                    if cur.get("k") == "adt" and cur.get("def") == tdef:
                        out.append(e.get("name"))
                    cur = e["ty"]
                elif e["k"] == "deref":
                    cur = cur.get("to", {})
                else:
                    cur = {}
    return out


def check_writers(ctx, F, tdef):
    for b in F.bodies.values():
        w = written_fields(b, tdef)
        if not w:
            continue
        ctx.count("R-C18-WRITERS")
        owner = (b.get("impl_self_ty") or {}).get("def")
        if owner != tdef:
            ctx.violation("R-C18-WRITERS", b["def"], (b["span"]["file"], b["span"]["line"], b["def"]),
                          "fields %s of %s are written outside its own impls" % (sorted(set(w)), tdef))


def check_from_iter(ctx, F, A):
    try:
        b = find_method(F, "std::iter::FromIterator", "from_iter", T)
    except AnchorMissing as e:
        ctx.violation("ANCHOR-MISSING", "from_iter", ("", 0, ""), str(e))
        return
    cfg = CFG(b)
    loops = cfg.loops()
    ctx.count("R-C18-FROMITER")
    ok = False
    for head, lbody in loops.items():
        nexts = [n for n in lbody if b["blocks"][n]["term"]["k"] == "call" and
                 any(x.endswith("Iterator::next") for x in callee_names(b["blocks"][n]["term"]))]
        pushes = [n for n in lbody if b["blocks"][n]["term"]["k"] == "call" and
                  any(x.endswith("util::Buffer>::push") or x == "util::Buffer::push" for x in callee_names(b["blocks"][n]["term"]))]
        if len(nexts) == 1 and len(pushes) == 1:
            # every cycle passes the push; the pushed operand is the item of this iteration
            cyc_without_push = any(head in cfg.reachable_from(s, avoid={pushes[0]}) for s in cfg.succ[head] if s in lbody and s != pushes[0])
            # the Some-edge of next must lead to the push: the None-edge leaves the loop
            if not cyc_without_push and item_flows(b, nexts[0], pushes[0]):
                ok = True
    ctx.oblig(ok)
    if not ok:
        ctx.violation("R-C18-FROMITER", "loop", (b["span"]["file"], b["span"]["line"], b["def"]),
                      "from_iter must push every item of the iterator exactly once per iteration, unmodified")


def item_flows(b, next_bb, push_bb):
    """the value pushed is the payload of the Option returned by next (through copies/moves only)"""
    dest = b["blocks"][next_bb]["term"]["dest"]["local"]
    arg = b["blocks"][push_bb]["term"]["args"][1]
    if arg["k"] not in ("copy", "move"):
        return False
    cur = arg["place"]
    for _ in range(6):
        if cur["local"] == dest and cur["proj"] and cur["proj"][0]["k"] == "downcast" and cur["proj"][0]["name"] == "Some":
            return True
        if cur["proj"]:
            return False
        src = None
        for blk in b["blocks"]:
            for st in blk["stmts"]:
                if st["k"] == "assign" and st["place"]["local"] == cur["local"] and not st["place"]["proj"]:
                    rv = st["rv"]
                    if rv["k"] == "use" and rv["op"]["k"] in ("copy", "move"):
                        src = rv["op"]["place"]
        if src is None:
            return False
        cur = src
    return False


def check_vec(ctx, F, A):
    ip = A.ip
    for nm, write_fn in (("push", "std::vec::Vec::<T, A>::push"), ("extend_from_slice", "std::vec::Vec::<T, A>::extend_from_slice")):
        try:
            b = [x for x in F.bodies.values() if x.get("impl_trait") == "util::Buffer" and x.get("name") == nm
                 and (x.get("impl_self_ty") or {}).get("def") == "std::vec::Vec"]
            if len(b) != 1:
                raise AnchorMissing("Buffer::%s for Vec<u8>" % nm)
            b = b[0]
        except AnchorMissing as e:
            ctx.violation("ANCHOR-MISSING", "vec-" + nm, ("", 0, ""), str(e))
            continue
        trace_key = "c18-trace"

        def on_call(ip_, frame, bb, t, st, callee, args, _b=b):
            if st.ghost.get("c18-vec-on"):
                r = callee.get("resolved") or callee
                st.ghost[trace_key] = st.ghost.get(trace_key, ()) + ((r["def"], tuple(args)),)
        ip.on_call.append(on_call)
        try:
            st0 = ip.new_state()
            st0.ghost["c18-vec-on"] = True
            outs = A.run_fn(b, st0=st0)
        finally:
            ip.on_call.remove(on_call)
        n_ok = n_err = 0
        for (s1, rv, args) in outs:
            for s2, cls in result_class(ip, s1, rv):
                ctx.count("R-C18-VEC")
                tr = [c for c in s2.ghost.get(trace_key, ()) if c[0].startswith("std::vec::Vec")]
                names = [c[0] for c in tr]
                want = args[1].n if nm == "extend_from_slice" else Lin.const(1)
                res_ok = bool(tr) and names[0].endswith("try_reserve") and isinstance(tr[0][1][1], VInt) and \
                    s2.prove_eq0(tr[0][1][1].lin - want)
                if cls == "Ok":
                    n_ok += 1
                    good = res_ok and names == [names[0], write_fn]
                else:
                    n_err += 1
                    good = res_ok and names == [names[0]]
                ctx.oblig(good)
                if not good:
                    ctx.violation("R-C18-VEC", "%s|%s" % (nm, cls), (b["span"]["file"], b["span"]["line"], b["def"]),
                                  "Vec Buffer::%s, %s path: expected try_reserve(%s) %s, got calls %s" %
                                  (nm, cls, "len(other)" if nm != "push" else "1", "then the infallible write" if cls == "Ok" else "only", names))
        if not (n_ok and n_err):
            ctx.violation("R-C18-VEC", nm + "|outcomes", (b["span"]["file"], b["span"]["line"], b["def"]),
                          "Vec Buffer::%s must have both an Ok and an Err(OutOfMemory) outcome" % nm)

"""C11 I/O faults: would-block is transparent, errors cost only the frame in flight (decoder-side obligations)."""
from ..common import ASSUMPTIONS
from ..engine import AnchorMissing
from ..cfg import CFG, callee_names
from ..lin import Lin
from ..vra.interp import Unsupported
from ..vra.state import Infeasible
from ..vra.values import *
from ..vra.stdsum import split_enum
from .frontends import *

RD = "transport::decoder_reader::DecoderReader"
ERRKIND = "util::ErrKind"


def run(ctx):
    ctx.rule("R-C11-WB", "DecoderReader::read on a would-block source error: no call touches the decoder, the reported count is the constant 0 and "
                         "the source error is forwarded unmodified")
    ctx.rule("R-C11-RESET", "on end-of-file and other source errors Decoder::reset is called exactly once and its return value is the reported count")
    ctx.rule("R-C11-NONE", "next() returns None exactly for an EOF error with count 0 and forwards everything else; read_nb maps would-block "
                           "errors to nb::WouldBlock and everything else to Other unchanged; next_nb likewise")
    ctx.rule("R-C11-KIND", "error classification tables: io::ErrorKind::UnexpectedEof -> Eof, WouldBlock -> WouldBlock, else Other; "
                           "nb::Error::WouldBlock -> WouldBlock, Other(_) -> Other; Eof -> Eof; is_eof / is_would_block test exactly those kinds")
    ctx.rule("R-C11-EXACT1", "IoByteSource::read_byte reads through Read::read_exact on a 1-byte buffer (std retries Interrupted) and forwards its error")
    F = ctx.facts("all")
    A = ctx.analysis("all")
    try:
        check_read(ctx, F, A)
        check_next(ctx, F, A)
        check_kinds(ctx, F, A)
        check_io_source(ctx, F, A)
        from .decoder import Anchors, check_final_reset, NOD
        an = Anchors(F)
        A.invariant(NOD)
        ctx.rule("R-C11-FINAL", "finalize() and reset() report the same pending-byte count from every decoder state (what the reader "
                 "front-ends attach to an I/O error / EOF equals what the iterator front-ends report as trailing DiscardedBytes)")
        check_final_reset(ctx, A, F, an, "R-C11-FINAL")
        ctx.include("C17", "'returned together with the exact number of not-yet-reported bytes it discards': the reader reports reset()'s value (R-C11-RESET); that this value is the number of bytes consumed since the last boundary is the byte-accounting property")
    except (AnchorMissing, Unsupported, KeyError) as e:
        ctx.violation("ANCHOR-MISSING", "reader", ("", 0, ""), "%s: %s" % (type(e).__name__, e))
    ctx.assumptions = [ASSUMPTIONS[k] for k in ("A1", "A2", "A4", "A6")]
    ctx.explanation = (
        "Decoder-side obligations of the I/O-fault property, decided on abstract paths of the reader with the byte source and the push "
        "decoder as opaque components: the would-block path is effect-free on the decoder (no call receives it), the other error paths "
        "reset exactly once and report reset()'s value, None is returned exactly for EOF with nothing pending, and the classification "
        "tables are extracted from the switch tables of the kind() implementations (variant numbers taken from the compiler's own enum "
        "layout). With C14 (reset => fresh) and C17 (count = bytes since the last boundary) nothing else is needed on the decoder side. "
        "Not decided: behaviour of the caller's io::Read.")


def viol(ctx, rule, b, key, msg):
    ctx.violation(rule, "%s|%s" % (b["def"], key), (b["span"]["file"], b["span"]["line"], b["def"]), msg)


def kind_of(F, st, v):
    n, _ = enum_variant(F, st, v)
    return n


RID = {"protocol": "R-C11-RESET", "wb": "R-C11-WB", "reset": "R-C11-RESET", "result": "R-C11-NONE"}


def check_read(ctx, F, A):
    """read(): under the reader protocol monitor (readermon.py) a would-block source error leaves the decoder untouched and is
    reported with count 0, every other source error resets the decoder exactly once and reports reset()'s value, the error value
    itself is forwarded; decided on the calls the path makes after the failing read, wherever they are written."""
    from . import readermon
    readermon.check(ctx, F, A, "read", "R-C11-RESET", lambda kind: RID[kind])


def check_next(ctx, F, A):
    """next / read_nb / next_nb are specified against the result of the read they stand for (monitor state at return), whether
    or not they are implemented on top of read()."""
    from . import readermon
    for fn in ("next", "read_nb", "next_nb"):
        if any(b.get("name") == fn and (b.get("impl_self_ty") or {}).get("def") == RD for b in F.bodies.values()):
            readermon.check(ctx, F, A, fn, "R-C11-NONE", lambda kind: RID[kind])
        else:
            viol(ctx, "R-C11-NONE", body_of(F, RD, "read"), "missing|" + fn, "DecoderReader::%s not found" % fn)


def same_result(st, a, b):
    """a and b denote the same value (identical, or enums with the same constant variant and the same payload)"""
    if a == b:
        return True
    if isinstance(a, VEnum) and isinstance(b, VEnum) and a.defn == b.defn:
        ca, cb = st.const_of(a.disc), st.const_of(b.disc)
        if ca is None or ca != cb:
            return False
        pa, pb = a.pay.get(ca, ()), b.pay.get(cb, ())
        return len(pa) == len(pb) and all(same_result(st, x, y) for x, y in zip(pa, pb))
    if isinstance(a, VInt) and isinstance(b, VInt):
        return st.prove_eq0(a.lin - b.lin)
    return False


def trace_all(st):
    return st.ghost.get("trace", ())


def find_same(a, b):
    return a == b


def check_kinds(ctx, F, A):
    ip = A.ip
    ek = F.adts[ERRKIND]
    # io::Error
    b = [x for x in F.bodies.values() if x.get("impl_trait") == "util::ByteSourceErr" and x.get("name") == "kind"
         and ty_str(x["impl_self_ty"]) == "std::io::Error"]
    if len(b) != 1:
        raise AnchorMissing("ByteSourceErr::kind for io::Error")
    b = b[0]
    iok = {v["name"]: v["discr"] for v in F.ext_enums["std::io::ErrorKind"]["variants"]}
    # the classification is evaluated for every variant of io::ErrorKind in turn (the result of io::Error::kind() is forced
    # to that variant), so it does not matter whether the code uses a match, an if-chain or comparisons
    table = {}
    forced = {}

    def on_res(ip_, frame, bb, t, callee, args, outs):
        r = (callee.get("resolved") or callee)["def"]
        if r == "std::io::Error::kind" and forced.get("d") is not None:
            d = forced["d"]
            outs[:] = [(s2, VEnum("std::io::ErrorKind", Lin.const(d), {d: ()})) for (s2, _v) in outs]
    ip.on_call_result.insert(0, on_res)
    try:
        for vname, d in sorted(iok.items(), key=lambda kv: kv[1]):
            forced["d"] = d
            names = set()
            for p in paths(A, F, b, lambda c: False):
                kd = [e for e in p["trace"] if e["key"] == "std::io::Error::kind"]
                if len(kd) != 1:
                    names.add("?")
                    continue
                names.add(enum_variant(F, p["st"], p["ret"])[0])
            for nm in names:
                table.setdefault(nm, set()).add(d)
    finally:
        forced["d"] = None
        ip.on_call_result.remove(on_res)
    others = set(iok.values()) - {iok["UnexpectedEof"], iok["WouldBlock"]}
    table = {k: ({"rest"} if v == others else v) for k, v in table.items()}
    ctx.count("R-C11-KIND", 3)
    ok = table.get("Eof") == {iok["UnexpectedEof"]} and table.get("WouldBlock") == {iok["WouldBlock"]} and table.get("Other") == {"rest"}
    ctx.oblig(ok)
    ctx.sample({"io_error_kind_table": {k: sorted(map(str, v)) for k, v in table.items()}, "ErrorKind_numbers": {k: iok[k] for k in ("UnexpectedEof", "WouldBlock", "Interrupted")}})
    if not ok:
        viol(ctx, "R-C11-KIND", b, "io", "io::Error classification table is %r; specified: UnexpectedEof(%d) -> Eof, WouldBlock(%d) -> WouldBlock, everything else -> Other"
             % (table, iok["UnexpectedEof"], iok["WouldBlock"]))
    # nb::Error
    nbb = [x for x in F.bodies.values() if x.get("impl_trait") == "util::ByteSourceErr" and x.get("name") == "kind"
           and (x["impl_self_ty"].get("def") == "nb::Error")]
    if len(nbb) == 1:
        t2 = {}
        for p in paths(A, F, nbb[0], lambda c: False):
            st = p["st"]
            arg = ip.read_raw(st, p["args"][0].root, p["args"][0].steps)
            an, _ = enum_variant(F, st, arg)
            name, _ = enum_variant(F, st, p["ret"])
            t2[an] = name
        ok = t2 == {"WouldBlock": "WouldBlock", "Other": "Other"}
        ctx.oblig(ok)
        if not ok:
            viol(ctx, "R-C11-KIND", nbb[0], "nb", "nb::Error classification table is %r" % t2)
    else:
        viol(ctx, "R-C11-KIND", b, "nb-anchor", "ByteSourceErr::kind for nb::Error not found")
    # Eof
    eb = [x for x in F.bodies.values() if x.get("impl_trait") == "util::ByteSourceErr" and x.get("name") == "kind"
          and x["impl_self_ty"].get("def") == "util::Eof"]
    ok = False
    if len(eb) == 1:
        r = paths(A, F, eb[0], lambda c: False)
        ok = len(r) == 1 and enum_variant(F, r[0]["st"], r[0]["ret"])[0] == "Eof"
    ctx.oblig(ok)
    if not ok:
        viol(ctx, "R-C11-KIND", b, "eof", "util::Eof must classify as ErrKind::Eof")
    # is_eof / is_would_block defaults and overrides
    for nm, want_kind in (("is_eof", "Eof"), ("is_would_block", "WouldBlock")):
        bodies = [x for x in F.bodies.values() if x.get("name") == nm and (x.get("trait_default") == "util::ByteSourceErr" or x.get("impl_trait") == "util::ByteSourceErr")]
        ctx.count("R-C11-KIND", len(bodies))
        if not bodies:
            viol(ctx, "R-C11-KIND", b, nm, "%s not found" % nm)
        for x in bodies:
            good = True
            seen = set()
            for p in paths(A, F, x, lambda c: False):
                st = p["st"]
                kd = [e for e in p["trace"] if short(e["key"]) == "kind"]
                if len(kd) != 1:
                    good = False
                    continue
                kn = kind_of(F, st, kd[0]["ret"])
                truth = bool_is(st, p["ret"], True)
                seen.add((kn, truth))
                if kn is not None and truth != (kn == want_kind):
                    good = False
                if kn is None:
                    # non-constant kind: the result must be false and the kind must exclude want_kind
                    sg = kd[0]["ret"].disc.single()
                    vals = st.values(sg[0]) if sg else None
                    widx = [v["idx"] for v in F.adts[ERRKIND]["variants"] if v["name"] == want_kind][0]
                    if truth or vals is None or widx in vals:
                        good = False
            ctx.oblig(good)
            if not good:
                viol(ctx, "R-C11-KIND", x, nm, "%s must be true exactly for ErrKind::%s (saw %r)" % (nm, want_kind, sorted(seen, key=str)))


def check_io_source(ctx, F, A):
    ip = A.ip
    b = [x for x in F.bodies.values() if x.get("impl_trait") == "util::ByteSource" and x.get("name") == "read_byte"
         and x["impl_self_ty"].get("def") == "util::IoByteSource"]
    if len(b) != 1:
        raise AnchorMissing("IoByteSource::read_byte")
    b = b[0]
    n_ok = n_err = 0
    for p in paths(A, F, b, lambda c: False):
        st, tr = p["st"], p["trace"]
        rx = [e for e in tr if short(e["key"]) == "read_exact"]
        var, pay = enum_variant(F, st, p["ret"])
        ctx.count("R-C11-EXACT1")
        ok = len(rx) == 1 and isinstance(rx[0]["args"][1], VSlice) and st.const_of(rx[0]["args"][1].n) == 1 \
            and len([e for e in tr if "Read" in e["key"] and short(e["key"]) != "read_exact"]) == 0
        if ok:
            rv, rp = enum_variant(F, st, rx[0]["ret"])
            if rv == "Ok":
                n_ok += 1
                # the byte returned is the content of the 1-byte buffer handed to read_exact
                sg = pay[0].lin.single() if var == "Ok" and isinstance(pay[0], VInt) else None
                ok = sg is not None and ip.tab.origin(sg[0]) == "havoc:slice-write"
            else:
                n_err += 1
                ok = var == "Err" and pay[0] == rp[0]
        ctx.oblig(ok)
        if not ok:
            viol(ctx, "R-C11-EXACT1", b, "path|%s" % var, "IoByteSource::read_byte must call Read::read_exact on a 1-byte buffer exactly once, return that byte, and forward its error unmodified")
    if not (n_ok and n_err):
        viol(ctx, "R-C11-EXACT1", b, "coverage", "expected an Ok and an Err path")

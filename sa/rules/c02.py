"""C02 Decoder soundness: a payload is reported only for an intact canonical frame (validation-gate clause)."""
from ..common import ASSUMPTIONS
from ..engine import AnchorMissing
from ..lin import Lin
from ..vra.interp import Unsupported
from ..vra.values import *
from .decoder import *

GATE_FACTS = [
    ("crc_eq", "the checksum read from the stream equals the value finalised from the decoder's digest"),
    ("crc_bytes", "the checksum is read from payload[2], payload[3] of the end sequence (little endian)"),
    ("crc_digest", "the finalised digest is the decoder's own digest (swapped out of the CRC field), not a fresh one"),
    ("aligned", "the end sequence ends on a 4-byte boundary (raw_msg_len % 4 == 0)"),
    ("pad_le_3", "the pad count is at most 3"),
    ("pad_le_zeros", "the pad count does not exceed the zeros withheld from the buffer"),
    ("endmark", "the escape payload starts with 0x1a"),
    ("step3", "the gate is reached only when the 4th payload byte arrives"),
    ("no_unproved_checks", "the facts above do not depend on an overflow/bounds check that failed to discharge statically (release builds compile overflow checks out)"),
    ("dfed_at_final_is_2", "exactly the two bytes 0x1a, pad (not the checksum bytes) are fed before finalising"),
]


def run(ctx):
    ctx.rule("R-C02-GATE", "every path that sets the Done state carries the facts: CRC equal, 4-byte aligned, pad <= 3, pad <= withheld zeros")
    ctx.rule("R-C02-ENDMARK", "the gate is reached only for an escape payload starting with 0x1a, at its 4th byte")
    ctx.rule("R-C02-CRCFEED", "every consumed frame byte is fed to the digest exactly once: G = fed - raw_msg_len + step is unchanged by "
                              "every in-frame step, 0 at every frame start and -2 (the checksum bytes) at the compare")
    ctx.rule("R-C02-DONEONLY", "Ok(true) is returned only on paths that passed the gate; the Done state is set nowhere else")
    F = ctx.facts("all")
    A = ctx.analysis("all")
    ip = A.ip
    try:
        an = Anchors(F)
        A.invariant(NOD)
        outs, gates = frame_analysis(A, an)
    except (AnchorMissing, Unsupported) as e:
        ctx.violation("ANCHOR-MISSING", "decoder", ("", 0, ""), str(e))
        return
    where = (an.push["span"]["file"], an.push["span"]["line"], an.push["def"])
    # ---- gate facts
    if not gates:
        ctx.violation("BELOW-FLOOR", "R-C02-GATE", where, "no path sets the Done state (anchor lost?)")
    for g in gates:
        ctx.count("R-C02-GATE")
        for key, text in GATE_FACTS:
            rid = "R-C02-ENDMARK" if key in ("endmark", "step3") else ("R-C02-CRCFEED" if key == "dfed_at_final_is_2" else "R-C02-GATE")
            ok = bool(g.get(key))
            ctx.oblig(ok)
            if not ok:
                ctx.violation(rid, "gate|%s" % key, ("src/transport/decode.rs", g["line"], g["fn"]),
                              "a path reaches `state = Done` (from state #%s) without the fact: %s" % (g["part"], text))
        if len(ctx.samples) < 3:
            ctx.sample({"gate_at_line": g["line"], "from_state": g["part"], "facts": {k: bool(g.get(k)) for k, _ in GATE_FACTS}})
    # ---- Done only via the gate
    n_true = 0
    for o in outs:
        if o["label"] == "Ok(true)":
            n_true += 1
            ctx.count("R-C02-DONEONLY")
            ok = o["key"] == an.v_payload and an.variant_of(o["st"], o["obj"]) == an.v_done
            ctx.oblig(ok)
            if not ok:
                ctx.violation("R-C02-DONEONLY", "partition=%s" % (o["key"],), where,
                              "push_byte returns Ok(true) from state #%s, i.e. not from the end-sequence branch" % (o["key"],))
        else:
            if an.variant_of(o["st"], o["obj"]) == an.v_done:
                ctx.violation("R-C02-DONEONLY", "done-without-true|%s" % o["label"], where, "Done state entered on an outcome %s" % o["label"])
    if n_true == 0:
        ctx.violation("BELOW-FLOOR", "R-C02-DONEONLY", where, "no Ok(true) outcome")
    # the Done variant is constructed only in the decoder core
    makers = set()
    for b in F.bodies.values():
        for blk in b["blocks"]:
            for st in blk["stmts"]:
                if st["k"] == "assign" and st["rv"]["k"] == "aggregate" and st["rv"].get("def") == STATE and st["rv"].get("variant") == an.v_done:
                    makers.add(b["def"])
    for m in sorted(makers):
        ctx.count("R-C02-DONEONLY")
        if (F.bodies[m].get("impl_self_ty") or {}).get("def") != NOD:
            ctx.violation("R-C02-DONEONLY", "maker|" + m, (F.bodies[m]["span"]["file"], F.bodies[m]["span"]["line"], m),
                          "DecodeState::Done is constructed outside the decoder core")
    # ---- CRC feed balance
    for o in outs:
        key, lab = o["key"], o["label"]
        st = o["st"]
        def step_of(obj, s):
            e = obj.elems[an.i_state]
            v = s.const_of(e.disc)
            if v == an.v_payload:
                return e.pay[an.v_payload][an.i_step].lin
            return Lin.const(0)
        post_var = an.variant_of(st, o["obj"])
        in_frame_before = key not in (an.v_look, an.v_done)
        in_frame_after = post_var not in (an.v_look, an.v_done)
        if not in_frame_after:
            continue
        ctx.count("R-C02-CRCFEED")
        # consumed bytes are observed through reset() (pending_of), not through a particular counter field
        try:
            raw0, raw1 = pending_lin(A, an, st, o["obj0"]), pending_lin(A, an, st, o["obj"])
        except Unsupported as e:
            ctx.violation("R-C02-CRCFEED", "partition=%s|%s|observer" % (key, lab), where, str(e))
            continue
        s0, s1 = step_of(o["obj0"], st), step_of(o["obj"], st)
        if in_frame_before and lab == "Ok(false)":
            dg = o["dfed"] - (raw1 - raw0) + (s1 - s0)
            ok = st.prove_eq0(dg)
            what = "in-frame step from state #%s: fed - consumed + step changes by %s" % (key, st.describe(dg))
        else:
            # frame start (matcher, restart): digest re-initialised and fed exactly the start sequence, counter = its length
            ok = o["feeds"][-1:] == (tuple(START_SEQ),) and st.const_of(raw1) == len(START_SEQ) and st.const_of(s1) == 0
            what = "frame start from state #%s (%s): digest must be fed exactly the start sequence and the counter set to 8 (fed %r)" % (key, lab, o["feeds"])
        ctx.oblig(ok)
        if not ok:
            ctx.violation("R-C02-CRCFEED", "partition=%s|%s" % (key, lab), where, what)
        # single-byte feeds are the consumed byte itself
        b = o["args"][2] if len(o["args"]) > 2 else None
        for f in o["feeds"]:
            if len(f) == 1 and isinstance(f[0], tuple) and isinstance(b, VInt):
                if f[0][1] != b.lin:
                    ctx.violation("R-C02-CRCFEED", "feed-byte|partition=%s" % (key,), where, "a single byte fed to the digest is not the consumed byte")
    check_push_discipline(ctx, an, outs, where)
    ctx.cov.update({"gates": len(gates), "push_outcomes": len(outs), "invariant": A.inv_info.get(NOD)})
    ctx.assumptions = [ASSUMPTIONS[k] for k in ("A1", "A2")]
    ctx.explanation = (
        "Validation-gate clause of decoder soundness: the analysis follows every abstract path of push_byte from every state of the "
        "inferred invariant and, at the instant the Done state is written, requires the path facts to entail CRC equality (between the "
        "little-endian read of payload[2..4] and the value finalised from the decoder's own digest), 4-byte alignment (a congruence fact), "
        "pad <= 3, pad <= withheld zeros, and the 0x1a end marker at step 3. A ghost counter shows every frame byte is fed to the digest "
        "exactly once and the compare happens 2 bytes before the end. How the code establishes the facts is irrelevant. Not decided: that "
        "the buffer content equals the canonical payload (escape/zero-withholding reconstruction).")



# ---------------------------------------------------------------------------------------------------------
# payload reconstruction: what reaches the buffer on every step
def _norm(st, items):
    """run-length normal form of a byte sequence: [('z', Lin count)] zero runs merged, [('b', Lin)] non-zero bytes"""
    out = []
    for k, v in items:
        if k == "z":
            if st.const_of(v) == 0 or st.prove_eq0(v):
                continue
            if out and out[-1][0] == "z":
                out[-1] = ("z", out[-1][1] + v)
            else:
                out.append(("z", v))
        else:
            out.append((k, v))
    return out


def _byte_item(st, lin):
    lo, hi = st.interval(lin)
    if lo == 0 and hi == 0:
        return ("z", Lin.const(1))
    sg = lin.single()
    vals = st.values(sg[0]) if sg and sg[1] == 1 and lin.c == 0 else None
    if (lo is not None and lo > 0) or (vals is not None and 0 not in vals):
        return ("b", lin)
    return None


def _seq_eq(st, a, b):
    a, b = _norm(st, a), _norm(st, b)
    if len(a) != len(b):
        return False
    for (ka, va), (kb, vb) in zip(a, b):
        if ka != kb or not st.prove_eq0(va - vb):
            return False
    return True


def _show(st, items):
    return "[" + ", ".join(("0 x (%s)" % st.describe(v)) if k == "z" else st.describe(v) for k, v in _norm(st, items)) + "]"


def check_push_discipline(ctx, an, outs, where):
    """R-C02-PUSH: with W = number of withheld zeros (zero_cache), every successful step of the decoder satisfies
         written ++ 0^W' == 0^W ++ E
    where `written` are the bytes handed to Buffer::push on that path (in order) and E is the logical emission of the
    transition (the transport-v1 unescaping table below).  At the end of a frame written == 0^(W - pad); at a frame start
    the buffer is cleared and nothing is written afterwards."""
    ctx.rule("R-C02-PUSH", "per decoder step: bytes written to the buffer followed by the zeros still withheld equal the zeros withheld "
                           "before followed by the step's logical emission (data byte; n x 1b + byte after an aborted escape run; "
                           "4 x 1b for the literal escape; k x 1b for the realigned end; nothing otherwise); at Ok(true) exactly "
                           "withheld - pad zeros are written; a frame start leaves the buffer cleared")
    ctx.rule("R-C02-DISPATCH", "escape payload dispatch: the literal branch is taken only for 1b1b1b1b, the restart only for 01010101, "
                               "the end only for 1a..; the realign branch requires k leading 1b followed by 1a and keeps payload[k..]")
    ESC = 0x1b
    n_steps = 0
    kinds = {}
    for o in outs:
        st, key, lab = o["st"], o["key"], o["label"]
        if lab == "Err(OutOfMemory)":
            continue
        obj0, obj1 = o["obj0"], o["obj"]
        post = an.variant_of(st, obj1)
        zc0, zc1 = zc_of(an, obj0).lin, zc_of(an, obj1).lin
        pushed = o["pushed"]
        cleared = o["cleared_at"]
        b = o["args"][2] if len(o["args"]) > 2 else None
        if not isinstance(b, VInt):
            ctx.violation("ANCHOR-MISSING", "push_byte byte arg", where, "push_byte's byte argument not found")
            return
        items = []
        bad = None
        for x in pushed[(cleared or 0):]:
            it = _byte_item(st, x)
            if it is None:
                bad = x
                break
            items.append(it)

        def fail(kind, msg):
            ctx.oblig(False)
            ctx.violation("R-C02-PUSH", "%s|from=%s|%s" % (kind, key, lab), where, msg)

        def viol_dispatch(kind, msg):
            ctx.oblig(False)
            ctx.violation("R-C02-DISPATCH", "%s|%s" % (kind, lab), where, msg)

        if bad is not None:
            fail("unknown-byte", "a byte of unknown zero-ness (%s) is written to the buffer" % st.describe(bad))
            continue
        in_after = post not in (an.v_look, an.v_done)
        in_before = key not in (an.v_look, an.v_done)
        # ---- out of frame afterwards: buffer must be empty unless a frame was just completed
        if post == an.v_look:
            ctx.count("R-C02-PUSH")
            ok = (cleared is not None and not items) or (key == an.v_look and not pushed and cleared is None)
            ctx.oblig(ok)
            if not ok:
                fail("look-not-empty", "a path leaves the decoder searching for a start sequence without an empty buffer "
                     "(written %r, cleared=%r)" % (pushed, cleared))
            kinds["to-look"] = kinds.get("to-look", 0) + 1
            continue
        if post == an.v_done:
            if lab != "Ok(true)":
                continue        # reported by R-C02-DONEONLY
            ctx.count("R-C02-PUSH")
            pl = obj0.elems[an.i_state].pay[an.v_payload][an.i_payload] if key == an.v_payload else None
            pad = pl.elems[1].lin if isinstance(pl, VArr) else None
            ok = pad is not None and cleared is None and _seq_eq(st, items, [("z", zc0 - pad)])
            ctx.oblig(ok)
            if not ok:
                fail("end", "at the end of a frame the buffer must receive exactly withheld - pad zeros "
                     "(withheld %s, pad %s, written %s)" % (st.describe(zc0), pad is not None and st.describe(pad), _show(st, items)))
            kinds["end"] = kinds.get("end", 0) + 1
            n_steps += 1
            continue
        # ---- in frame afterwards
        if not in_before or cleared is not None or (lab.startswith("Err(") and in_after):
            # frame start (matcher completed, restart, or Done -> new frame)
            ctx.count("R-C02-PUSH")
            starts_ok = (cleared is not None or key == an.v_look) and not items and st.const_of(zc1) == 0 and (key != an.v_look or not pushed)
            ctx.oblig(starts_ok)
            if not starts_ok:
                fail("frame-start", "a frame start must leave an empty buffer and no withheld zeros (cleared=%r, written after %s, withheld %s)"
                     % (cleared, _show(st, items), st.describe(zc1)))
            if key == an.v_payload:
                pl = obj0.elems[an.i_state].pay[an.v_payload][an.i_payload]
                vals = [st.const_of(e.lin) for e in pl.elems[:3]] + [st.const_of(b.lin)]
                ctx.count("R-C02-DISPATCH")
                ok = vals == [1, 1, 1, 1]
                ctx.oblig(ok)
                if not ok:
                    viol_dispatch("restart", "the restart branch is taken for an escape payload other than 01010101 (%r)" % (vals,))
            kinds["start"] = kinds.get("start", 0) + 1
            continue
        if lab != "Ok(false)":
            continue
        # ---- ordinary in-frame step: determine the logical emission E
        sg = b.lin.single()
        bvals = st.values(sg[0]) if sg and sg[1] == 1 and b.lin.c == 0 else None
        is_esc = bvals is not None and bvals == frozenset([ESC])
        not_esc = bvals is not None and ESC not in bvals
        bitem = _byte_item(st, b.lin)
        E = None
        kind = None
        if key == an.v_normal:
            if is_esc:
                E, kind = [], "normal-esc"
            elif not_esc and bitem is not None:
                E, kind = [bitem], "normal-data"
        elif key == an.v_payload:
            e0 = obj0.elems[an.i_state]
            step0 = st.const_of(e0.pay[an.v_payload][an.i_step].lin)
            pl = e0.pay[an.v_payload][an.i_payload]
            if step0 is not None and step0 < 3:
                E, kind = [], "payload-collect"
            elif step0 == 3 and isinstance(pl, VArr):
                p = [e.lin for e in pl.elems[:3]] + [b.lin]
                pv = [st.const_of(x) for x in p]
                if post == an.v_normal:
                    kind = "literal"
                    E = [("b", Lin.const(ESC))] * 4
                    ctx.count("R-C02-DISPATCH")
                    ok = pv == [ESC] * 4
                    ctx.oblig(ok)
                    if not ok:
                        viol_dispatch("literal", "the literal-escape branch (back to normal parsing) is taken for a payload other than 1b1b1b1b (%r)" % (pv,))
                elif post == an.v_payload:
                    kind = "realign"
                    e1 = obj1.elems[an.i_state]
                    step1 = st.const_of(e1.pay[an.v_payload][an.i_step].lin)
                    pl1 = e1.pay[an.v_payload][an.i_payload]
                    ctx.count("R-C02-DISPATCH")
                    ok = step1 is not None and 1 <= step1 <= 3 and isinstance(pl1, VArr)
                    if ok:
                        k = 4 - step1
                        ok = pv[:k] == [ESC] * k and pv[k] == 0x1a and all(st.prove_eq0(pl1.elems[i].lin - p[k + i]) for i in range(step1))
                        E = [("b", Lin.const(ESC))] * k
                    ctx.oblig(ok)
                    if not ok:
                        viol_dispatch("realign", "the realign branch must see k x 1b then 1a and keep payload[k..] as the first 4-k bytes of the "
                                      "new escape payload (payload %r, new step %r)" % (pv, step1))
                        continue
        else:
            # ParsingEscChars(n)
            e0 = obj0.elems[an.i_state]
            n = e0.pay[key][0].lin if e0.pay.get(key) else None
            if is_esc:
                E, kind = [], "esc-run"
            elif not_esc and n is not None and bitem is not None:
                nc = st.const_of(n)
                if nc is not None:
                    E, kind = [("b", Lin.const(ESC))] * nc + [bitem], "esc-abort"
        ctx.count("R-C02-PUSH")
        if E is None:
            fail("unsplit", "the path from state #%s does not determine the transition (byte %s)" % (key, st.describe(b.lin)))
            continue
        ok = _seq_eq(st, items + [("z", zc1)], [("z", zc0)] + E)
        ctx.oblig(ok)
        kinds[kind] = kinds.get(kind, 0) + 1
        n_steps += 1
        if not ok:
            fail(kind, "step `%s`: written %s then %s withheld, expected %s withheld before then %s"
                 % (kind, _show(st, items), st.describe(zc1), st.describe(zc0), _show(st, E)))
    for need in ("normal-data", "normal-esc", "esc-run", "esc-abort", "payload-collect", "literal", "realign", "end", "start", "to-look"):
        if not kinds.get(need):
            ctx.violation("BELOW-FLOOR", "R-C02-PUSH|" + need, where, "no `%s` transition found among the decoder's paths" % need)
    ctx.cov["push_steps"] = kinds

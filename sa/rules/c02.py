"""C02 Decoder soundness: a payload is reported only for an intact canonical frame (validation-gate clause)."""
from ..common import ASSUMPTIONS
from ..engine import AnchorMissing
from ..lin import Lin
from ..vra.interp import Unsupported
from ..vra.values import *
from .decoder import *

GATE_FACTS = [
    ("crc_eq", "the checksum read from the stream equals the value finalised from the decoder's digest"),
    ("crc_bytes", "the checksum is read from payload[2], payload[3] of the end sequence (little endian)"),
    ("crc_digest", "the finalised digest is the decoder's own digest (swapped out of the CRC field), not a fresh one"),
    ("aligned", "the end sequence ends on a 4-byte boundary (raw_msg_len % 4 == 0)"),
    ("pad_le_3", "the pad count is at most 3"),
    ("pad_le_zeros", "the pad count does not exceed the zeros withheld from the buffer"),
    ("endmark", "the escape payload starts with 0x1a"),
    ("step3", "the gate is reached only when the 4th payload byte arrives"),
    ("no_unproved_checks", "the facts above do not depend on an overflow/bounds check that failed to discharge statically (release builds compile overflow checks out)"),
    ("dfed_at_final_is_2", "exactly the two bytes 0x1a, pad (not the checksum bytes) are fed before finalising"),
]


def run(ctx):
    ctx.rule("R-C02-GATE", "every path that sets the Done state carries the facts: CRC equal, 4-byte aligned, pad <= 3, pad <= withheld zeros")
    ctx.rule("R-C02-ENDMARK", "the gate is reached only for an escape payload starting with 0x1a, at its 4th byte")
    ctx.rule("R-C02-CRCFEED", "every consumed frame byte is fed to the digest exactly once: G = fed - raw_msg_len + step is unchanged by "
                              "every in-frame step, 0 at every frame start and -2 (the checksum bytes) at the compare")
    ctx.rule("R-C02-DONEONLY", "Ok(true) is returned only on paths that passed the gate; the Done state is set nowhere else")
    F = ctx.facts("all")
    A = ctx.analysis("all")
    ip = A.ip
    try:
        an = Anchors(F)
        A.invariant(NOD)
        outs, gates = frame_analysis(A, an)
    except (AnchorMissing, Unsupported) as e:
        ctx.violation("ANCHOR-MISSING", "decoder", ("", 0, ""), str(e))
        return
    where = (an.push["span"]["file"], an.push["span"]["line"], an.push["def"])
    # ---- gate facts
    if not gates:
        ctx.violation("BELOW-FLOOR", "R-C02-GATE", where, "no path sets the Done state (anchor lost?)")
    for g in gates:
        ctx.count("R-C02-GATE")
        for key, text in GATE_FACTS:
            rid = "R-C02-ENDMARK" if key in ("endmark", "step3") else ("R-C02-CRCFEED" if key == "dfed_at_final_is_2" else "R-C02-GATE")
            ok = bool(g.get(key))
            ctx.oblig(ok)
            if not ok:
                ctx.violation(rid, "gate|%s" % key, ("src/transport/decode.rs", g["line"], g["fn"]),
                              "a path reaches `state = Done` (from state #%s) without the fact: %s" % (g["part"], text))
        if len(ctx.samples) < 3:
            ctx.sample({"gate_at_line": g["line"], "from_state": g["part"], "facts": {k: bool(g.get(k)) for k, _ in GATE_FACTS}})
    # ---- Done only via the gate
    n_true = 0
    for o in outs:
        if o["label"] == "Ok(true)":
            n_true += 1
            ctx.count("R-C02-DONEONLY")
            ok = o["key"] == an.v_payload and an.variant_of(o["st"], o["obj"]) == an.v_done
            ctx.oblig(ok)
            if not ok:
                ctx.violation("R-C02-DONEONLY", "partition=%s" % (o["key"],), where,
                              "push_byte returns Ok(true) from state #%s, i.e. not from the end-sequence branch" % (o["key"],))
        else:
            if an.variant_of(o["st"], o["obj"]) == an.v_done:
                ctx.violation("R-C02-DONEONLY", "done-without-true|%s" % o["label"], where, "Done state entered on an outcome %s" % o["label"])
    if n_true == 0:
        ctx.violation("BELOW-FLOOR", "R-C02-DONEONLY", where, "no Ok(true) outcome")
    # the Done variant is constructed only in the decoder core
    makers = set()
    for b in F.bodies.values():
        for blk in b["blocks"]:
            for st in blk["stmts"]:
                if st["k"] == "assign" and st["rv"]["k"] == "aggregate" and st["rv"].get("def") == STATE and st["rv"].get("variant") == an.v_done:
                    makers.add(b["def"])
    for m in sorted(makers):
        ctx.count("R-C02-DONEONLY")
        if (F.bodies[m].get("impl_self_ty") or {}).get("def") != NOD:
            ctx.violation("R-C02-DONEONLY", "maker|" + m, (F.bodies[m]["span"]["file"], F.bodies[m]["span"]["line"], m),
                          "DecodeState::Done is constructed outside the decoder core")
    # ---- CRC feed balance
    for o in outs:
        key, lab = o["key"], o["label"]
        st = o["st"]
        def step_of(obj, s):
            e = obj.elems[an.i_state]
            v = s.const_of(e.disc)
            if v == an.v_payload:
                return e.pay[an.v_payload][an.i_step].lin
            return Lin.const(0)
        post_var = an.variant_of(st, o["obj"])
        in_frame_before = key not in (an.v_look, an.v_done)
        in_frame_after = post_var not in (an.v_look, an.v_done)
        if not in_frame_after:
            continue
        ctx.count("R-C02-CRCFEED")
        raw0, raw1 = o["obj0"].elems[an.i_raw].lin, o["obj"].elems[an.i_raw].lin
        s0, s1 = step_of(o["obj0"], st), step_of(o["obj"], st)
        if in_frame_before and lab == "Ok(false)":
            dg = o["dfed"] - (raw1 - raw0) + (s1 - s0)
            ok = st.prove_eq0(dg)
            what = "in-frame step from state #%s: fed - consumed + step changes by %s" % (key, st.describe(dg))
        else:
            # frame start (matcher, restart): digest re-initialised and fed exactly the start sequence, counter = its length
            ok = o["feeds"][-1:] == (tuple(START_SEQ),) and st.const_of(raw1) == len(START_SEQ) and st.const_of(s1) == 0
            what = "frame start from state #%s (%s): digest must be fed exactly the start sequence and the counter set to 8 (fed %r)" % (key, lab, o["feeds"])
        ctx.oblig(ok)
        if not ok:
            ctx.violation("R-C02-CRCFEED", "partition=%s|%s" % (key, lab), where, what)
        # single-byte feeds are the consumed byte itself
        b = o["args"][2] if len(o["args"]) > 2 else None
        for f in o["feeds"]:
            if len(f) == 1 and isinstance(f[0], tuple) and isinstance(b, VInt):
                if f[0][1] != b.lin:
                    ctx.violation("R-C02-CRCFEED", "feed-byte|partition=%s" % (key,), where, "a single byte fed to the digest is not the consumed byte")
    ctx.cov.update({"gates": len(gates), "push_outcomes": len(outs), "invariant": A.inv_info.get(NOD)})
    ctx.assumptions = [ASSUMPTIONS[k] for k in ("A1", "A2")]
    ctx.explanation = (
        "Validation-gate clause of decoder soundness: the analysis follows every abstract path of push_byte from every state of the "
        "inferred invariant and, at the instant the Done state is written, requires the path facts to entail CRC equality (between the "
        "little-endian read of payload[2..4] and the value finalised from the decoder's own digest), 4-byte alignment (a congruence fact), "
        "pad <= 3, pad <= withheld zeros, and the 0x1a end marker at step 3. A ghost counter shows every frame byte is fed to the digest "
        "exactly once and the compare happens 2 bytes before the end. How the code establishes the facts is irrelevant. Not decided: that "
        "the buffer content equals the canonical payload (escape/zero-withholding reconstruction).")

"""C15 All decoding front-ends report the same results for the same bytes (faithful-driver rules)."""
from ..common import ASSUMPTIONS
from ..engine import AnchorMissing
from ..cfg import CFG, callee_names
from ..lin import Lin
from ..vra.interp import Unsupported
from ..vra.values import *
from ..vra.stdsum import split_enum
from .frontends import *

ITER = "transport::decode::DecodeIterator"
RD = "transport::decoder_reader::DecoderReader"


def run(ctx):
    ctx.rule("R-C15-DRIVER", "each driving loop (decode, DecodeIterator::next, DecoderReader::read) is a faithful driver of the push decoder: "
                             "(a) every source byte goes to push unmodified, once; (b) Err / Ok(true) / Ok(false) are forwarded as error / whole buffer / "
                             "nothing; (c) end of input calls finalize (reset) exactly once and forwards its report; (d) the iterator is terminal afterwards")
    ctx.rule("R-C15-GENERIC", "the decoder touches its buffer only through the sealed Buffer trait (whose two implementations agree, R-C18-*), Deref and Default, so the buffer type cannot change results")
    ctx.rule("R-C15-SITES", "push / finalize / reset of the decoder are called from the three drivers and the thin wrappers only")
    F = ctx.facts("all")
    A = ctx.analysis("all")
    try:
        check_reader(ctx, F, A)
        check_iterator(ctx, F, A)
        check_decode(ctx, F, A)
        check_generic(ctx, F)
        ctx.include("C18", "'the buffer type does not change any result as long as its capacity is never exceeded': the decoder is generic over "
                           "the sealed Buffer trait (R-C15-GENERIC), so this clause is the agreement of the two implementations")
        from .decoder import Anchors, check_final_reset, NOD
        an = Anchors(F)
        A.invariant(NOD)
        ctx.rule("R-C15-FINAL", "finalize() and reset() report the same pending-byte count from every decoder state (what the reader "
                 "front-ends attach to an I/O error / EOF equals what the iterator front-ends report as trailing DiscardedBytes)")
        check_final_reset(ctx, A, F, an, "R-C15-FINAL")
        check_no_swallow(ctx, F, body_of(F, ITER, "next"), ("_push_byte",))
    except (AnchorMissing, Unsupported, KeyError) as e:
        ctx.violation("ANCHOR-MISSING", "frontends", ("", 0, ""), "%s: %s" % (type(e).__name__, e))
    ctx.assumptions = [ASSUMPTIONS[k] for k in ("A1", "A2", "A4", "A6")]
    ctx.explanation = (
        "Each front-end loop is analysed path by path with the push decoder and the byte source as opaque components; every path carries "
        "the calls of its last iteration with argument and result values, so 'the byte read is the byte pushed', 'the error returned is the "
        "error produced' and 'finalize is called once and its report forwarded' are value-identity facts on abstract paths. Together with C14 "
        "(decoder determinism across boundaries), C17 (finalize and reset report the same counter) and C18 (buffer exactness) the front-ends "
        "report the same sequence of results.")


def viol(ctx, b, key, msg):
    ctx.violation("R-C15-DRIVER", "%s|%s" % (b["def"], key), (b["span"]["file"], b["span"]["line"], b["def"]), msg)


READER_BAD = {
    1: "a byte is read from the source while the previous one is still unpushed, or after the decoder reported an error / a complete transmission",
    2: "the decoder is fed without a freshly read byte (a byte is pushed twice or skipped)",
    3: "the byte pushed into the decoder is not the byte just read from the source",
    4: "the decoder's buffer is borrowed although its last answer was not Ok(true)",
    5: "the decoder is reset although the source reported no error",
}


def check_reader(ctx, F, A):
    """DecoderReader::read (and next / read_nb / next_nb, which need not go through read) under the protocol monitor of
    readermon.py: the bytes of the source reach the decoder one by one, unmodified and in order, and what is returned is the
    decoder's answer (whole buffer / its error) or the source's error - however the byte loop is written and layered."""
    from . import readermon
    fns = ["read", "next"] + [n for n in ("read_nb", "next_nb") if any(b.get("name") == n and (b.get("impl_self_ty") or {}).get("def") == RD
                                                                        for b in F.bodies.values())]
    for fn in fns:
        rs = readermon.check(ctx, F, A, fn, "R-C15-DRIVER", lambda kind: "R-C15-DRIVER")
        if fn == "read" and len(ctx.samples) < 4:
            for r in rs[:3]:
                ctx.sample({"driver": "DecoderReader::read", "monitor_state_at_return": r["g"], "returns": enum_variant(F, r["st"], r["ret"])[0],
                            "protocol_violation": r["bad"]})


def check_iterator(ctx, F, A):
    ip = A.ip
    b = body_of(F, ITER, "next")
    fi = [f["name"] for f in F.adts[ITER]["variants"][0]["fields"]]
    if "done" not in fi:
        raise AnchorMissing("DecodeIterator has no `done` flag (fields %r)" % (fi,))
    i_done = fi.index("done")
    ps = paths(A, F, b, opaque_components(F))
    saw = set()
    for p in ps:
        st, tr = p["st"], p["trace"]
        ev = {short(e["key"]): e for e in tr}
        seq = names(tr, ("next", "_push_byte", "borrow_buf", "finalize", "reset", "map"))
        rv = p["ret"]
        var, pay = enum_variant(F, st, rv)
        selfv0 = None
        ctx.count("R-C15-DRIVER")
        ok, why = True, ""
        nx = ev.get("next")
        obj = ip.read_raw(st, p["args"][0].root, p["args"][0].steps)
        done_after = obj.elems[i_done]
        if nx is None:
            # terminal path: done was already set -> None, nothing called
            saw.add("terminal")
            if not (var == "None" and not seq and bool_is(st, done_after, True)):
                ok, why = False, "a path without reading a byte must be the terminal one: returns None and calls nothing (calls %r)" % seq
        else:
            nv, npay = enum_variant(F, st, nx["ret"])
            if nv == "Some":
                saw.add("byte")
                pb = ev.get("_push_byte")
                if pb is None or pb["args"][1] != npay[0] or seq.count("_push_byte") != 1:
                    ok, why = False, "the byte taken from the iterator is not pushed exactly once, unmodified"
                else:
                    pv, pp = enum_variant(F, st, pb["ret"])
                    iv, ip_ = enum_variant(F, st, pay[0]) if var == "Some" else (None, ())
                    if pv == "Err":
                        if not (iv == "Err" and ip_[0] == pp[0]):
                            ok, why = False, "a decoder error is not forwarded unmodified"
                    else:
                        bb_ = ev.get("borrow_buf")
                        if not (iv == "Ok" and bb_ is not None and ip_[0] == bb_["ret"] and bool_is(st, pp[0], True)):
                            ok, why = False, "a complete transmission must be returned as the decoder's whole buffer, only for Ok(true)"
            else:
                saw.add("end")
                fz = ev.get("finalize")
                if fz is None or seq.count("finalize") != 1 or "_push_byte" in seq:
                    ok, why = False, "end of input must call finalize exactly once (calls %r)" % seq
                elif not (bool_is(st, done_after, True)):
                    ok, why = False, "end of input must set the terminal flag"
                else:
                    fv, fp = enum_variant(F, st, fz["ret"])
                    if fv == "None":
                        good = var == "None"
                    else:
                        iv, ip_ = enum_variant(F, st, pay[0]) if var == "Some" else (None, ())
                        good = var == "Some" and iv == "Err" and ip_[0] == fp[0]
                    if not good:
                        ok, why = False, "finalize's report must be forwarded (None -> None, Some(e) -> Some(Err(e)))"
        ctx.oblig(ok)
        if not ok:
            viol(ctx, b, why[:40], "DecodeIterator::next: " + why)
    if saw != {"terminal", "byte", "end"}:
        viol(ctx, b, "coverage", "DecodeIterator::next: expected terminal, byte and end-of-input paths, saw %r" % saw)


def check_decode(ctx, F, A):
    ip = A.ip
    b = F.bodies.get("transport::decode::decode")
    if b is None:
        raise AnchorMissing("transport::decode::decode")
    where = (b["span"]["file"], b["span"]["line"], b["def"])
    # observations per loop iteration (the loop is analysed to a fixpoint; hooks see every abstract iteration of the final round)
    obs = []

    # protocol monitor in the abstract memory (survives the loop join, independent of how the loop is written):
    #   0 reported / start, 1 decoder had nothing to report, 2 byte fetched, 3 decoder result waiting to be appended,
    #   4 input exhausted, 5 finalize's report waiting to be appended, 6 finished
    G = ("G", "c15-dec")
    DEC_BAD = {1: "the next byte is fetched while a result of the decoder (Ok(Some) / Err) has not been appended: it is dropped",
               2: "the decoder is fed without a freshly fetched byte",
               3: "something is appended that is not a pending result of the decoder",
               4: "finalize is called before the input is exhausted, or more than once"}

    def dbad(st, code):
        st.ghost["c15-bad"] = max(st.ghost.get("c15-bad", 0), code)

    def gval(st):
        v = st.mem.get(G)
        return st.interval(v.lin) if isinstance(v, VInt) else (None, None)

    def monitor(ip_, frame, bb, t, callee, args, outs):
        k = short(callee_key(callee, frame.env))
        is_src = callee.get("trait") == "std::iter::Iterator" and callee.get("method") == "next" and \
            (callee.get("self_ty") or {}).get("k") in ("param", "alias", "other", "deep")
        is_vecpush = k == "push" and "Vec" in callee_key(callee, frame.env)
        if not (is_src or is_vecpush or k in ("push_byte", "finalize")):
            return
        new = []
        for (s2, rv) in outs:
            if G not in s2.mem:
                new.append((s2, rv))
                continue
            lo, hi = gval(s2)
            if is_src:
                if not (lo is not None and lo >= 0 and hi is not None and hi <= 1):
                    dbad(s2, 1)
                for s3, var, pay in split_enum(ip_, s2, rv, "item"):
                    s3.mem[G] = cint(2 if var == 1 else 4, 8, False)
                    new.append((s3, VEnum(rv.defn, Lin.const(var), {var: pay})))
            elif k == "push_byte":
                if (lo, hi) != (2, 2):
                    dbad(s2, 2)
                for s3, var, pay in split_enum(ip_, s2, rv, "push_byte result"):
                    if var == 1:
                        s3.mem[G] = cint(3, 8, False)
                        new.append((s3, VEnum(rv.defn, Lin.const(1), {1: pay})))
                        continue
                    for s4, v2, p2 in split_enum(ip_, s3, pay[0], "push_byte payload"):
                        s4.mem[G] = cint(3 if v2 == 1 else 1, 8, False)
                        new.append((s4, VEnum(rv.defn, Lin.const(0), {0: (VEnum(pay[0].defn, Lin.const(v2), {v2: p2}),)})))
            elif k == "finalize":
                if (lo, hi) != (4, 4):
                    dbad(s2, 4)
                for s3, var, pay in split_enum(ip_, s2, rv, "finalize result"):
                    s3.mem[G] = cint(5 if var == 1 else 6, 8, False)
                    new.append((s3, VEnum(rv.defn, Lin.const(var), {var: pay})))
            else:
                if (lo, hi) == (3, 3):
                    s2.mem[G] = cint(0, 8, False)
                elif (lo, hi) == (5, 5):
                    s2.mem[G] = cint(6, 8, False)
                else:
                    dbad(s2, 3)
                new.append((s2, rv))
        outs[:] = new

    def on_res(ip_, frame, bb, t, callee, args, outs):
        k = short(callee_key(callee, frame.env))
        for (s2, rv) in outs:
            if k == "next":
                s2.ghost["c15-item"] = rv
                s2.ghost.pop("c15-push", None)
                s2.ghost.pop("c15-borrow", None)
            elif k == "borrow":
                s2.ghost["c15-borrow"] = (args[0], rv)
            elif k == "push_byte":
                s2.ghost["c15-push"] = (args[1], rv)
            elif k == "to_vec":
                s2.ghost["c15-tovec"] = (args[0], rv)
            elif k == "finalize":
                s2.ghost["c15-final"] = rv
            elif k == "push" and "Vec" in callee_key(callee, frame.env):
                ip_.observe({"kind": "c15-vecpush", "val": args[1], "st": s2, "item": s2.ghost.get("c15-item"),
                             "pushed": s2.ghost.get("c15-push"), "tovec": s2.ghost.get("c15-tovec"), "final": s2.ghost.get("c15-final"),
                             "borrow": s2.ghost.get("c15-borrow")})
    ip.on_call_result.append(monitor)
    ip.on_call_result.append(on_res)
    old_o, old_t = ip.opaque_fn, ip.join_threshold
    ip.opaque_fn = opaque_components(F)
    ip.join_threshold = 10 ** 9
    since = len(ip.log)
    try:
        st0 = ip.new_state()
        st0.mem[G] = cint(0, 8, False)
        outs = A.run_fn(b, st0=st0)
    finally:
        ip.on_call_result.remove(on_res)
        ip.on_call_result.remove(monitor)
        ip.opaque_fn, ip.join_threshold = old_o, old_t
    for (s1, rv, _args) in outs:
        ctx.count("R-C15-DRIVER")
        code = s1.ghost.get("c15-bad", 0)
        g = s1.mem.get(G)
        okm = not code and isinstance(g, VInt) and s1.const_of(g.lin) == 6
        ctx.oblig(okm)
        if not okm:
            viol(ctx, b, "protocol|%s" % code, "decode(): " + (DEC_BAD.get(code) or "the function returns before finalize's report was handled "
                                                           "(monitor state %s)" % (s1.describe(g.lin) if isinstance(g, VInt) else None)))
    pushes = A.observations("c15-vecpush", since)
    kinds = set()
    for o in pushes:
        st = o["st"]
        ctx.count("R-C15-DRIVER")
        v, pay = enum_variant(F, st, o["val"])
        ok, why = True, ""
        if o["final"] is not None:
            kinds.add("final")
            fv, fp = enum_variant(F, st, o["final"])
            if not (v == "Err" and fv == "Some" and pay[0] == fp[0]):
                ok, why = False, "the error reported by finalize must be appended unmodified"
        else:
            pb = o["pushed"]
            if pb is None:
                ok, why = False, "a result is appended without a push"
            else:
                pv, pp = enum_variant(F, st, pb[1])
                if pv == "Err":
                    kinds.add("err")
                    if not (v == "Err" and pay[0] == pp[0]):
                        ok, why = False, "a decoder error must be appended unmodified"
                else:
                    kinds.add("ok")
                    ov, op = enum_variant(F, st, pp[0])
                    tv = o["tovec"]
                    if not (v == "Ok" and ov == "Some" and tv is not None and tv[0] == op[0] and pay[0] == tv[1]):
                        ok, why = False, "a decoded transmission must be appended as a copy (to_vec) of exactly the returned slice"
                # the pushed byte is the iterator item (through Borrow)
                it = o["item"]
                iv, ipay = enum_variant(F, st, it) if it is not None else (None, ())
                bw = o["borrow"]
                if ok and not (iv == "Some" and bw is not None and isinstance(bw[0], VRef)
                               and ip.read_raw(st, bw[0].root, bw[0].steps) == ipay[0]
                               and isinstance(bw[1], VRef) and ip.read_raw(st, bw[1].root, bw[1].steps) == pb[0]):
                    ok, why = False, "the byte pushed into the decoder must be the iterator's item (via Borrow), unmodified"
        ctx.oblig(ok)
        if not ok:
            viol(ctx, b, why[:40], "decode(): " + why)
    if kinds != {"final", "err", "ok"}:
        viol(ctx, b, "coverage", "decode(): expected appended results of kinds ok / err / final, saw %r" % kinds)
    # structure: push_byte lies on every cycle of the loop; finalize dominates the return and is outside the loop
    cfg = CFG(b)
    loops = cfg.loops()
    ctx.count("R-C15-DRIVER")
    pcalls = [bb for bb, t in cfg.calls() if any(n.endswith("Decoder::<B>::push_byte") for n in callee_names(t))]
    fcalls = [bb for bb, t in cfg.calls() if any(n.endswith("Decoder::<B>::finalize") for n in callee_names(t))]
    rets = cfg.returns()
    ok = len(loops) == 1 and len(pcalls) == 1 and len(fcalls) == 1 and len(rets) == 1
    if ok:
        h, lb = list(loops.items())[0]
        ok = pcalls[0] in lb and fcalls[0] not in lb and cfg.dominates(fcalls[0], rets[0]) and \
            not any(h in cfg.reachable_from(s, avoid={pcalls[0]}) for s in cfg.succ[h] if s in lb and s != pcalls[0]
                    and not _exhausted_exit(b, cfg, s, lb))
    ctx.oblig(ok)
    if not ok:
        viol(ctx, b, "structure", "decode(): push_byte must lie on every loop cycle and finalize must be called exactly once after the loop on every path to the return")


def _exhausted_exit(b, cfg, s, lb):
    return False


def check_no_swallow(ctx, F, b, push_names):
    """inside the driving loop, only Ok(false) / Ok(None) may continue: the Err edge and the Ok(true)/Ok(Some) edge of the
    push result must not lead back to the loop head"""
    cfg = CFG(b)
    loops = cfg.loops()
    found = False
    for bb, t in cfg.calls():
        if not any(n.split("::")[-1] in push_names and "Decoder" in n for n in callee_names(t)):
            continue
        heads = [h for h, lb in loops.items() if bb in lb]
        if not heads:
            continue
        h = heads[0]
        found = True
        # switch on the discriminant of the push result
        cur = t["target"]
        sw = None
        for _ in range(4):
            tt = b["blocks"][cur]["term"]
            if tt["k"] == "switch":
                sw = tt
                break
            if tt["k"] == "goto":
                cur = tt["target"]
            else:
                break
        ctx.count("R-C15-DRIVER")
        ok = sw is not None
        if ok:
            err_t = [x for v, x in sw["targets"] if v == 1]
            if not err_t and sw.get("otherwise") is not None:
                err_t = [sw["otherwise"]]      # `Ok(..) => .., other => ..`: the Err discriminant takes the default edge
            reporters = {bb2 for bb2, t2 in cfg.calls() if any(n.endswith("Vec::<T, A>::push") for n in callee_names(t2))}
            ok = bool(err_t) and (h not in cfg.reachable_from(err_t[0]) or
                                  (bool(reporters) and cfg.every_path_passes(err_t[0], h, reporters)))
        ctx.oblig(ok)
        if not ok:
            viol(ctx, b, "swallow-err", "%s: an Err returned by the decoder can reach the next loop iteration without being reported" % b["def"].split("::")[-1])
    if not found:
        viol(ctx, b, "swallow-anchor", "no push call inside a loop found")


def check_generic(ctx, F):
    # every method of the sealed Buffer trait is covered by the buffer rules (R-C18-*: both implementations have the same effect on
    # the Deref view as long as the capacity suffices), which this check includes
    allowed = {("util::Buffer", "push"), ("util::Buffer", "clear"), ("util::Buffer", "extend_from_slice"), ("util::Buffer", "truncate"),
               ("std::ops::Deref", "deref"), ("std::default::Default", "default")}
    n = 0
    for b in F.bodies.values():
        if not b["span"]["file"].endswith("transport/decode.rs") or b.get("auto_derived"):
            continue
        for bb, t in CFG(b).calls():
            c = t.get("callee") or {}
            st = c.get("self_ty") or {}
            if c.get("trait") and st.get("k") in ("param",) or (st.get("k") == "other" and "impl Buffer" in st.get("s", "")):
                if c.get("trait") in ("std::iter::Iterator", "std::iter::IntoIterator", "std::borrow::Borrow"):
                    continue
                n += 1
                ctx.count("R-C15-GENERIC")
                if (c["trait"], c["method"]) not in allowed:
                    ctx.violation("R-C15-GENERIC", "%s|%s::%s" % (b["def"], c["trait"], c["method"]),
                                  (b["span"]["file"], b["blocks"][bb]["tspan"]["line"], b["def"]),
                                  "the decoder uses its buffer through %s::%s; only the Buffer trait, Deref and Default are covered by the buffer contract" % (c["trait"], c["method"]))
    if n < 4:
        ctx.violation("BELOW-FLOOR", "R-C15-GENERIC", ("", 0, ""), "only %d buffer uses found in decode.rs" % n)
    # who calls the decoder's mutators
    callers = {}
    for b in F.bodies.values():
        if b.get("auto_derived"):
            continue
        for bb, t in CFG(b).calls():
            for nm in callee_names(t):
                if nm.startswith("transport::decode::Decoder::<B>::") and nm.split("::")[-1] in ("_push_byte", "push_byte", "finalize", "reset"):
                    callers.setdefault(nm.split("::")[-1], set()).add(b["def"])
    ctx.count("R-C15-SITES", sum(len(v) for v in callers.values()))
    # the four DecoderReader entry points are each analysed under the reader protocol monitor with their private helpers inlined
    rd_entries = {"transport::decoder_reader::DecoderReader::<B, R>::" + n for n in ("read", "next", "read_nb", "next_nb")}
    expected = {
        "_push_byte": {"transport::decode::Decoder::<B>::push_byte", "transport::decode::DecodeIterator::<B, I>::next"} | rd_entries,
        "push_byte": {"transport::decode::decode"},
        "finalize": {"transport::decode::decode", "transport::decode::DecodeIterator::<B, I>::next"},
        "reset": set(rd_entries),
    }
    all_callers = {}
    for b2 in F.bodies.values():
        for bb, t in CFG(b2).calls():
            for nm in callee_names(t):
                if nm in F.bodies:
                    all_callers.setdefault(nm, set()).add(b2["def"])

    def covered(d, exp, seen=()):
        """d is an expected driver, or a private helper all of whose callers are covered (it is analysed inline there)"""
        if d in exp:
            return True
        b2 = F.bodies.get(d)
        if b2 is not None and b2.get("kind") == "Closure" and b2.get("closure_of") and d not in seen:
            return covered(b2["closure_of"], exp, seen + (d,))     # a closure runs as part of the function it is written in
        if b2 is None or d in seen or b2["vis"] == "pub" or b2.get("impl_trait"):
            return False
        cs = all_callers.get(d, set())
        return bool(cs) and all(covered(c, exp, seen + (d,)) for c in cs)
    for k, exp in expected.items():
        got = callers.get(k, set())
        extra = {d for d in got if not covered(d, exp)}
        if extra:
            ctx.violation("R-C15-SITES", k + "|" + ",".join(sorted(extra)), ("src/transport/decode.rs", 0, k),
                          "Decoder::%s is called from an unexpected driver %r: its loop is not covered by R-C15-DRIVER" % (k, sorted(extra)))
        if not got:
            ctx.violation("BELOW-FLOOR", "R-C15-SITES|" + k, ("", 0, ""), "no caller of Decoder::%s found" % k)

"""C08 Resynchronisation: the start-sequence matcher is the KMP automaton of 1b1b1b1b01010101 (structural clause)."""
from ..common import ASSUMPTIONS
from ..engine import AnchorMissing
from ..lin import Lin
from ..vra.interp import Unsupported
from ..vra.state import Infeasible
from ..vra.values import *
from .decoder import *


def kmp_table(pat):
    """delta[n][b] = length of the longest prefix of pat that is a suffix of pat[:n] + [b]   (n < len(pat))"""
    m = len(pat)
    tbl = []
    for n in range(m):
        row = []
        for b in range(256):
            s = pat[:n] + [b]
            k = min(m, len(s))
            while k > 0 and s[len(s) - k:] != pat[:k]:
                k -= 1
            row.append(k)
        tbl.append(row)
    return tbl


def run(ctx):
    ctx.rule("R-C08-KMP", "for every matcher state n in 0..7 and every byte b exactly one transition of the extracted relation is enabled and "
                          "it equals the KMP automaton of the start sequence: next state, and discarded-byte increment n + 1 - n'")
    ctx.rule("R-C08-HANDOFF", "when the start sequence completes the decoder state equals the state after an in-frame restart (fresh frame: "
                              "ParsingNormal, counter 8, no withheld zeros, digest re-initialised and fed the start sequence) and the noise count is reported")
    F = ctx.facts("all")
    A = ctx.analysis("all")
    ip = A.ip
    try:
        an = Anchors(F)
        inv = A.invariant(NOD)
        S = inv.parts.get(an.v_look)
        if S is None:
            raise AnchorMissing("no LookingForMessageStart partition")
    except (AnchorMissing, Unsupported) as e:
        ctx.violation("ANCHOR-MISSING", "decoder", ("", 0, ""), str(e))
        return
    where = (an.push["span"]["file"], an.push["span"]["line"], an.push["def"])
    install_crc_tracking(ip, an)
    pat = START_SEQ
    m = len(pat)
    kmp = kmp_table(pat)
    # ---- extract the transition relation: one run per matcher state n (concrete, so that table-driven matchers evaluate), the byte symbolic
    old_thr = ip.join_threshold
    ip.join_threshold = 10 ** 9
    trans_of = {}
    try:
        st = ip.new_state()
        obj0 = A.import_partition(st, S)
        root = ip.new_oid("self")
        st.mem[root] = obj0
        st.ghost["dec-self"] = root
        st.ghost["dec-part"] = an.v_look
        look0 = obj0.elems[an.i_state].pay[an.v_look]
        n0, d0 = an.look_init(look0).lin, an.look_disc(look0).lin
        lo, hi = st.interval(n0)
        if lo != 0 or hi != m - 1:
            ctx.violation("R-C08-KMP", "state-range", where, "matcher state ranges over [%s,%s], expected [0,%d]" % (lo, hi, m - 1))
        for n in range(m):
            stn = st.copy()
            try:
                stn.assume_eq0(n0 - n)
            except Infeasible:
                trans_of[n] = []
                continue
            lst = []
            for (s1, rv, args) in A.run_fn(an.push, st0=stn, first_arg=VRef(root, (), True)):
                for s2, label in classify_push(ip, s1, rv, an):
                    lst.append((s2, label, s2.mem[root], rv, args[2]))
            trans_of[n] = lst
    finally:
        ip.join_threshold = old_thr
    ctx.cov["extracted_transitions"] = sum(len(v) for v in trans_of.values())
    if ctx.cov["extracted_transitions"] < 2 * m:
        ctx.violation("BELOW-FLOOR", "R-C08-KMP", where, "only %d matcher transitions extracted" % ctx.cov["extracted_transitions"])
    bad = {}
    found_states = []
    cells = 0
    for n in range(m):
        for b in range(256):
            cells += 1
            enabled = []
            for (s2, label, obj1, rv, barg) in trans_of[n]:
                s3 = s2.copy()
                try:
                    s3.assume_eq0(barg.lin - b)
                except Infeasible:
                    continue
                enabled.append((s3, label, obj1, rv))
            exp = kmp[n][b]
            key = None
            if not enabled:
                key = "no transition enabled"
            for (s3, label, obj1, rv) in enabled:
                var = an.variant_of(s3, obj1)
                if exp < m:
                    if len(enabled) != 1:
                        key = "%d transitions enabled" % len(enabled)
                        break
                    if var != an.v_look or label != "Ok(false)":
                        key = "leaves the matcher (%s, state #%s), expected to stay with n'=%d" % (label, var, exp)
                        break
                    l1 = obj1.elems[an.i_state].pay[an.v_look]
                    n1 = s3.const_of(an.look_init(l1).lin)
                    inc = s3.const_of(an.look_disc(l1).lin - d0)
                    if n1 != exp or inc != n + 1 - exp:
                        key = "goes to n'=%s discarding %s, KMP prescribes n'=%d discarding %d" % (n1, inc, exp, n + 1 - exp)
                        break
                else:
                    # start sequence complete: frame state, counter 8; noise count reported iff > 0
                    try:
                        raw1 = s3.const_of(pending_lin(A, an, s3, obj1))
                    except Unsupported:
                        raw1 = None
                    if var != an.v_normal or raw1 != m:
                        key = "completes the start sequence but ends in state #%s with counter %s" % (var, raw1)
                        break
                    if label == "Err(DiscardedBytes)":
                        rep = err_payload(ip, s3, rv)[0].lin
                        if not (s3.prove_eq0(rep - d0) and s3.prove_ge0(d0 - 1)):
                            key = "start found: reported count is not the accumulated noise count"
                            break
                    elif label == "Ok(false)":
                        if not s3.prove_eq0(d0):
                            key = "start found without a report although noise was discarded"
                            break
                    else:
                        key = "start found with outcome " + label
                        break
                    found_states.append((s3, obj1, label))
            if key:
                bad.setdefault((n, key), []).append(b)
    ctx.count("R-C08-KMP", cells)
    ctx.obligations += cells
    ctx.discharged += cells - sum(len(v) for v in bad.values())
    ctx.nontrivial += cells
    for (n, key), bs in sorted(bad.items()):
        ctx.violation("R-C08-KMP", "n=%d|%s" % (n, "b=" + ",".join("%02x" % x for x in bs[:4])), where,
                      "matcher state n=%d, byte(s) %s%s: %s" % (n, ", ".join("0x%02x" % x for x in bs[:6]), " ..." if len(bs) > 6 else "", key))
    ctx.sample({"kmp_row_n4": {"0x1b": kmp[4][0x1b], "0x01": kmp[4][0x01], "other": kmp[4][0]},
                "kmp_row_n6": {"0x1b": kmp[6][0x1b], "0x01": kmp[6][0x01], "other": kmp[6][0]}})
    # ---- hand-off: compare with the in-frame restart
    restart = []
    Sp = inv.parts.get(an.v_payload)
    if Sp is not None:
        st = ip.new_state()
        objp = A.import_partition(st, Sp)
        rootp = ip.new_oid("self")
        st.mem[rootp] = objp
        st.ghost["dec-self"] = rootp
        st.ghost["dec-part"] = an.v_payload
        for (s1, rv, args) in A.run_fn(an.push, st0=st, first_arg=VRef(rootp, (), True)):
            for s2, label in classify_push(ip, s1, rv, an):
                o = s2.mem[rootp]
                if label == "Err(DiscardedBytes)" and an.variant_of(s2, o) == an.v_normal:
                    restart.append((s2, o))
    if not restart or not found_states:
        ctx.violation("BELOW-FLOOR", "R-C08-HANDOFF", where, "hand-off states not found (start found: %d, restart: %d)" % (len(found_states), len(restart)))
    def summary(s, o):
        try:
            pend = s.const_of(pending_lin(A, an, s, o))
        except Unsupported:
            pend = None
        return (an.variant_of(s, o), pend, s.const_of(zc_of(an, o).lin),
                o.elems[an.i_crc].tag if isinstance(o.elems[an.i_crc], VOpq) else None, s.ghost.get("crc-feed"))
    want = (an.v_normal, m, 0, "crc-digest-fed", (tuple(pat),))
    for nm, lst in (("start-found", found_states[:4]), ("restart", restart)):
        for x in lst:
            ctx.count("R-C08-HANDOFF")
            got = summary(x[0], x[1])
            ok = got == want
            ctx.oblig(ok)
            if not ok:
                ctx.violation("R-C08-HANDOFF", nm, where, "%s leaves (state, counter, withheld, digest, fed) = %r, a fresh frame is %r" % (nm, got, want))
    ctx.cov.update({"cells": cells, "pattern": ["%02x" % x for x in pat]})
    ctx.include("C14", "'a decoder that is between transmissions' includes one that was reset / finalized or has just reported a result: "
                       "it must be in the fresh matcher state, else the automaton proved above does not start at its initial cell")
    ctx.assumptions = [ASSUMPTIONS[k] for k in ("A1", "A2")]
    ctx.explanation = (
        "The matcher partition of push_byte is analysed with a symbolic state n in [0,7] and a symbolic byte; its abstract paths are the "
        "extracted transition relation (guards over n and b, effects as linear expressions). For each of the 8 x 256 pairs the enabled "
        "transition is determined by checking guard feasibility and compared with the KMP automaton computed from the start sequence, "
        "including the discarded-byte increment n + 1 - n'. The hand-off state is compared with the in-frame restart. No sml-rs code is "
        "executed. Not decided: that the frame following the hand-off is delivered (that is C01 from the hand-off state).")

"""C06 Parsers are total and use input-proportional resources on any bytes."""
from .totality import *
from ..common import ASSUMPTIONS
from ..cfg import CFG, callee_names
from ..lin import Lin
from ..vra.values import VSlice
from ..vra import stdsum

SCOPE_FILES = ("src/parser/",)
ALLOC_PREFIXES = ("std::vec::", "alloc::", "std::boxed::", "std::string::", "std::collections::", "std::rc::", "std::sync::Arc")


def scope_bodies(F):
    out, skipped = [], {}
    for b in F.bodies.values():
        if not in_files(b, SCOPE_FILES):
            continue
        ex = excluded(b)
        if ex:
            skipped[ex] = skipped.get(ex, 0) + 1
            continue
        out.append(b)
    return out, skipped


def is_api_root(F, b):
    if b["kind"] == "Closure":
        return False
    tr = b.get("impl_trait")
    if tr:
        return tr not in F.traits      # impls of crate-private traits are not API
    return b["vis"] == "pub"


def install_alloc_obligations(A):
    """ALLOC: the capacity requested from the allocator must be bounded by the length of a slice argument of
    the requesting function (or be a small constant) -- never by a length declared inside the input"""
    ip = A.ip

    def h(ip_, frame, bb, st, what, size):
        if what in ("push",):
            return
        goal = None
        for i in range(frame.body["arg_count"]):
            v = st.mem.get(("L", frame.fid, i + 1))
            if isinstance(v, VSlice):
                g = ("cmp", "Le", size, v.n)
                goal = g if goal is None else ("or", goal, g)
        lo, hi = st.interval(size)
        const_ok = hi is not None and hi <= 4096
        if goal is None:
            goal = ("cmp", "Le", size, Lin.const(4096))
        ok = const_ok or ip_.prove_bool(st, goal, True)
        ip_.oblige("ALLOC", frame, bb, ok, "%s(%s): requested capacity must be <= len of an input slice argument" % (what, st.describe(size)),
                   st, label=what, goal=(goal, True))
    ip.on_alloc.append(h)


def run(ctx):
    ctx.rule("R-C06-OBL", "every OVF/IDX/DIV/PANIC/ALLOC/EXT/REC obligation reachable from complete::parse, Parser::new or "
                          "Parser::next is discharged (value-range analysis with function summaries and lifted preconditions)")
    ctx.rule("R-C06-ALLOC", "every allocation request is bounded by the length of an input slice argument; Vec::push only inside "
                            "loops whose input slice provably shrinks per iteration")
    ctx.rule("R-C06-NOALLOC", "no body reachable from the streaming parser calls into alloc; the crate builds without the alloc feature")
    ctx.rule("R-C06-LOOPS", "termination certificates for all parser loops (L3: the input slice shrinks by >= 1 byte per iteration)")
    F = ctx.facts("all")
    A = ctx.analysis("all", join_exits=lambda b: b["span"]["file"].startswith("src/parser/"), name="parser")
    A.ip.summarizable = lambda b: b["span"]["file"].startswith("src/parser/") and b["kind"] != "Closure"
    install_alloc_obligations(A)
    bodies, skipped = scope_bodies(F)
    callees_seen = {}

    def rec_call(ip_, frame, bb, t, st, callee, args):
        r = callee.get("resolved") or callee
        callees_seen.setdefault(frame.body["def"], set()).add((r["def"], callee.get("krate", "")))
    A.ip.on_call.append(rec_call)
    invs = {}
    try:
        A.invariant("parser::streaming::Parser")
        invs["parser::streaming::Parser"] = A.inv_info["parser::streaming::Parser"]
        ctx.count("R-C06-INV")
    except (AnchorMissing, Unsupported) as e:
        ctx.violation("R-C06-INV", "parser::streaming::Parser", ("", 0, ""), "cannot infer object invariant: %s" % e)
    since = len(A.ip.log)
    helpers = ts_helper_names(A)
    for b in bodies:
        if b["def"] in helpers or not is_api_root(F, b):
            continue
        try:
            A.run_fn(b)
            ctx.count("R-C06-ROOTS")
        except (Unsupported, AnchorMissing) as e:
            ctx.violation("R-C06-UNSUPPORTED", b["def"], (b["span"]["file"], b["span"]["line"], b["def"]), str(e))
    api_roots = [b["def"] for b in bodies if b["def"] not in helpers and is_api_root(F, b)]
    missing = check_visited(ctx, A, bodies, "R-C06", F, api_roots)
    for b in missing:
        if ctx.is_reviewed("R-C06-VISITED", b["def"]):
            continue
        ctx.violation("R-C06-VISITED", b["def"], (b["span"]["file"], b["span"]["line"], b["def"]),
                      "in-scope body is not reached from any analysed root")
    by_kind = triage(ctx, A, since, "R-C06", F)
    loops = loop_certificates(ctx, A, bodies, "R-C06", since)
    sites = static_panic_sites(ctx, A, bodies, "R-C06", since)
    # --- Vec::push only in shrinking loops
    shrinking = {(l["fn"], l["head"]) for l in loops if any("L3" in c for c in l["certificates"])}
    pushes = 0
    for b in bodies:
        cfg = CFG(b)
        lp = cfg.loops()
        for bb, t in cfg.calls():
            if any(n.endswith("Vec::<T, A>::push") or n.endswith("::extend_from_slice") and "Vec" in n for n in callee_names(t)):
                pushes += 1
                ctx.count("R-C06-ALLOC")
                inl = [h for h, body in lp.items() if bb in body]
                if inl and not any((b["def"], h) in shrinking for h in inl):
                    ctx.violation("R-C06-ALLOC", b["def"] + "|push-in-loop", (b["span"]["file"], b["blocks"][bb]["tspan"]["line"], b["def"]),
                                  "Vec::push inside a loop without a shrinking-input certificate: number of pushes not bounded by the input length")
    # --- streaming parser reaches no allocator
    stream_roots = [b for b in bodies if b["def"].startswith("parser::streaming::Parser") or
                    (b.get("impl_self_ty", {}).get("def") == "parser::streaming::Parser" and b.get("impl_trait") == "std::iter::Iterator")]
    reach = set()
    work = [b["def"] for b in stream_roots]
    while work:
        d = work.pop()
        if d in reach:
            continue
        reach.add(d)
        for (cd, kr) in callees_seen.get(d, ()):
            if cd in F.bodies:
                work.append(cd)
    n_ext = 0
    for d in sorted(reach):
        for (cd, kr) in callees_seen.get(d, ()):
            if cd not in F.bodies:
                n_ext += 1
                if kr == "alloc" or cd.startswith(ALLOC_PREFIXES):
                    b = F.bodies[d]
                    ctx.violation("R-C06-NOALLOC", d + "|" + cd, (b["span"]["file"], b["span"]["line"], d),
                                  "streaming parser reaches allocating callee " + cd)
    ctx.count("R-C06-NOALLOC", len(reach))
    if not stream_roots or len(reach) < 2:
        ctx.violation("R-C06-NOALLOC", "anchor", ("", 0, ""), "streaming parser roots not found")
    if ctx.tier == "thorough":
        F2 = ctx.facts("nodefault")
        if not any(d.startswith("parser::streaming::Parser") for d in F2.bodies):
            ctx.violation("R-C06-NOALLOC", "nodefault-build", ("", 0, ""), "streaming parser missing from the --no-default-features build")
        if any(d.startswith("parser::complete::") for d in F2.bodies):
            ctx.violation("R-C06-NOALLOC", "nodefault-complete", ("", 0, ""), "allocating parser present without the alloc feature")
        ctx.count("R-C06-NOALLOC-BUILD")
    if ctx.tier == "thorough":
        ctx.rule("R-C06-CLIPPY", "cross-reference: every potential-panic site flagged by clippy's restriction lints maps to an enumerated obligation")
        ctx.cov["clippy_crossref"] = clippy_crossref(ctx, A, bodies, "R-C06", since, ("src/parser/",))
    ctx.cov.update({
        "config": "all features", "bodies_in_scope": len(bodies), "bodies_excluded_A7": skipped,
        "obligations_by_kind": by_kind, "static_sites": sites, "loops": loops, "invariants": invs,
        "summaries": {"computed": A.ip.stats.get("summaries", 0), "uses": A.ip.stats.get("summary_uses", 0),
                      "with_lifted_preconditions": sorted(k for k, S in A.ip.summaries.items() if S.lifted)[:30]},
        "streaming_reachable_bodies": len(reach), "streaming_external_callees": n_ext, "vec_push_sites": pushes,
        "function_instances_analysed": len(A.ip.visited), "interpreter_stats": A.ip.stats,
    })
    ctx.include("C13", "the streaming parser consumed as an iterator terminates: after None or an error it yields None forever, and every event consumes input")
    ctx.assumptions = [ASSUMPTIONS[k] for k in ("A1", "A2", "A3", "A5", "A7")]
    ctx.explanation = (
        "Abstract interpretation of both parsers from their public entry points over an arbitrary input slice. Every parser "
        "function is summarised once per instance with symbolic arguments; obligations that need the caller's context (e.g. "
        "1 <= len <= SIZE in parse_num) are lifted and re-proved at every call site. Allocation sizes must be bounded by an "
        "input slice length, pushes must sit in loops whose input shrinks, and the streaming parser's reachable call set "
        "must not touch alloc. Decides panic/overflow/abort/hang freedom and input-proportional allocation requests for all byte strings; "
        "allocator success itself is assumed (A5).")

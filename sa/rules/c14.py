"""C14 Decoder keeps no memory across transmission boundaries."""
from ..common import ASSUMPTIONS
from ..engine import AnchorMissing
from ..lin import Lin
from ..vra.interp import Unsupported
from ..vra.values import *
from ..vra.stdsum import split_enum
from .decoder import *

BOUNDARY_ERRS = ("Err(InvalidMessage)", "Err(InvalidEsc)", "Err(OutOfMemory)")


def run(ctx):
    ctx.rule("R-C14-RESET", "post-state of reset() from every reachable state equals Default::default() field by field and the buffer is cleared; "
                            "its return value is 0 after a delivered frame and the consumed-byte counter otherwise")
    ctx.rule("R-C14-FINALIZE", "finalize() leaves the fresh state and an empty buffer from every state (what it reports is R-C17-FINAL)")
    ctx.rule("R-C14-BOUNDARY", "every push_byte outcome that reports InvalidMessage / InvalidEsc / OutOfMemory leaves the fresh state with a "
                               "cleared buffer; Ok(true) leaves Done; from Done the byte is processed by a decoder that was reset first")
    ctx.rule("R-C14-CRC-DEAD", "the one field reset() does not touch (the CRC digest) is dead in the idle state: every use in push_byte from "
                               "LookingForMessageStart is preceded, on the same path, by a re-initialisation")
    ctx.rule("R-C14-FROMBUF", "Decoder::from_buf clears the buffer it is given and starts from the default core state")
    F = ctx.facts("all")
    A = ctx.analysis("all")
    ip = A.ip
    try:
        an = Anchors(F)
        A.invariant(NOD)
        dst, dobj = default_object(A, an)
    except (AnchorMissing, Unsupported) as e:
        ctx.violation("ANCHOR-MISSING", "decoder", ("", 0, ""), str(e))
        return
    where = lambda b: (b["span"]["file"], b["span"]["line"], b["def"])

    # ---- hooks: buffer clear, crc initialisation / use, recursion from Done
    def on_call(ip_, frame, bb, t, st, callee, args):
        if callee.get("trait") == "util::Buffer" and callee.get("method") == "clear":
            st.ghost["c14-cleared"] = True
        if callee.get("trait") == "util::Buffer" and callee.get("method") in ("push", "extend_from_slice"):
            st.ghost["c14-cleared"] = False
        r = callee.get("resolved") or callee
        if r["def"] == an.push["def"] and frame.body is an.push:
            root = st.ghost.get("dec-self")
            obj = st.mem.get(root) if root else None
            why = []
            ok = obj is not None and is_fresh(st, obj, dst, dobj, an, why) and st.ghost.get("c14-cleared") is True
            ip_.observe({"kind": "c14-recursion", "ok": ok, "why": why, "part": st.ghost.get("dec-part")})
        if r["def"] == "std::mem::swap":
            crc_use(ip_, frame, bb, st, [a for a in args if isinstance(a, VRef)], "swap")

    def crc_use(ip_, frame, bb, st, refs, what):
        root = st.ghost.get("dec-self")
        for a in refs:
            if isinstance(a, VRef) and a.root == root and a.steps[:1] == (("f", an.i_crc),):
                if st.ghost.get("dec-part") == an.v_look and st.ghost.get("c14-root-fn") == "push_byte" \
                        and not st.ghost.get("c14-crc-init"):
                    ip_.observe({"kind": "c14-crc-stale", "what": what, "fn": frame.body["def"],
                                 "line": frame.body["blocks"][bb]["tspan"]["line"]})
                else:
                    ip_.observe({"kind": "c14-crc-use-ok", "what": what})

    def on_crc(ip_, frame, bb, st, what, ref, x):
        crc_use(ip_, frame, bb, st, [ref], what)

    def on_assign(ip_, frame, bb, stmt, st, val):
        root = st.ghost.get("dec-self")
        if root is None:
            return
        p = stmt["place"]
        if not p["proj"] or p["proj"][-1].get("k") != "field":
            return
        try:
            a = ip_.resolve(frame, p, st)
        except Unsupported:
            return
        if a.root == root and a.steps == (("f", an.i_crc),):
            st.ghost["c14-crc-init"] = isinstance(val, VOpq) and val.tag == "crc-digest-fresh"
    ip.on_call.append(on_call)
    ip.on_crc.append(on_crc)
    ip.on_assign.append(on_assign)

    # ---- reset
    for c in cases(A, an.reset, {"c14-root-fn": "reset"}):
        ctx.count("R-C14-RESET")
        why = []
        fresh = is_fresh(c["st"], c["obj"], dst, dobj, an, why)
        cleared = c["st"].ghost.get("c14-cleared") is True
        # (which number reset() returns is R-C17-FINAL / R-C17-CONSERVE's business; here: it returns a count at all)
        ret = c["ret"]
        ret_ok = isinstance(ret, VInt)
        ok = fresh and cleared and ret_ok
        ctx.oblig(ok)
        if not ok:
            ctx.violation("R-C14-RESET", "partition=%s|%s" % (c["key"], "state" if not fresh else ("buffer" if not cleared else "count")),
                          where(an.reset),
                          "reset() from state #%s: %s" % (c["key"], "; ".join(why) if not fresh else
                                                          ("buffer not cleared" if not cleared else "does not return a count")))
    # ---- finalize
    for c in cases(A, an.finalize, {"c14-root-fn": "finalize"}):
        why = []
        fresh = is_fresh(c["st"], c["obj"], dst, dobj, an, why) and c["st"].ghost.get("c14-cleared") is True
        for s2, var, pay in split_enum(ip, c["st"], c["ret"], "finalize result"):
            ctx.count("R-C14-FINALIZE")
            # (what finalize reports - None exactly when nothing is pending - is decided by R-C17-FINAL / R-C10-FINAL through the
            #  reset() observer; the boundary property only needs the state it leaves behind)
            ok = fresh
            ctx.oblig(ok)
            if not ok:
                ctx.violation("R-C14-FINALIZE", "partition=%s|ret=%s" % (c["key"], "None" if var == 0 else "Some"), where(an.finalize),
                              "finalize() from state #%s returns %s %s" % (c["key"], "None" if var == 0 else "Some(..)",
                                                                           "and does not leave the fresh state: " + "; ".join(why) if not fresh else
                                                                           ""))
    # ---- push_byte
    n_bound = 0
    seen_labels = set()
    for c in cases(A, an.push, {"c14-root-fn": "push_byte"}):
        for s2, label in classify_push(ip, c["st"], c["ret"], an):
            seen_labels.add(label)
            obj = s2.mem[c["root"]]
            if label in BOUNDARY_ERRS:
                n_bound += 1
                ctx.count("R-C14-BOUNDARY")
                why = []
                ok = is_fresh(s2, obj, dst, dobj, an, why) and s2.ghost.get("c14-cleared") is True
                ctx.oblig(ok)
                if len(ctx.samples) < 5:
                    ctx.sample({"push_byte_from_state": c["key"], "outcome": label, "post_state_equals_default": ok})
                if not ok:
                    ctx.violation("R-C14-BOUNDARY", "partition=%s|%s" % (c["key"], label), where(an.push),
                                  "push_byte from state #%s returning %s does not leave a fresh decoder: %s" %
                                  (c["key"], label, "; ".join(why) or "buffer not cleared"))
            elif label == "Ok(true)":
                ctx.count("R-C14-BOUNDARY")
                ok = an.variant_of(s2, obj) == an.v_done
                ctx.oblig(ok)
                if not ok:
                    ctx.violation("R-C14-BOUNDARY", "partition=%s|Ok(true)" % (c["key"],), where(an.push),
                                  "push_byte returns Ok(true) without entering the Done state")
    for lab in BOUNDARY_ERRS + ("Ok(true)",):
        if lab not in seen_labels:
            ctx.violation("BELOW-FLOOR", "push-outcome|" + lab, where(an.push), "no push_byte outcome %s found (anchor lost?)" % lab)
    recs = A.observations("c14-recursion")
    ctx.count("R-C14-BOUNDARY", len(recs))
    if not recs:
        # no recursive call: compare behaviours instead -- from Done, push_byte(b) must have exactly the outcomes (result, final
        # state as a function of b) that it has from the default state, and must have cleared the buffer
        def canon(st_, v):
            if isinstance(v, VInt):
                c = st_.const_of(v.lin)
                return c if c is not None else repr(v.lin)
            if isinstance(v, VEnum):
                c = st_.const_of(v.disc)
                return (c, tuple(canon(st_, x) for x in v.pay.get(c, ()))) if c is not None else "?"
            if isinstance(v, (VAgg, VArr)):
                return tuple(canon(st_, x) for x in v.elems)
            if isinstance(v, VOpq):
                return "opq:" + str(v.tag)
            return repr(v)

        def outcome_set(obj_start, base, key):
            st_ = base.copy()
            root_ = ip.new_oid("self")
            st_.mem[root_] = obj_start
            st_.ghost["dec-self"] = root_
            st_.ghost["dec-part"] = key
            res = set()
            cleared = True
            for (s2, rv) in ip.run_root(an.push, {}, [VRef(root_, (), True)] + shared, st_):
                for s3, label in classify_push(ip, s2, rv, an):
                    sg = bsym.lin.single()
                    vals = s3.values(sg[0])
                    res.add((label, canon(s3, s3.mem[root_]), None if vals is None else (min(vals), max(vals), len(vals))))
                    if key == "done" and s3.ghost.get("c14-cleared") is not True:
                        cleared = False
            return res, cleared
        base = ip.new_state()
        shared = ip.fresh_args(an.push, {}, base)[1:]
        bsym = [a for a in shared if isinstance(a, VInt)][0]
        inv = A.invariant(NOD)
        ok = an.v_done in inv.parts
        why_ = "no Done partition"
        if ok:
            st_done = base.copy()
            obj_done = A.import_partition(st_done, inv.parts[an.v_done])
            from_done, cleared = outcome_set(obj_done, st_done, "done")
            st_fresh = base.copy()
            for k_, v_ in dst.mem.items():
                st_fresh.mem.setdefault(k_, v_)
            from_fresh, _c = outcome_set(dobj, st_fresh, "fresh")
            ok = bool(from_done) and from_done == from_fresh and cleared
            why_ = "outcomes from Done %r differ from the outcomes of a fresh decoder %r%s" % (
                sorted(from_done, key=str)[:3], sorted(from_fresh, key=str)[:3], "" if cleared else "; buffer not cleared")
        ctx.oblig(ok)
        if not ok:
            ctx.violation("R-C14-BOUNDARY", "done-recursion", where(an.push),
                          "from Done the byte must be processed exactly as by a fresh decoder (after a reset): " + why_)
    for r in recs:
        ctx.oblig(r["ok"])
        if not r["ok"]:
            ctx.violation("R-C14-BOUNDARY", "done-recursion-state", where(an.push),
                          "from Done the byte is processed by a decoder that is not fresh: %s" % "; ".join(r["why"]))
    stale = A.observations("c14-crc-stale")
    uses = A.observations("c14-crc-use-ok")
    ctx.count("R-C14-CRC-DEAD", len(uses) + len(stale))
    for r in stale:
        ctx.oblig(False)
        ctx.violation("R-C14-CRC-DEAD", "%s|%s" % (r["fn"], r["what"]), ("src/transport/decode.rs", r["line"], r["fn"]),
                      "CRC digest used (%s) while looking for a message start without being re-initialised on this path: "
                      "it still holds data from before the boundary" % r["what"])
    for _ in uses[:1]:
        ctx.oblig(True)
    # ---- frame starts re-initialise the CRC: run push_byte with the CRC field marked stale
    ctx.rule("R-C14-CRC-START", "every push_byte outcome that starts a frame (counter set to the start-sequence length) has re-initialised "
                                "the CRC on that path and fed it exactly the start sequence")
    install_crc_tracking(ip, an)
    inv = A.invariant(NOD)
    starts = 0
    for key, S in sorted(inv.parts.items(), key=lambda kv: str(kv[0])):
        st = ip.new_state()
        obj0 = A.import_partition(st, S)
        el = list(obj0.elems)
        el[an.i_crc] = VOpq(el[an.i_crc].ty if isinstance(el[an.i_crc], VOpq) else None, "crc-stale")
        obj0 = VAgg("struct", NOD, el)
        root = ip.new_oid("self")
        st.mem[root] = obj0
        st.ghost["dec-self"] = root
        st.ghost["dec-part"] = key
        st.ghost["c14-root-fn"] = "stale-run"
        raw0 = obj0.elems[an.i_raw].lin
        for (s1, rv, args) in A.run_fn(an.push, st0=st, first_arg=VRef(root, (), True)):
            for s2, label in classify_push(ip, s1, rv, an):
                obj = s2.mem[root]
                var = an.variant_of(s2, obj)
                raw1 = obj.elems[an.i_raw].lin
                # a frame start: a frame state whose counter is not raw0+1 (it was set, not incremented)
                frame = var not in (an.v_look, an.v_done)
                if not (frame and (key in (an.v_look, an.v_done) or label == "Err(DiscardedBytes)")):
                    continue
                starts += 1
                ctx.count("R-C14-CRC-START")
                crc = obj.elems[an.i_crc]
                feed = s2.ghost.get("crc-feed")
                ok = isinstance(crc, VOpq) and crc.tag == "crc-digest-fed" and feed == (tuple(START_SEQ),)
                ctx.oblig(ok)
                if not ok:
                    ctx.violation("R-C14-CRC-START", "partition=%s|%s" % (key, label), where(an.push),
                                  "push_byte from state #%s (%s) starts a frame without re-initialising the CRC and feeding it the start "
                                  "sequence (crc=%r, fed=%r): the checksum carries data from before the boundary" % (key, label, crc, feed))
    if starts < 3:
        ctx.violation("BELOW-FLOOR", "R-C14-CRC-START", where(an.push), "expected at least 3 frame-start outcomes (matcher with noise, matcher without noise, in-frame restart), found %d" % starts)
    # ---- from_buf
    fb = [b for b in F.bodies.values() if b.get("name") == "from_buf" and (b.get("impl_self_ty") or {}).get("def") == "transport::decode::Decoder"]
    if len(fb) != 1:
        ctx.violation("ANCHOR-MISSING", "from_buf", ("", 0, ""), "Decoder::from_buf not found")
    else:
        for (s2, rv, args) in A.run_fn(fb[0]):
            ctx.count("R-C14-FROMBUF")
            core = [e for e in rv.elems if isinstance(e, VAgg) and e.defn == NOD] if isinstance(rv, VAgg) else []
            ok = s2.ghost.get("c14-cleared") is True and len(core) == 1 and is_fresh(s2, core[0], dst, dobj, an)
            ctx.oblig(ok)
            if not ok:
                ctx.violation("R-C14-FROMBUF", "from_buf", where(fb[0]), "from_buf must clear the given buffer and start from the default state")
    ctx.cov.update({"invariant": A.inv_info.get(NOD), "default_state": repr(dobj), "push_outcome_labels": sorted(seen_labels)})
    ctx.assumptions = [ASSUMPTIONS[k] for k in ("A1", "A2", "A6")]
    ctx.explanation = (
        "For every partition of the decoder's inferred object invariant the analysis computes the abstract post-state of reset, finalize "
        "and push_byte per outcome class and compares it field by field with the abstract value of Default::default(); the buffer must "
        "have been cleared on the path. The CRC digest, the only field reset() leaves alone, is shown dead in the idle state. Because "
        "the decoder is a deterministic function of these fields and the cleared buffer, state equality is behavioural equality.")

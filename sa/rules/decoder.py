"""Shared anchors and helpers for the rules about the push decoder (C02, C08, C14, C16, C17)."""
from ..engine import AnchorMissing, TYPESTATE, field_index
from ..lin import Lin
from ..vra.state import Infeasible
from ..vra.interp import Unsupported
from ..vra.values import *
from ..vra.stdsum import split_enum

NOD = "transport::decode::NonOwningDecoder"
STATE = "transport::decode::DecodeState"
ERR = "transport::decode::DecodeErr"
START_SEQ = [0x1b, 0x1b, 0x1b, 0x1b, 0x01, 0x01, 0x01, 0x01]


class Anchors:
    """private anchors of the decoder located structurally where possible (DESIGN 2.5)"""

    def __init__(self, F):
        adt = F.adts.get(NOD)
        if adt is None:
            raise AnchorMissing("decoder core type %s not found" % NOD)
        self.F = F
        self.fields = adt["variants"][0]["fields"]
        self.i_state = self.i_crc = None
        ints = []
        for i, fl in enumerate(self.fields):
            t = fl["ty"]
            if t.get("k") == "adt" and t["def"] == STATE:
                self.i_state = i
            elif t.get("k") == "adt" and t["def"].startswith("crc::"):
                self.i_crc = i
            elif t.get("k") == "int":
                ints.append(i)
        if self.i_state is None or self.i_crc is None:
            raise AnchorMissing("state / crc field of the decoder core not found")
        self.i_raw = field_index(F, NOD, "raw_msg_len")
        self.i_zc = field_index(F, NOD, "zero_cache")
        st = F.adts[STATE]
        self.variants = {v["name"]: v["idx"] for v in st["variants"]}
        names = ("LookingForMessageStart", "ParsingNormal", "ParsingEscChars", "ParsingEscPayload", "Done")
        if any(nm not in self.variants for nm in names):
            # variants were renamed / reordered: identify them by the shape of their payload (two counters / nothing / one
            # small counter / index + 4-byte array); of the two payload-free variants the first declared is the in-frame
            # state.  A wrong identification cannot hide a defect: the rules would then fail on the unchanged behaviour.
            def sig(v):
                out = []
                for fl in v["fields"]:
                    t = fl["ty"]
                    out.append("a" if t.get("k") == "array" else ("i%d" % t.get("w", 0) if t.get("k") == "int" else "?"))
                return tuple(sorted(out))
            by = {}
            for v in st["variants"]:
                by.setdefault(sig(v), []).append(v["idx"])
            look = [i for sg_, ix in by.items() if len(sg_) == 2 and "a" not in sg_ and "?" not in sg_ for i in ix]
            pay = [i for sg_, ix in by.items() if len(sg_) == 2 and "a" in sg_ for i in ix]
            chars = [i for sg_, ix in by.items() if len(sg_) == 1 and sg_[0].startswith("i") for i in ix]
            nul = sorted(by.get((), []))
            if not (len(st["variants"]) == 5 and len(look) == 1 and len(pay) == 1 and len(chars) == 1 and len(nul) == 2):
                raise AnchorMissing("DecodeState: variants %r cannot be identified" % sorted(self.variants))
            self.variants = {"LookingForMessageStart": look[0], "ParsingEscPayload": pay[0], "ParsingEscChars": chars[0],
                             "ParsingNormal": nul[0], "Done": nul[1]}
        self.v_look = self.variants["LookingForMessageStart"]
        self.v_done = self.variants["Done"]
        self.v_normal = self.variants["ParsingNormal"]
        self.v_payload = self.variants["ParsingEscPayload"]
        lf = st["variants"][self.v_look]["fields"]
        self.look_fields = [f["name"] for f in lf]
        # the two counters of the start search, wherever they live inside the variant's payload (directly, or inside a private
        # struct held by the variant): integer leaves with their access paths
        leaves = []

        def walk(fields, path, depth):
            for i, fl in enumerate(fields):
                t = fl["ty"]
                if t.get("k") == "int":
                    leaves.append((path + (i,), fl["name"], t.get("w", 0), t))
                elif t.get("k") == "adt" and depth < 3 and t["def"] in F.adts and F.adts[t["def"]]["kind"] == "struct":
                    walk(F.adts[t["def"]]["variants"][0]["fields"], path + (i,), depth + 1)
        walk(lf, (), 0)
        byname = {nm: (pth, t) for pth, nm, w, t in leaves}
        if "num_discarded_bytes" in byname and "num_init_seq_bytes" in byname:
            self.p_disc, self.p_init = byname["num_discarded_bytes"][0], byname["num_init_seq_bytes"][0]
        else:
            # renamed: the noise counter is the wider of the two integers
            if len(leaves) != 2 or leaves[0][2] == leaves[1][2]:
                raise AnchorMissing("fields of the start-search state cannot be identified")
            wide = 0 if leaves[0][2] > leaves[1][2] else 1
            self.p_disc, self.p_init = leaves[wide][0], leaves[1 - wide][0]
        self.disc_ty = [t for pth, nm, w, t in leaves if pth == self.p_disc][0]
        pfl = st["variants"][self.v_payload]["fields"]
        pf = [f["name"] for f in pfl]
        if "step" in pf and "payload" in pf:
            self.i_step = pf.index("step")
            self.i_payload = pf.index("payload")
        else:
            arr = [i for i, f in enumerate(pfl) if f["ty"].get("k") == "array"]
            if len(pfl) != 2 or len(arr) != 1:
                raise AnchorMissing("fields of the escape-payload state cannot be identified")
            self.i_payload = arr[0]
            self.i_step = 1 - arr[0]
        err = F.adts[ERR]
        self.err_variants = {v["name"]: v["idx"] for v in err["variants"]}
        self.push = self.method("push_byte")
        self.reset = self.method("reset")
        self.finalize = self.method("finalize")
        self.default = F.bodies.get("<%s as std::default::Default>::default" % NOD)
        if self.default is None:
            raise AnchorMissing("Default for the decoder core not found")

    def method(self, name):
        r = [b for b in self.F.bodies.values() if b.get("name") == name and (b.get("impl_self_ty") or {}).get("def") == NOD
             and b["kind"] != "Closure"]
        if len(r) != 1:
            raise AnchorMissing("NonOwningDecoder::%s: %d bodies" % (name, len(r)))
        return r[0]

    @staticmethod
    def _at(pay, path):
        v = pay[path[0]]
        for i in path[1:]:
            v = v.elems[i]
        return v

    def look_init(self, pay):
        """matcher position (number of start-sequence bytes matched) in the payload of the start-search variant"""
        return self._at(pay, self.p_init)

    def look_disc(self, pay):
        """noise counter in the payload of the start-search variant"""
        return self._at(pay, self.p_disc)

    def variant_of(self, st, obj):
        return st.const_of(obj.elems[self.i_state].disc)


def default_object(A, anchors):
    outs = A.run_fn(anchors.default)
    if len(outs) != 1:
        raise AnchorMissing("Default::default of the decoder core has %d outcomes" % len(outs))
    return outs[0][0], outs[0][1]


def is_fresh(st, obj, dst, dobj, anchors, why=None):
    """obj equals the Default object field by field (the CRC field is compared separately: see R-C14-CRC-DEAD)"""
    ok = True
    for i, (a, d) in enumerate(zip(obj.elems, dobj.elems)):
        if i == anchors.i_crc:
            continue
        if not same_value(st, a, dst, d):
            ok = False
            if why is not None:
                why.append("field %s: %r vs default %r" % (anchors.fields[i]["name"], a, d))
    return ok


def same_value(st, a, dst, d):
    if isinstance(a, VInt) and isinstance(d, VInt):
        c = dst.const_of(d.lin)
        return c is not None and st.const_of(a.lin) == c
    if isinstance(a, VEnum) and isinstance(d, VEnum):
        ca, cd = st.const_of(a.disc), dst.const_of(d.disc)
        if ca is None or ca != cd:
            return False
        return all(same_value(st, x, dst, y) for x, y in zip(a.pay.get(ca, ()), d.pay.get(cd, ())))
    if isinstance(a, (VAgg, VArr)) and type(a) is type(d) and len(a.elems) == len(d.elems):
        return all(same_value(st, x, dst, y) for x, y in zip(a.elems, d.elems))
    return a == d


def classify_push(ip, st, ret, anchors):
    """[(state, label)] for the Result<bool, DecodeErr> returned by push_byte; label: Ok(true) / Ok(false) / Err(<variant>)"""
    out = []
    inv = {v: k for k, v in anchors.err_variants.items()}
    for s2, var, pay in split_enum(ip, st, ret, "push_byte result"):
        if var == 0:
            b = pay[0]
            if isinstance(b, VBool) and b.e[0] == "c":
                out.append((s2, "Ok(true)" if b.e[1] else "Ok(false)"))
            else:
                for s3 in ip.branch(s2, b.e, True):
                    out.append((s3, "Ok(true)"))
                for s3 in ip.branch(s2, b.e, False):
                    out.append((s3, "Ok(false)"))
        else:
            for s3, v2, _p in split_enum(ip, s2, pay[0], "DecodeErr"):
                out.append((s3, "Err(%s)" % inv.get(v2, v2)))
    return out


def err_payload(ip, st, ret):
    """payload tuple of the DecodeErr inside Err(..) (state must have a constant variant)"""
    e = ret.pay[1][0]
    c = st.const_of(e.disc)
    return e.pay.get(c, ())


def zc_of(an, obj):
    """the withheld-zero counter of a decoder value (looking through a single-field wrapper type around the integer)"""
    v = obj.elems[an.i_zc]
    d = 0
    while isinstance(v, VAgg) and len(v.elems) == 1 and d < 3:
        v = v.elems[0]
        d += 1
    if not isinstance(v, VInt):
        raise AnchorMissing("the withheld-zero counter is not an integer (%r)" % (v,))
    return v


def cases(A, body, ghost=None, tname=NOD):
    """run a decoder-core method from every partition of the object invariant.
    yields dicts {key, obj0, st, obj, ret, args, root}; st.ghost starts with `ghost` + 'dec-self'/'dec-part'"""
    inv = A.invariant(tname)
    out = []
    for key, S in sorted(inv.parts.items(), key=lambda kv: str(kv[0])):
        st = A.ip.new_state()
        obj0 = A.import_partition(st, S)
        root = A.ip.new_oid("self")
        st.mem[root] = obj0
        st.ghost["dec-self"] = root
        st.ghost["dec-part"] = key
        for k, v in (ghost or {}).items():
            st.ghost[k] = v
        a0 = body["locals"][1]["ty"]
        for (s2, rv, args) in A.run_fn(body, st0=st, first_arg=VRef(root, (), a0.get("mut", False))):
            out.append({"key": key, "obj0": obj0, "st": s2, "obj": s2.mem.get(root), "ret": rv, "args": args, "root": root})
    return out


def slice_consts(ip, st, sl):
    """constant byte values of a slice, or None if some element is not a constant"""
    n = st.const_of(sl.n)
    if n is None or n > 64:
        return None
    out = []
    for i in range(n):
        try:
            v = ip.read_raw(st, sl.root, sl.steps + (("ix", sl.start + i),))
        except Unsupported:
            return None
        c = st.const_of(v.lin) if isinstance(v, VInt) else None
        out.append(c if c is not None else ("sym", v.lin if isinstance(v, VInt) else None))
    return out


def install_crc_tracking(ip, an):
    """ghost log of what has been fed to the decoder's own CRC field since it was last re-initialised:
    st.ghost['crc-feed'] = tuple of per-update byte lists (constants or ('sym', Lin)); None until an init is seen"""
    if getattr(ip, "_crc_tracking_installed", False):
        return          # one set of hooks per interpreter (several rule modules may share the analysis)
    ip._crc_tracking_installed = True

    def is_self_crc(st, ref):
        root = st.ghost.get("dec-self")
        return isinstance(ref, VRef) and root is not None and ref.root == root and ref.steps[:1] == (("f", an.i_crc),)

    def on_assign(ip_, frame, bb, stmt, st, val):
        root = st.ghost.get("dec-self")
        if root is None:
            return
        p = stmt["place"]
        if not p["proj"] or p["proj"][-1].get("k") != "field":
            return
        try:
            a = ip_.resolve(frame, p, st)
        except Unsupported:
            return
        if a.root == root and a.steps == (("f", an.i_crc),):
            from ..vra.stdsum import crc_log_of
            lg = crc_log_of(ip_, val) if isinstance(val, VOpq) else None
            if isinstance(val, VOpq) and val.tag == "crc-digest-fresh":
                st.ghost["crc-feed"] = ()
            elif lg is not None:
                st.ghost["crc-feed"] = lg       # a digest created and fed elsewhere (a helper) before it is stored in the field
            else:
                st.ghost["crc-feed"] = None

    def on_crc(ip_, frame, bb, st, what, ref, x):
        if what == "update" and is_self_crc(st, ref):
            cur = st.ghost.get("crc-feed")
            if cur is not None:
                st.ghost["crc-feed"] = cur + (tuple(slice_consts(ip_, st, x) or ["?"]),)
    ip.on_assign.append(on_assign)
    ip.on_crc.append(on_crc)


def local_by_name(body, name):
    r = [d["place"]["local"] for d in body["debug"] if d["name"] == name and not d["place"]["proj"]]
    if not r:
        raise AnchorMissing("local `%s` not found in %s" % (name, body["def"]))
    return r


def frame_analysis(A, an):
    """Analyse push_byte from every partition with ghost instrumentation of the decoder's CRC feed, the
    end-sequence gate and the zero flush.  Returns (outcomes, gates):
      outcomes: [{key, label, st, obj0, obj, dfed (Lin), feeds, root, ret}]
      gates:    [{...facts evaluated at the instant `state = Done` is executed...}]"""
    ip = A.ip
    push = an.push

    def self_root(st):
        return st.ghost.get("dec-self")

    def is_self_crc(st, ref):
        root = self_root(st)
        return isinstance(ref, VRef) and root is not None and ref.root == root and ref.steps[:1] == (("f", an.i_crc),)

    def push_frame(ip_, st):
        return st.ghost.get("fa-push-frame")

    def on_call(ip_, frame, bb, t, st, callee, args):
        if self_root(st) is None or not st.ghost.get("fa-on"):
            return
        r = callee.get("resolved") or callee
        d = r["def"]
        if frame.body is push and "fa-push-frame" not in st.ghost:
            st.ghost["fa-push-frame"] = frame.fid
        if d == "core::num::<impl u16>::from_le_bytes":
            arr = args[0]
            st.ghost["fa-read-args"] = tuple(e.lin for e in arr.elems) if isinstance(arr, VArr) else None
        if d in ("std::mem::swap", "std::mem::replace", "std::mem::take"):
            if any(is_self_crc(st, a) for a in args):
                st.ghost["fa-swapped"] = True
        if d == an.F.bodies and False:
            pass
        if callee.get("trait") == "util::Buffer" and callee.get("method") == "clear":
            st.ghost["fa-cleared-at"] = len(st.ghost.get("fa-pushed", ()))
        if callee.get("trait") == "util::Buffer" and callee.get("method") == "push":
            st.ghost["fa-bufpush"] = st.ghost.get("fa-bufpush", 0) + 1
            b = args[1]
            if isinstance(b, VInt):
                st.ghost["fa-pushed"] = st.ghost.get("fa-pushed", ()) + (b.lin,)

    def on_return_val(ip_, frame, bb, t, st, callee, args):
        pass

    def on_crc(ip_, frame, bb, st, what, ref, x):
        if self_root(st) is None or not st.ghost.get("fa-on"):
            return
        if what == "update":
            if is_self_crc(st, ref):
                st.ghost["fa-dfed"] = st.ghost.get("fa-dfed", Lin.const(0)) + x.n
                st.ghost["fa-feeds"] = st.ghost.get("fa-feeds", ()) + (tuple(slice_consts(ip_, st, x) or ["?"]),)
            else:
                st.ghost["fa-foreign-update"] = True
        elif what == "finalize":
            tag = ref.tag if isinstance(ref, VOpq) else None
            st.ghost["fa-calc"] = x.lin
            st.ghost["fa-final-tag"] = tag
            st.ghost["fa-dfed-at-final"] = st.ghost.get("fa-dfed", Lin.const(0))

    def on_assign(ip_, frame, bb, stmt, st, val):
        root = self_root(st)
        if root is None or not st.ghost.get("fa-on"):
            return
        rv = stmt["rv"]
        if rv["k"] == "use" and rv["op"].get("k") == "const":
            pass
        if isinstance(val, VInt) and stmt["rv"]["k"] != "use":
            pass
        # result of from_le_bytes lands in a local via the call terminator, not an assign; the read value is
        # recovered at the gate from the recorded argument bytes (little endian)
        if isinstance(val, VOpq) and val.tag == "crc-digest-fed":
            # a digest that was created and fed before being stored into the decoder's CRC field counts as fed to it
            from ..vra.stdsum import crc_log_of
            lg = crc_log_of(ip_, val)
            p_ = stmt["place"]
            if lg and p_["proj"] and p_["proj"][-1].get("k") == "field":
                try:
                    a_ = ip_.resolve(frame, p_, st)
                except Unsupported:
                    a_ = None
                if a_ is not None and a_.root == root and a_.steps == (("f", an.i_crc),):
                    st.ghost["fa-feeds"] = st.ghost.get("fa-feeds", ()) + tuple(lg)
                    st.ghost["fa-dfed"] = st.ghost.get("fa-dfed", Lin.const(0)) + sum(len(u) for u in lg)
            return
        if not (isinstance(val, VEnum) and val.defn == STATE):
            return
        if st.const_of(val.disc) != an.v_done:
            return
        p = stmt["place"]
        try:
            a = ip_.resolve(frame, p, st)
        except Unsupported:
            return
        if not (a.root == root and a.steps == (("f", an.i_state),)):
            return
        obj = st.mem[root]
        g = {"kind": "gate", "part": st.ghost.get("dec-part"), "fn": frame.body["def"],
             "line": stmt["span"]["line"]}
        rd = st.ghost.get("fa-read-args")
        # the escape payload of this step: the three bytes collected in the entry state and the byte being pushed
        p0, bnow = st.ghost.get("dec-payload0"), st.ghost.get("dec-b")
        pl = (p0[0], p0[1], p0[2], bnow) if p0 is not None and bnow is not None else None
        calc = st.ghost.get("fa-calc")
        zc0 = st.ghost.get("dec-zc0")
        raw = obj.elems[an.i_raw].lin
        g["have"] = {"read": rd is not None, "payload": pl is not None, "calc": calc is not None}
        g["crc_eq"] = bool(rd and calc is not None and len(rd) == 2 and st.prove_eq0(rd[0] + rd[1].scale(256) - calc))
        g["crc_bytes"] = bool(rd and pl and len(rd) == 2 and rd[0] == pl[2] and rd[1] == pl[3])
        g["crc_digest"] = st.ghost.get("fa-final-tag") == "crc-digest-fed" and st.ghost.get("fa-swapped") is True
        from ..vra.cong import congruent0
        al = congruent0(ip_, st, raw, 4)
        g["aligned"] = al
        g["pad_le_3"] = bool(pl and st.prove_ge0(Lin.const(3) - pl[1]))
        g["pad_le_zeros"] = bool(pl and zc0 is not None and st.prove_ge0(zc0 - pl[1]))
        g["endmark"] = bool(pl and st.const_of(pl[0]) == 0x1a)
        step0 = st.ghost.get("dec-step0")
        g["step3"] = step0 is not None and st.const_of(step0) == 3
        g["flushed_zeros"] = st.ghost.get("fa-pushed")
        g["pushed_all_zero"] = all(st.const_of(x) == 0 for x in st.ghost.get("fa-pushed", ()))
        g["n_pushed"] = len(st.ghost.get("fa-pushed", ()))
        g["n_pushed_eq"] = bool(pl and zc0 is not None and st.prove_eq0(Lin.const(len(st.ghost.get("fa-pushed", ()))) - (zc0 - pl[1])))
        g["flush_zc"] = g["n_pushed_eq"]
        g["dfed_at_final"] = repr(st.ghost.get("fa-dfed-at-final"))
        g["dfed_at_final_is_2"] = st.ghost.get("fa-dfed-at-final") == Lin.const(2)
        g["zc_after"] = 0 if st.prove_eq0(zc_of(an, obj).lin) else st.const_of(zc_of(an, obj).lin)
        g["no_unproved_checks"] = not st.ghost.get("unproved-asserts")
        g["unproved"] = st.ghost.get("unproved-asserts")
        ip_.observe(g)

    b_locals = [i for i in range(1, push["arg_count"] + 1) if push["locals"][i]["ty"].get("k") == "int" and push["locals"][i]["ty"].get("w") == 8]
    if len(b_locals) != 1:
        raise AnchorMissing("push_byte: byte argument")

    def on_block(ip_, frame, bb, st):
        if bb == 0 and frame.body is push and st.ghost.get("fa-on") and "dec-b" not in st.ghost:
            v = st.mem.get(("L", frame.fid, b_locals[0]))
            if isinstance(v, VInt):
                st.ghost["dec-b"] = v.lin

    def on_res(ip_, frame, bb, t, callee, args, outs_):
        # Buffer::extend_from_slice(slice) = one push per element: the outcomes are split by the (small) length of the slice and
        # every element is logged like a pushed byte; a slice of unbounded length is logged as one unknown byte (rules fail closed)
        if not (callee.get("trait") == "util::Buffer" and callee.get("method") == "extend_from_slice"):
            return
        from ..vra.stdsum import as_slice, slice_elem
        new = []
        for (s2, v) in outs_:
            if self_root(s2) is None or not s2.ghost.get("fa-on"):
                new.append((s2, v))
                continue
            try:
                sl = as_slice(ip_, s2, args[1])
            except Unsupported:
                sl = None
            lo, hi = s2.interval(sl.n) if sl is not None else (None, None)
            if sl is None or lo is None or hi is None or hi - lo > 8 or hi > 16:
                s2.ghost["fa-pushed"] = s2.ghost.get("fa-pushed", ()) + (ip_.fresh_int(s2, 8, False, "bytes of a slice of unknown length").lin,)
                s2.ghost["fa-bufpush"] = s2.ghost.get("fa-bufpush", 0) + 1
                new.append((s2, v))
                continue
            for n in range(max(lo, 0), hi + 1):
                s3 = s2 if lo == hi else s2.copy()
                try:
                    s3.assume_eq0(sl.n - n)
                except Infeasible:
                    continue
                lins = []
                for i in range(n):
                    e = slice_elem(ip_, s3, sl, Lin.const(i))
                    lins.append(e.lin if isinstance(e, VInt) else ip_.fresh_int(s3, 8, False, "slice element").lin)
                s3.ghost["fa-pushed"] = s3.ghost.get("fa-pushed", ()) + tuple(lins)
                s3.ghost["fa-bufpush"] = s3.ghost.get("fa-bufpush", 0) + n
                new.append((s3, v))
        outs_[:] = new

    ip.on_call.append(on_call)
    ip.on_call_result.append(on_res)
    ip.on_crc.append(on_crc)
    ip.on_assign.append(on_assign)
    ip.on_block.append(on_block)
    outs = []
    old_thr = ip.join_threshold
    try:
        inv = A.invariant(NOD)
        ip.join_threshold = 10 ** 9       # fully path-sensitive: the ghost logs are per path
        for key, S in sorted(inv.parts.items(), key=lambda kv: str(kv[0])):
            st = ip.new_state()
            obj0 = A.import_partition(st, S)
            root = ip.new_oid("self")
            st.mem[root] = obj0
            st.ghost["dec-self"] = root
            st.ghost["dec-part"] = key
            st.ghost["fa-on"] = True
            st.ghost["dec-zc0"] = zc_of(an, obj0).lin
            starts = [st]
            if key == an.v_payload:
                step = obj0.elems[an.i_state].pay[an.v_payload][an.i_step].lin
                st.ghost["dec-step0"] = step
                pl0 = obj0.elems[an.i_state].pay[an.v_payload][an.i_payload]
                if isinstance(pl0, VArr) and len(pl0.elems) == 4:
                    st.ghost["dec-payload0"] = tuple(e.lin for e in pl0.elems)
                # one run per value of the escape-payload index: the store payload[step] = b is then exact
                lo, hi = st.interval(step)
                if lo is not None and hi is not None and 0 < hi - lo <= 16:
                    starts = []
                    for k in range(lo, hi + 1):
                        sk = st.copy()
                        try:
                            sk.assume_eq0(step - k)
                        except Infeasible:
                            continue
                        starts.append(sk)
            for (s1, rv, args) in [r for s_ in starts for r in A.run_fn(push, st0=s_, first_arg=VRef(root, (), True))]:
                for s2, label in classify_push(ip, s1, rv, an):
                    outs.append({"key": key, "label": label, "st": s2, "obj0": obj0, "obj": s2.mem[root], "root": root, "ret": rv,
                                 "args": args, "dfed": s2.ghost.get("fa-dfed", Lin.const(0)), "feeds": s2.ghost.get("fa-feeds", ()),
                                 "bufpush": s2.ghost.get("fa-bufpush", 0), "pushed": s2.ghost.get("fa-pushed", ()), "cleared_at": s2.ghost.get("fa-cleared-at"),
                                 "write_failed": s2.ghost.get("buf-write-failed", 0)})
    finally:
        ip.join_threshold = old_thr
        ip.on_call.remove(on_call)
        ip.on_call_result.remove(on_res)
        ip.on_crc.remove(on_crc)
        ip.on_assign.remove(on_assign)
        ip.on_block.remove(on_block)
    gates = A.observations("gate")
    return outs, gates


def pending_of(A, an, st, obj):
    """Observer for 'the number of bytes consumed since the last boundary and not yet reported': by definition the value reset()
    would return if it were called on decoder value `obj` in state `st` (representation-independent: which fields hold the count
    in which state is the decoder's business).  Returns [(state extending st, Lin)]; the probe's obligations are discarded."""
    ip = A.ip
    s0 = st.copy()
    root = ip.new_oid("pending-probe")
    s0.mem[root] = obj
    for k in list(s0.ghost):
        if isinstance(k, str) and (k.startswith("c14-") or k.startswith("dec-")):
            s0.ghost.pop(k, None)
    mark = len(ip.log)
    hooks = (ip.on_call, ip.on_call_result, ip.on_assign, ip.on_crc, ip.on_block)
    saved = [list(h) for h in hooks]
    for h in hooks:
        del h[:]
    try:
        outs = A.run_fn(an.reset, st0=s0, first_arg=VRef(root, (), True))
    finally:
        for h, sv in zip(hooks, saved):
            h[:] = sv
        del ip.log[mark:]
    res = []
    for (s, rv, _args) in outs:
        if not isinstance(rv, VInt):
            raise Unsupported("reset() does not return an integer")
        res.append((s, rv.lin))
    if not res:
        raise Unsupported("reset() has no outcome from this state")
    return res


def pending_holds(A, an, st, obj, pred):
    """pred(state, pending) holds for every outcome of the observer"""
    return all(pred(s, p) for s, p in pending_of(A, an, st, obj))


def pending_lin(A, an, st, obj):
    """the observer's value as one expression over st's symbols (it must not depend on a case split the state leaves open)"""
    outs = pending_of(A, an, st, obj)
    lins = {p for _s, p in outs}
    if len(lins) != 1:
        raise Unsupported("pending-byte observer (reset's return value) is not a single expression here: %r" % (sorted(map(repr, lins))[:4],))
    return outs[0][1]


def check_final_reset(ctx, A, F, an, rid):
    """finalize() and reset() report the same pending-byte count from every state: finalize returns
    Some(DiscardedBytes(n)) with n = the consumed-byte counter exactly when something is pending, None otherwise;
    reset returns that counter (0 after a delivered frame).  Shared by C10, C11, C15 and C17: the reader front-ends
    report reset()'s value at end of input, the iterator front-ends finalize()'s."""
    ip = A.ip
    where = lambda b: (b["span"]["file"], b["span"]["line"], b["def"])
    def lossy(st, lin):
        for s in lin.syms():
            d = ip.tab.defn(s)
            if d and d[0] in ("trunc", "wrap", "shl_trunc"):
                return True
        return False
    # "pending" is observed through reset() itself (pending_of): what finalize reports must be that value, and the observer must
    # be 0 for a new decoder and after reset / finalize (with R-C17-CONSERVE: + 1 per consumed byte, - what is reported)
    def pend_str(st, obj):
        try:
            return ", ".join(s.describe(p) for s, p in pending_of(A, an, st, obj))
        except Unsupported as e:
            return "? (%s)" % e
    for c in cases(A, an.finalize):
        for s2, var, pay in split_enum(ip, c["st"], c["ret"], "finalize"):
            ctx.count(rid)
            if var == 0:
                ok = pending_holds(A, an, s2, c["obj0"], lambda s, p: s.prove_eq0(p))
                msg = "finalize returns None although bytes may be pending (reset would report %s)" % pend_str(s2, c["obj0"])
            else:
                e = pay[0]
                ev = s2.const_of(e.disc)
                n = e.pay.get(ev, ())
                ok = ev == an.err_variants.get("DiscardedBytes") and len(n) == 1 and not lossy(s2, n[0].lin) and \
                    pending_holds(A, an, s2, c["obj0"], lambda s, p: s.prove_eq0(n[0].lin - p) and s.prove_ge0(p - 1) and not lossy(s, p))
                msg = "finalize must report exactly the pending count (what reset would report: %s), and only when something is pending" % pend_str(s2, c["obj0"])
            ctx.oblig(ok)
            if not ok:
                ctx.violation(rid, "finalize|partition=%s|%s" % (c["key"], "None" if var == 0 else "Some"), where(an.finalize),
                              "finalize() from state #%s: %s" % (c["key"], msg))
            ok = pending_holds(A, an, s2, c["obj"], lambda s, p: s.prove_eq0(p))
            ctx.oblig(ok)
            if not ok:
                ctx.violation(rid, "finalize-post|partition=%s" % (c["key"],), where(an.finalize),
                              "after finalize() from state #%s bytes are still pending (reset would report %s)" % (c["key"], pend_str(s2, c["obj"])))
    for c in cases(A, an.reset):
        ctx.count(rid)
        ok = isinstance(c["ret"], VInt) and not lossy(c["st"], c["ret"].lin) and pending_holds(A, an, c["st"], c["obj"], lambda s, p: s.prove_eq0(p))
        ctx.oblig(ok)
        if not ok:
            ctx.violation(rid, "reset|partition=%s" % (c["key"],), where(an.reset),
                          "reset() from state #%s: its count must be exact (no truncating intermediate) and nothing may be pending afterwards "
                          "(a second reset would report %s)" % (c["key"], pend_str(c["st"], c["obj"])))
    # a new decoder has nothing pending
    for cname in TYPESTATE[NOD]["ctors"]:
        cb = F.bodies.get(cname)
        if cb is None:
            continue
        for (s1, v, _a) in A.run_fn(cb):
            ctx.count(rid)
            ok = pending_holds(A, an, s1, v, lambda s, p: s.prove_eq0(p))
            ctx.oblig(ok)
            if not ok:
                ctx.violation(rid, "new", where(cb), "a newly constructed decoder already has pending bytes (reset would report %s)" % pend_str(s1, v))

"""Thorough tier: sensitivity of a check on the *current* tree.  Every seeded change under /verif/seeded that lists the
property (must be reported) and every behaviour-preserving probe (must stay silent) is applied to a scratch copy of /repo's
working tree and the quick check is run against that copy.  The outcome is evidence about the checker, not about /repo:
it never changes the exit status and nothing is written to /verif/evidence or /verif/replay by the inner runs."""
import json
import os
import shutil
import subprocess
import sys
import tempfile
from concurrent.futures import ThreadPoolExecutor

from .build import REPO, VERIF


_T0 = [None]
BUDGET = float(os.environ.get("VERIF_SENS_BUDGET", "3600"))     # seconds per property; a safety net, not a sampling device


def _one(prop, name, patch, expect):
    import time
    if _T0[0] is not None and time.time() - _T0[0] > BUDGET:
        return {"seed": name, "expected_exit": expect, "status": "skipped: time budget of %ds for the sensitivity replay exhausted" % BUDGET}
    tmp = tempfile.mkdtemp(prefix="verif-sens-")
    try:
        dst = os.path.join(tmp, "repo")
        shutil.copytree(REPO, dst, ignore=shutil.ignore_patterns("target", ".git"), symlinks=True)
        r = subprocess.run(["git", "apply", patch], cwd=dst, stdout=subprocess.PIPE, stderr=subprocess.STDOUT, text=True)
        if r.returncode != 0:
            return {"seed": name, "expected_exit": expect, "status": "not applicable to this tree (patch does not apply)"}
        env = dict(os.environ, VERIF_REPO=dst, VERIF_DRYRUN="1", VERIF_TIER="quick")
        r = subprocess.run([sys.executable, "-m", "sa.cli", prop, "--tier", "quick"], cwd=VERIF, env=env,
                           stdout=subprocess.PIPE, stderr=subprocess.STDOUT, text=True)
        rules = sorted({ln.split("[", 1)[1].split("]", 1)[0] for ln in r.stdout.splitlines() if ln.startswith("  ") and "[" in ln and "]" in ln
                        and not ln.startswith("  rule ")})
        return {"seed": name, "expected_exit": expect, "exit": r.returncode, "as_expected": r.returncode == expect, "rules_reporting": rules[:12]}
    finally:
        shutil.rmtree(tmp, ignore_errors=True)


def run(prop, workers=6):
    root = os.path.join(VERIF, "seeded")
    jobs = []
    for name in sorted(os.listdir(root)):
        d = os.path.join(root, name)
        patch = os.path.join(d, "patch.diff")
        if not os.path.isfile(patch) or name.startswith("limit-"):
            continue
        if name.startswith("equiv-"):
            jobs.append((name, patch, 0))
            continue
        try:
            m = json.load(open(os.path.join(d, "meta.json")))
        except Exception:
            continue
        by = m.get("checks_that_report_it") or m.get("confirmed_by_me", {}).get("checks_that_report_it") or []
        if prop in by:
            jobs.append((name, patch, 1))
    import time
    _T0[0] = time.time()
    with ThreadPoolExecutor(max_workers=workers) as ex:
        res = list(ex.map(lambda j: _one(prop, *j), jobs))
    ran = [r for r in res if "exit" in r]
    return {
        "what": "seeded changes listing this property must make the quick check exit 1; behaviour-preserving probes must leave it at exit 0 "
                "(each applied to a scratch copy of /repo's current working tree)",
        "mutants_reported": "%d/%d" % (sum(1 for r in ran if r["expected_exit"] == 1 and r["as_expected"]), sum(1 for r in ran if r["expected_exit"] == 1)),
        "probes_silent": "%d/%d" % (sum(1 for r in ran if r["expected_exit"] == 0 and r["as_expected"]), sum(1 for r in ran if r["expected_exit"] == 0)),
        "not_applicable": [r["seed"] for r in res if "exit" not in r and not str(r.get("status", "")).startswith("skipped")],
        "skipped_for_time": [r["seed"] for r in res if str(r.get("status", "")).startswith("skipped")],
        "unexpected": [r for r in ran if not r["as_expected"]],
        "details": [{k: r[k] for k in ("seed", "expected_exit", "exit", "rules_reporting") if k in r} for r in ran],
    }

"""Analysis driver: typestate configuration of the crate, argument construction under object
invariants, root analysis and obligation aggregation."""
import itertools
import time

from .lin import Lin
from .vra.interp import Interp, Unsupported
from .vra.values import *
from .vra import typestate as TS
from .vra.types import ty_str, subst, ty_args
from .vra.state import State

# Stateful private-field types and how their invariant is partitioned.  Field / method names are
# private anchors taken by name (DESIGN 2.5): if one is missing the check fails closed.
TYPESTATE = {
    "transport::decode::NonOwningDecoder": {
        "partition": ("enum", "state"),
        "ctors": ["<transport::decode::NonOwningDecoder as std::default::Default>::default"],
    },
    "transport::encode::Encoder": {
        "partition": ("enum", "state"),
        "ctors": ["transport::encode::Encoder::<I>::new"],
    },
    "parser::streaming::Parser": {
        "partition": ("intclass", "pending_list_entries", [0, 1, 2, 3]),
        "ctors": ["parser::streaming::Parser::<'i>::new"],
    },
    "util::ArrayBuf": {
        "partition": ("single",),
        "ctors": ["<util::ArrayBuf<N> as std::default::Default>::default"],
    },
    "util::SliceByteSource": {
        "partition": ("single",),
        "ctors": ["util::SliceByteSource::<'i>::new"],
    },
}


class AnchorMissing(Exception):
    pass


# kind of the private fields the rules are anchored on (used only when a field of that name no longer exists)
FIELD_KIND = {
    "raw_msg_len": ("int", 64), "zero_cache": ("int", 8), "state": ("enum",), "padding": ("struct",),
    "pending_list_entries": ("int",), "buffer": ("array",), "num_elements": ("int",), "idx": ("int",),
}


def field_index(facts, adt_def, name, variant=0):
    adt = facts.adts.get(adt_def)
    if adt is None:
        raise AnchorMissing("type %s not found" % adt_def)
    fields = adt["variants"][variant]["fields"]
    for i, fl in enumerate(fields):
        if fl["name"] == name:
            return i
    # the field was renamed: fall back to the only field of the kind this anchor is known to have
    hint = FIELD_KIND.get(name)
    if hint is not None:
        def is_kind(t):
            k = t.get("k")
            if hint[0] == "int":
                return k == "int" and (len(hint) == 1 or t.get("w") == hint[1])
            if hint[0] == "array":
                return k == "array"
            if hint[0] in ("enum", "struct") and k == "adt":
                a2 = facts.adts.get(t["def"])
                if a2 is None:
                    return False
                return (len(a2["variants"]) > 1) == (hint[0] == "enum")
            return False
        cands = [i for i, fl in enumerate(fields) if is_kind(fl["ty"])]
        if len(cands) == 1:
            return cands[0]
    raise AnchorMissing("field %s.%s not found" % (adt_def, name))


def rename_value(v, sm, rm):
    """copy of v with symbols substituted (sm: sym -> Lin) and heap roots renamed (rm)"""
    if isinstance(v, VInt):
        return VInt(v.lin.subst(sm), v.w, v.sg)
    if isinstance(v, VBool):
        return VBool(_rename_bool(v.e, sm))
    if isinstance(v, VAgg):
        return VAgg(v.kind, v.defn, [rename_value(e, sm, rm) for e in v.elems])
    if isinstance(v, VClos):
        return VClos(v.defn, [rename_value(e, sm, rm) for e in v.elems], v.env)
    if isinstance(v, VEnum):
        return VEnum(v.defn, v.disc.subst(sm), {k: tuple(rename_value(e, sm, rm) for e in p) for k, p in v.pay.items()})
    if isinstance(v, VArr):
        return VArr([rename_value(e, sm, rm) for e in v.elems])
    if isinstance(v, VArrS):
        return VArrS(v.ety, v.n.subst(sm), rename_value(v.allv, sm, rm) if v.allv is not None else None)
    if isinstance(v, VRef):
        return VRef(rm.get(v.root, v.root), _rename_steps(v.steps, sm), v.mut)
    if isinstance(v, VSlice):
        return VSlice(rm.get(v.root, v.root), _rename_steps(v.steps, sm), v.start.subst(sm), v.n.subst(sm), v.mut)
    return v


def _rename_steps(steps, sm):
    return tuple(("ix", s[1].subst(sm)) if s[0] == "ix" else s for s in steps)


def _rename_bool(e, sm):
    k = e[0]
    if k == "cmp":
        return ("cmp", e[1], e[2].subst(sm), e[3].subst(sm))
    if k == "sym":
        r = sm.get(e[1])
        if r is not None:
            return ("sym", r.single()[0])
        return e
    if k == "not":
        return ("not", _rename_bool(e[1], sm))
    if k in ("and", "or"):
        return (k, _rename_bool(e[1], sm), _rename_bool(e[2], sm))
    return e


class Analysis:
    def __init__(self, facts, join_exits=None, log=None):
        self.f = facts
        self.ip = Interp(facts, join_exits)
        self.ip.ts = self
        self.ts_types = set(TYPESTATE)
        self.invs = {}
        self.inv_info = {}
        self._contains = {}
        self.logf = log
        self.growth = {}
        self.cur_ts = None
        self.t_inv = 0.0

    # ------------------------------------------------------------------ typestate plumbing
    def ts_methods(self, tname):
        """(interface methods, helper methods): bodies of inherent/trait impls of tname taking &mut self"""
        iface, helpers = [], []
        for n, b in self.f.bodies.items():
            st = b.get("impl_self_ty")
            if not st or st.get("k") != "adt" or st["def"] != tname:
                continue
            if b.get("auto_derived") or b["kind"] == "Closure" or b["arg_count"] == 0:
                continue
            a0 = b["locals"][1]["ty"]
            if not (a0.get("k") == "ref" and a0["mut"] and a0["to"].get("k") == "adt" and a0["to"]["def"] == tname):
                continue
            if b.get("impl_trait") or b["vis"] == "pub":
                iface.append(b)
            else:
                helpers.append(b)
        return iface, helpers

    def invariant(self, tname):
        if tname in self.invs:
            return self.invs[tname]
        cfg = TYPESTATE[tname]
        t0 = time.time()
        p = cfg["partition"]
        ip = self.ip
        if p[0] == "enum":
            fi = field_index(self.f, tname, p[1])
            keyfn = TS.enum_key_fn(ip, (("f", fi),))
        elif p[0] == "intclass":
            try:
                fi = field_index(self.f, tname, p[1])
                keyfn = TS.int_class_key_fn(ip, (("f", fi),), p[2])
            except AnchorMissing:
                # the countdown is no longer an integer field: if the object carries exactly one private enum instead,
                # partition by its variant (a re-encoding of the same states); otherwise fail closed
                adt = self.f.adts.get(tname)
                enums = [i for i, fl in enumerate(adt["variants"][0]["fields"]) if fl["ty"].get("k") == "adt"
                         and fl["ty"]["def"] in self.f.adts and len(self.f.adts[fl["ty"]["def"]]["variants"]) > 1] if adt else []
                if len(enums) != 1:
                    raise
                keyfn = TS.enum_key_fn(ip, (("f", enums[0]),))
        else:
            keyfn = TS.single_key_fn
        inv = TS.Invariant(ip, tname, keyfn)
        inv.round_hook = lambda: self.growth.pop(tname, None)    # what remains is the verdict of the last round (the final invariant)
        self.invs[tname] = inv   # (recursive uses see the partial invariant)
        iface, helpers = self.ts_methods(tname)
        if not iface:
            raise AnchorMissing("no interface methods found for " + tname)
        ctors = []
        for c in cfg["ctors"]:
            if c not in self.f.bodies:
                raise AnchorMissing("constructor %s not found" % c)
            ctors.append(self.ctor_runner(self.f.bodies[c]))
        runs = [self.method_runner(b, tname) for b in iface]
        rounds = TS.infer(ip, inv, ctors, runs, log=self.logf)
        self.inv_info[tname] = {
            "rounds": rounds, "partitions": inv.describe(),
            "interface": [b["def"] for b in iface], "helpers": [b["def"] for b in helpers],
            "seconds": round(time.time() - t0, 2),
        }
        self.t_inv += time.time() - t0
        return inv

    def ctor_runner(self, body):
        def run():
            return [(s, v) for (s, v, _a) in self.run_fn(body)]
        return run

    def method_runner(self, body, tname=None):
        def run(st, obj):
            root = self.ip.new_oid("self")
            st.mem[root] = obj
            res = []
            a0ty = body["locals"][1]["ty"]
            self_arg = VRef(root, (), a0ty.get("mut", False))
            pre_syms = TS.value_syms(st, [obj])
            bad = []
            for (s2, _v, _a) in self.run_fn(body, st0=st, first_arg=self_arg):
                res.append((s2, s2.mem[root]))
                bad.extend(self.growth_of(s2, s2.mem[root], pre_syms))
            # (overwritten in every round of the inference: what remains is the verdict on the final invariant)
            if bad:
                self.growth.setdefault(tname, []).append((body["def"], bad[:4]))
            return res
        return run

    def growth_of(self, st, obj, pre_syms, path=""):
        """64-bit unsigned leaves of a stateful object after a method call that are neither small (<= 2^32) nor `one leaf of the
        object before the call + at most 2^16` (side condition of the A3 bound on counters, join.COUNTER_MAX)"""
        out = []
        if isinstance(obj, VInt):
            if obj.w == 64 and not obj.sg:
                lo, hi = st.interval(obj.lin)
                if hi is not None and hi <= (1 << 48):
                    return out
                # bounded by a leaf of the object before the call (+ 2^16), or by a const generic parameter (a capacity)
                ok = False
                for x in sorted(pre_syms | set(self.ip.cparams.values())):
                    if st.prove_ge0(Lin.sym(x) + (1 << 16) - obj.lin):
                        ok = True
                        break
                if not ok:
                    out.append("%s = %s" % (path or "value", st.describe(obj.lin)))
            return out
        if isinstance(obj, VAgg):
            for i, e in enumerate(obj.elems):
                out.extend(self.growth_of(st, e, pre_syms, "%s.%d" % (path, i)))
        elif isinstance(obj, VEnum):
            for v, pay in obj.pay.items():
                for i, e in enumerate(pay):
                    out.extend(self.growth_of(st, e, pre_syms, "%s#%d.%d" % (path, v, i)))
        elif isinstance(obj, VArr):
            for i, e in enumerate(obj.elems[:8]):
                out.extend(self.growth_of(st, e, pre_syms, "%s[%d]" % (path, i)))
        return out

    def method_cases(self, tname, body, env=None):
        """run `body` (a method taking self: &mut/& T first) from every partition of T's invariant.
        returns [{key, obj0, st, obj, ret, args, root}] -- st is the post state (it still knows the entry symbols)"""
        inv = self.invariant(tname)
        out = []
        for key, S in sorted(inv.parts.items(), key=lambda kv: str(kv[0])):
            st = self.ip.new_state()
            obj0 = self.import_partition(st, S)
            root = self.ip.new_oid("self")
            st.mem[root] = obj0
            a0ty = body["locals"][1]["ty"]
            self_arg = VRef(root, (), a0ty.get("mut", False)) if a0ty.get("k") == "ref" else obj0
            for (s2, rv, args) in self.run_fn(body, env, st0=st, first_arg=self_arg):
                out.append({"key": key, "obj0": obj0, "st": s2, "obj": s2.mem.get(root), "ret": rv, "args": args, "root": root})
        return out

    # ------------------------------------------------------------------ argument construction
    def contains_ts(self, ty, depth=0):
        key = ty_str(ty)
        if key in self._contains:
            return self._contains[key]
        r = False
        k = ty.get("k")
        if depth > 6:
            r = False
        elif k == "adt":
            if ty["def"] in TYPESTATE:
                r = True
            elif ty["def"] in self.f.adts:
                adt = self.f.adts[ty["def"]]
                for vi, var in enumerate(adt["variants"]):
                    for ft in self.ip.adt_fields(ty, vi):
                        if self.contains_ts(ft, depth + 1):
                            r = True
            else:
                r = any(self.contains_ts(a, depth + 1) for a in ty_args(ty))
        elif k in ("ref", "ptr"):
            r = self.contains_ts(ty["to"], depth + 1)
        elif k in ("slice", "array"):
            r = self.contains_ts(ty["of"], depth + 1)
        elif k == "tuple":
            r = any(self.contains_ts(e, depth + 1) for e in ty["elems"])
        self._contains[key] = r
        return r

    def import_partition(self, st, S):
        """copy partition state S into st under fresh symbol / root names; returns the object value"""
        ip = self.ip
        cps = set(ip.cparams.values())
        syms = set(S.rng) | set(S.sets)
        for f in S.facts:
            syms.update(f.syms())
        syms |= TS.value_syms(S, [v for v in S.mem.values() if v is not None])
        sm = {}
        for s in sorted(syms):
            if s in cps:
                continue
            lo, hi = S.bounds(s)
            n = ip.tab.fresh(lo, hi, ip.tab.origin(s), ip.tab.defn(s))
            sm[s] = Lin.sym(n)
            if s in S.sets:
                st.sets[n] = S.sets[s]
        rm = {}
        for r in S.mem:
            if r != TS.INVROOT:
                rm[r] = ip.new_oid("inv-import")
        for s in cps:
            if s in S.rng:
                st.rng[s] = S.rng[s]
        for f in S.facts:
            st.facts.append(f.subst(sm))
        for d in S.neqs:
            st.neqs.append(d.subst(sm))
        for r, v in S.mem.items():
            if r != TS.INVROOT:
                st.mem[rm[r]] = rename_value(v, sm, rm) if v is not None else None
        return rename_value(S.mem[TS.INVROOT], sm, rm)

    def alternatives(self, st, ty, origin):
        """[(state, value)]: all ways to build an arbitrary well-formed value of type ty"""
        ip = self.ip
        if not self.contains_ts(ty):
            return [(st, ip.fresh_value(st, ty, origin))]
        k = ty.get("k")
        if k == "adt":
            d = ty["def"]
            if d in TYPESTATE:
                inv = self.invariant(d)
                out = []
                for key, S in sorted(inv.parts.items(), key=lambda kv: str(kv[0])):
                    s2 = st.copy()
                    out.append((s2, self.import_partition(s2, S)))
                return out
            if d in self.f.adts and self.f.adts[d]["kind"] == "struct":
                ftys = ip.adt_fields(ty, 0)
                names = [fl["name"] for fl in self.f.adts[d]["variants"][0]["fields"]]
                combos = [(st, [])]
                for ft, nm in zip(ftys, names):
                    nxt = []
                    for s, vals in combos:
                        for s2, v in self.alternatives(s, ft, origin + "." + nm):
                            nxt.append((s2, vals + [v]))
                    combos = nxt
                return [(s, VAgg("struct", d, vals)) for s, vals in combos]
            raise Unsupported("typestate type nested in " + ty_str(ty))
        if k == "ref":
            out = []
            for s2, v in self.alternatives(st, ty["to"], origin + ".*"):
                root = ip.new_oid("ref:" + origin)
                s2.mem[root] = v
                out.append((s2, VRef(root, (), ty["mut"])))
            return out
        raise Unsupported("typestate type nested in " + ty_str(ty))

    def run_fn(self, body, env=None, st0=None, first_arg=None):
        """analyse body for every combination of argument alternatives.
        returns [(post state, return value, args)]"""
        env = env or {}
        ip = self.ip
        st = st0 if st0 is not None else ip.new_state()
        combos = [(st, [first_arg] if first_arg is not None else [])]
        start = 1 if first_arg is not None else 0
        for i in range(start, body["arg_count"]):
            ty = subst(body["locals"][i + 1]["ty"], env)
            nm = [d["name"] for d in body["debug"] if d["place"]["local"] == i + 1 and not d["place"]["proj"]]
            nxt = []
            for s, vals in combos:
                for s2, v in self.alternatives(s.copy() if len(combos) > 1 else s, ty, "arg:" + (nm[0] if nm else str(i + 1))):
                    nxt.append((s2, vals + [v]))
            combos = nxt
        res = []
        for s, vals in combos:
            for s2, rv in ip.run_root(body, env, vals, s):
                res.append((s2, rv, vals))
        return res

    # ------------------------------------------------------------------ loop-head summarisation hook
    def ts_objects(self, ip, fr, st):
        """addresses (root, steps) of typestate-typed struct values reachable from the frame's locals"""
        found = []
        seen = set()

        def walk(v, root, steps, depth):
            if v is None or depth > 6:
                return
            if isinstance(v, VAgg):
                if v.kind == "struct" and v.defn in TYPESTATE and v.defn in self.invs:
                    found.append((root, steps, v))
                    return
                for i, e in enumerate(v.elems):
                    walk(e, root, steps + (("f", i),), depth + 1)
            elif isinstance(v, VRef):
                key = (v.root, v.steps)
                if key in seen or v.root not in st.mem:
                    return
                seen.add(key)
                try:
                    t = ip.read_raw(st, v.root, v.steps)
                except Unsupported:
                    return
                walk(t, v.root, v.steps, depth + 1)
        for i in range(len(fr.body["locals"])):
            root = ("L", fr.fid, i)
            v = st.mem.get(root)
            if v is not None:
                walk(v, root, (), 0)
        # dedupe by address
        out, s2 = [], set()
        for r, p, v in found:
            if (r, p) not in s2:
                s2.add((r, p))
                out.append((r, p, v))
        return out

    def split(self, ip, fr, st):
        """replace every stateful object by (a fresh instance of) its invariant partition; one state per
        feasible combination of partition keys"""
        objs = self.ts_objects(ip, fr, st)
        if not objs:
            return [st]
        states = [st]
        for root, steps, _v in objs:
            nxt = []
            for s in states:
                v = ip.read_raw(s, root, steps)
                inv = self.invs[v.defn]
                for key, s2 in inv.key_fn(s, v):
                    S = inv.parts.get(key)
                    if S is None:
                        # a state outside the inferred invariant would be an analysis bug: fail closed
                        raise Unsupported("object of %s in partition %r not covered by its invariant" % (v.defn, key))
                    s3 = s2.copy() if s2 is s else s2
                    nv = self.import_partition(s3, S)
                    ip.write_raw(s3, root, steps, nv)
                    nxt.append(s3)
            states = nxt
        return states

    def signature(self, ip, fr, st):
        sig = []
        for root, steps, v in self.ts_objects(ip, fr, st):
            inv = self.invs[v.defn]
            ks = inv.key_fn(st, v)
            sig.append((root, steps, ks[0][0] if len(ks) == 1 else "?"))
        return tuple(sig)

    # ------------------------------------------------------------------ obligations
    def obligations(self, since=0):
        """aggregate the interpreter log: one entry per (kind, fn, bb) with ok iff ok in every context"""
        agg = {}
        for r in self.ip.log[since:]:
            if r["t"] != "obl":
                continue
            k = (r["kind"], r["fn"], r["bb"], r["detail"] if r["kind"] in ("EXT", "UNSUPPORTED") else "")
            e = agg.get(k)
            if e is None:
                e = agg[k] = {"kind": r["kind"], "fn": r["fn"], "bb": r["bb"], "file": r["file"], "line": r["line"],
                              "contexts": 0, "failed": 0, "detail_fail": None, "detail_ok": None, "insts": set(),
                              "site": r.get("site", "")}
            e["contexts"] += 1
            if "r_hi" in r:
                rh = r["r_hi"]
                e["r_hi"] = None if (rh is None or e.get("r_hi", 0) is None) else max(e.get("r_hi", 0), rh)
                rl = r["r_lo"]
                e["r_lo"] = None if (rl is None or e.get("r_lo", 0) is None) else min(e.get("r_lo", 0), rl)
            e["insts"].add(r["inst"])
            if r["ok"]:
                if e["detail_ok"] is None:
                    e["detail_ok"] = r["detail"]
            else:
                e["failed"] += 1
                if e["detail_fail"] is None:
                    e["detail_fail"] = r["detail"]
        return list(agg.values())

    def observations(self, kind=None, since=0):
        return [r for r in self.ip.log[since:] if r["t"] == "obs" and (kind is None or r.get("kind") == kind)]

// mirfacts: a rustc_private driver that serialises the type-checked MIR of the local
// crate as structured JSON ("facts"), consumed by the Python analyses in /verif/sa.
//
// Usage (as RUSTC_WORKSPACE_WRAPPER): mirfacts <real rustc> <rustc args...>
//   env MIRFACTS_OUT   = directory to write <crate>.json into (required to dump)
//   env MIRFACTS_CRATES = comma separated crate names to dump (default: sml_rs)
#![feature(rustc_private)]
#![allow(rustc::internal)]

extern crate rustc_abi;
extern crate rustc_driver;
extern crate rustc_hir;
extern crate rustc_interface;
extern crate rustc_middle;
extern crate rustc_span;

use rustc_driver::Compilation;
use rustc_hir::def::DefKind;
use rustc_hir::def_id::{DefId, LOCAL_CRATE};
use rustc_interface::interface::Compiler;
use rustc_middle::mir::{
    self, AggregateKind, BinOp, BorrowKind, CastKind, ConstOperand, Operand, Place,
    ProjectionElem, Rvalue, StatementKind, TerminatorKind, UnOp,
};
use rustc_middle::ty::{self, GenericArgKind, Ty, TyCtxt, TypingEnv};
use rustc_span::Span;
use std::fmt::Write as _;

mod json;
use json::J;

struct Cb;

impl rustc_driver::Callbacks for Cb {
    fn after_analysis<'tcx>(&mut self, _c: &Compiler, tcx: TyCtxt<'tcx>) -> Compilation {
        let name = tcx.crate_name(LOCAL_CRATE).to_string();
        let wanted = std::env::var("MIRFACTS_CRATES").unwrap_or_else(|_| "sml_rs".to_string());
        if !wanted.split(',').any(|w| w == name) {
            return Compilation::Continue;
        }
        let Ok(out) = std::env::var("MIRFACTS_OUT") else {
            return Compilation::Continue;
        };
        // skip test / bin / example targets of the same crate name: only the lib (no --test)
        if tcx.sess.opts.test {
            return Compilation::Continue;
        }
        let j = dump_crate(tcx, &name);
        let mut s = String::new();
        j.write(&mut s);
        let path = format!("{}/{}.json", out, name);
        std::fs::write(&path, s).expect("mirfacts: cannot write facts");
        Compilation::Continue
    }
}

fn main() {
    let mut args: Vec<String> = std::env::args().collect();
    // RUSTC_WORKSPACE_WRAPPER passes the real rustc as argv[1]
    if args.len() > 1 && (args[1].ends_with("rustc") || args[1].contains("/rustc")) {
        args.remove(1);
    }
    let mut cb = Cb;
    rustc_driver::run_compiler(&args, &mut cb);
}

// ------------------------------------------------------------------------------------

fn span_json<'tcx>(tcx: TyCtxt<'tcx>, sp: Span) -> J {
    let sm = tcx.sess.source_map();
    let lo = sm.lookup_char_pos(sp.lo());
    let hi = sm.lookup_char_pos(sp.hi());
    let file = match &lo.file.name {
        rustc_span::FileName::Real(r) => {
            if let Some(p) = r.local_path() {
                p.to_string_lossy().to_string()
            } else {
                format!("{:?}", r)
            }
        }
        other => format!("{:?}", other),
    };
    let mut v = vec![
        ("file", J::s(&file)),
        ("line", J::i(lo.line as i128)),
        ("line_hi", J::i(hi.line as i128)),
        ("col", J::i(lo.col.0 as i128 + 1)),
        ("exp", J::b(sp.from_expansion())),
    ];
    if sp.from_expansion() {
        // where the outermost macro was invoked (e.g. the `panic!(..)` line in the crate)
        let cs = sp.source_callsite();
        let clo = sm.lookup_char_pos(cs.lo());
        let cfile = match &clo.file.name {
            rustc_span::FileName::Real(r) => {
                if let Some(p) = r.local_path() { p.to_string_lossy().to_string() } else { format!("{:?}", r) }
            }
            other => format!("{:?}", other),
        };
        v.push(("cs_file", J::s(&cfile)));
        v.push(("cs_line", J::i(clo.line as i128)));
    }
    J::obj(v)
}

fn path<'tcx>(tcx: TyCtxt<'tcx>, did: DefId) -> String {
    tcx.def_path_str(did)
}

fn ty_json<'tcx>(tcx: TyCtxt<'tcx>, t: Ty<'tcx>) -> J {
    ty_json_d(tcx, t, 0)
}

fn ty_json_d<'tcx>(tcx: TyCtxt<'tcx>, t: Ty<'tcx>, depth: usize) -> J {
    let s = format!("{}", t);
    if depth > 6 {
        return J::obj(vec![("k", J::s("deep")), ("s", J::s(&s))]);
    }
    let d = depth + 1;
    match t.kind() {
        ty::Bool => J::obj(vec![("k", J::s("bool")), ("s", J::s(&s))]),
        ty::Char => J::obj(vec![("k", J::s("char")), ("s", J::s(&s))]),
        ty::Int(it) => {
            let w = it.bit_width().unwrap_or(64);
            J::obj(vec![
                ("k", J::s("int")),
                ("w", J::i(w as i128)),
                ("sg", J::b(true)),
                ("ptr", J::b(it.bit_width().is_none())),
                ("s", J::s(&s)),
            ])
        }
        ty::Uint(ut) => {
            let w = ut.bit_width().unwrap_or(64);
            J::obj(vec![
                ("k", J::s("int")),
                ("w", J::i(w as i128)),
                ("sg", J::b(false)),
                ("ptr", J::b(ut.bit_width().is_none())),
                ("s", J::s(&s)),
            ])
        }
        ty::Float(_) => J::obj(vec![("k", J::s("float")), ("s", J::s(&s))]),
        ty::Adt(def, args) => {
            let mut a = vec![];
            for ga in args.iter() {
                a.push(garg_json(tcx, ga, d));
            }
            J::obj(vec![
                ("k", J::s("adt")),
                ("def", J::s(&path(tcx, def.did()))),
                ("local", J::b(def.did().is_local())),
                ("adt_kind", J::s(if def.is_enum() { "enum" } else if def.is_union() { "union" } else { "struct" })),
                ("args", J::Arr(a)),
                ("s", J::s(&s)),
            ])
        }
        ty::Ref(_, inner, m) => J::obj(vec![
            ("k", J::s("ref")),
            ("mut", J::b(m.is_mut())),
            ("to", ty_json_d(tcx, *inner, d)),
            ("s", J::s(&s)),
        ]),
        ty::RawPtr(inner, m) => J::obj(vec![
            ("k", J::s("ptr")),
            ("mut", J::b(m.is_mut())),
            ("to", ty_json_d(tcx, *inner, d)),
            ("s", J::s(&s)),
        ]),
        ty::Slice(inner) => J::obj(vec![
            ("k", J::s("slice")),
            ("of", ty_json_d(tcx, *inner, d)),
            ("s", J::s(&s)),
        ]),
        ty::Array(inner, len) => {
            let l = const_json(tcx, *len);
            J::obj(vec![
                ("k", J::s("array")),
                ("of", ty_json_d(tcx, *inner, d)),
                ("len", l),
                ("s", J::s(&s)),
            ])
        }
        ty::Str => J::obj(vec![("k", J::s("str")), ("s", J::s(&s))]),
        ty::Tuple(ts) => {
            let mut a = vec![];
            for x in ts.iter() {
                a.push(ty_json_d(tcx, x, d));
            }
            J::obj(vec![("k", J::s("tuple")), ("elems", J::Arr(a)), ("s", J::s(&s))])
        }
        ty::Param(p) => J::obj(vec![
            ("k", J::s("param")),
            ("name", J::s(p.name.as_str())),
            ("s", J::s(&s)),
        ]),
        ty::Closure(did, args) => {
            let ca = args.as_closure();
            let mut up = vec![];
            for u in ca.upvar_tys().iter() {
                up.push(ty_json_d(tcx, u, d));
            }
            J::obj(vec![
                ("k", J::s("closure")),
                ("def", J::s(&path(tcx, *did))),
                ("upvars", J::Arr(up)),
                ("s", J::s(&s)),
            ])
        }
        ty::FnDef(did, args) => {
            let mut a = vec![];
            for ga in args.iter() {
                a.push(garg_json(tcx, ga, d));
            }
            J::obj(vec![
                ("k", J::s("fndef")),
                ("def", J::s(&path(tcx, *did))),
                ("args", J::Arr(a)),
                ("s", J::s(&s)),
            ])
        }
        ty::FnPtr(..) => J::obj(vec![("k", J::s("fnptr")), ("s", J::s(&s))]),
        ty::Never => J::obj(vec![("k", J::s("never")), ("s", J::s(&s))]),
        ty::Alias(..) => J::obj(vec![("k", J::s("alias")), ("s", J::s(&s))]),
        ty::Dynamic(..) => J::obj(vec![("k", J::s("dyn")), ("s", J::s(&s))]),
        _ => J::obj(vec![("k", J::s("other")), ("s", J::s(&s))]),
    }
}

fn garg_json<'tcx>(tcx: TyCtxt<'tcx>, ga: ty::GenericArg<'tcx>, d: usize) -> J {
    match ga.kind() {
        GenericArgKind::Type(t) => J::obj(vec![("g", J::s("ty")), ("ty", ty_json_d(tcx, t, d))]),
        GenericArgKind::Const(c) => J::obj(vec![("g", J::s("const")), ("c", const_json(tcx, c))]),
        GenericArgKind::Lifetime(_) => J::obj(vec![("g", J::s("lt"))]),
    }
}

fn const_json<'tcx>(tcx: TyCtxt<'tcx>, c: ty::Const<'tcx>) -> J {
    let s = format!("{}", c);
    match c.kind() {
        ty::ConstKind::Param(p) => J::obj(vec![("ck", J::s("param")), ("name", J::s(p.name.as_str())), ("s", J::s(&s))]),
        ty::ConstKind::Value(v) => {
            if let Some(si) = v.try_to_leaf() {
                let sz = si.size();
                let bits = si.to_bits(sz);
                J::obj(vec![("ck", J::s("val")), ("v", J::i(bits as i128)), ("s", J::s(&s))])
            } else {
                let _ = tcx;
                J::obj(vec![("ck", J::s("valtree")), ("s", J::s(&s))])
            }
        }
        _ => J::obj(vec![("ck", J::s("other")), ("s", J::s(&s))]),
    }
}

fn place_json<'tcx>(tcx: TyCtxt<'tcx>, body: &mir::Body<'tcx>, p: &Place<'tcx>) -> J {
    let mut proj = vec![];
    let mut cur = mir::PlaceTy::from_ty(body.local_decls[p.local].ty);
    for elem in p.projection.iter() {
        let e = match elem {
            ProjectionElem::Deref => J::obj(vec![("k", J::s("deref"))]),
            ProjectionElem::Field(f, fty) => {
                let mut v = vec![("k", J::s("field")), ("i", J::i(f.index() as i128)), ("ty", ty_json(tcx, fty))];
                // field name for ADTs
                if let ty::Adt(def, _) = cur.ty.kind() {
                    let vi = cur.variant_index.unwrap_or(rustc_abi::FIRST_VARIANT);
                    if vi.index() < def.variants().len() {
                        let var = def.variant(vi);
                        if f.index() < var.fields.len() {
                            v.push(("name", J::s(var.fields[f].name.as_str())));
                        }
                    }
                }
                J::obj(v)
            }
            ProjectionElem::Downcast(name, vi) => J::obj(vec![
                ("k", J::s("downcast")),
                ("v", J::i(vi.index() as i128)),
                ("name", J::s(&name.map(|n| n.to_string()).unwrap_or_default())),
            ]),
            ProjectionElem::Index(l) => J::obj(vec![("k", J::s("index")), ("local", J::i(l.index() as i128))]),
            ProjectionElem::ConstantIndex { offset, min_length, from_end } => J::obj(vec![
                ("k", J::s("cindex")),
                ("off", J::i(offset as i128)),
                ("min_len", J::i(min_length as i128)),
                ("from_end", J::b(from_end)),
            ]),
            ProjectionElem::Subslice { from, to, from_end } => J::obj(vec![
                ("k", J::s("subslice")),
                ("from", J::i(from as i128)),
                ("to", J::i(to as i128)),
                ("from_end", J::b(from_end)),
            ]),
            ProjectionElem::OpaqueCast(_) => J::obj(vec![("k", J::s("opaque"))]),
            ProjectionElem::UnwrapUnsafeBinder(_) => J::obj(vec![("k", J::s("unwrap_binder"))]),
        };
        proj.push(e);
        cur = cur.projection_ty(tcx, elem);
    }
    J::obj(vec![
        ("local", J::i(p.local.index() as i128)),
        ("proj", J::Arr(proj)),
        ("ty", ty_json(tcx, cur.ty)),
    ])
}

fn alloc_bytes<'tcx>(tcx: TyCtxt<'tcx>, alloc_id: mir::interpret::AllocId, max: usize) -> Option<Vec<u8>> {
    match tcx.try_get_global_alloc(alloc_id)? {
        mir::interpret::GlobalAlloc::Memory(a) => {
            let a = a.inner();
            if a.provenance().ptrs().is_empty() && a.len() <= max {
                let bytes = a.inspect_with_uninit_and_ptr_outside_interpreter(0..a.len());
                Some(bytes.to_vec())
            } else {
                None
            }
        }
        _ => None,
    }
}

/// structural view of a constant of ADT / tuple / array type: {variant, fields: [...]} with scalar leaves as {v}
fn destructure_json<'tcx>(tcx: TyCtxt<'tcx>, cv: mir::ConstValue, t: Ty<'tcx>, depth: usize) -> Option<J> {
    if depth > 4 {
        return None;
    }
    match t.kind() {
        ty::Bool | ty::Char | ty::Int(_) | ty::Uint(_) => {
            if let mir::ConstValue::Scalar(mir::interpret::Scalar::Int(si)) = cv {
                let sz = si.size();
                let bits = si.to_bits(sz);
                let val: i128 = if t.is_signed() { sz.sign_extend(bits) as i128 } else { bits as i128 };
                return Some(J::obj(vec![("ty", ty_json(tcx, t)), ("v", J::i(val))]));
            }
            None
        }
        ty::Adt(..) | ty::Tuple(..) | ty::Array(..) => {
            let d = tcx.try_destructure_mir_constant_for_user_output(cv, t)?;
            let mut fs = vec![];
            for (fv, fty) in d.fields.iter() {
                fs.push(destructure_json(tcx, *fv, *fty, depth + 1)?);
            }
            let mut o: Vec<(&str, J)> = vec![("ty", ty_json(tcx, t)), ("fields", J::Arr(fs))];
            if let Some(vi) = d.variant {
                o.push(("variant", J::i(vi.index() as i128)));
            }
            Some(J::obj(o))
        }
        _ => None,
    }
}

fn const_operand_json<'tcx>(tcx: TyCtxt<'tcx>, c: &ConstOperand<'tcx>, owner: Option<DefId>) -> J {
    let t = c.const_.ty();
    let mut v: Vec<(&str, J)> = vec![("k", J::s("const")), ("ty", ty_json(tcx, t)), ("s", J::s(&format!("{}", c.const_)))];
    if let ty::FnDef(did, args) = t.kind() {
        v.push(("fn", callee_json(tcx, *did, args, None)));
        return J::obj(v);
    }
    let mut cst = c.const_;
    if let mir::Const::Unevaluated(uv, uty) = cst {
        if uv.promoted.is_none() {
            if let Some(owner) = owner {
                let env = TypingEnv::post_analysis(tcx, owner);
                if let Ok(val) = cst.eval(tcx, env, c.span) {
                    v.push(("evaluated_from", J::s(&path(tcx, uv.def))));
                    cst = mir::Const::Val(val, uty);
                }
            }
        }
    }
    if let mir::Const::Val(cv, cty) = cst {
        if matches!(cty.kind(), ty::Adt(..) | ty::Tuple(..)) {
            if let Some(d) = destructure_json(tcx, cv, cty, 0) {
                v.push(("destructured", d));
            }
        }
    }
    match cst {
        mir::Const::Val(cv, _) => match cv {
            mir::ConstValue::Scalar(mir::interpret::Scalar::Int(si)) => {
                let sz = si.size();
                let bits = si.to_bits(sz);
                let val: i128 = if t.is_signed() { sz.sign_extend(bits) as i128 } else { bits as i128 };
                v.push(("v", J::i(val)));
            }
            mir::ConstValue::Scalar(mir::interpret::Scalar::Ptr(p, _)) => {
                let (prov, off) = p.into_raw_parts();
                let aid = prov.alloc_id();
                match tcx.try_get_global_alloc(aid) {
                    Some(mir::interpret::GlobalAlloc::Static(did)) => {
                        v.push(("static", J::s(&path(tcx, did))));
                    }
                    Some(mir::interpret::GlobalAlloc::Memory(_)) => {
                        if let Some(b) = alloc_bytes(tcx, aid, 4096) {
                            v.push(("bytes", J::Arr(b.iter().map(|x| J::i(*x as i128)).collect())));
                            v.push(("off", J::i(off.bytes() as i128)));
                        } else {
                            v.push(("alloc", J::s("opaque")));
                        }
                    }
                    _ => {}
                }
            }
            mir::ConstValue::ZeroSized => {
                v.push(("zst", J::b(true)));
            }
            mir::ConstValue::Slice { alloc_id, meta } => {
                if let Some(b) = alloc_bytes(tcx, alloc_id, 4096) {
                    v.push(("bytes", J::Arr(b.iter().map(|x| J::i(*x as i128)).collect())));
                }
                v.push(("slice_len", J::i(meta as i128)));
            }
            mir::ConstValue::Indirect { alloc_id, offset } => {
                if let Some(b) = alloc_bytes(tcx, alloc_id, 4096) {
                    v.push(("bytes", J::Arr(b.iter().map(|x| J::i(*x as i128)).collect())));
                    v.push(("off", J::i(offset.bytes() as i128)));
                }
            }
        },
        mir::Const::Unevaluated(uv, _) => {
            v.push(("uneval", J::s(&path(tcx, uv.def))));
            if let Some(p) = uv.promoted {
                v.push(("promoted", J::i(p.index() as i128)));
            }
            let mut a = vec![];
            for ga in uv.args.iter() {
                a.push(garg_json(tcx, ga, 0));
            }
            v.push(("uargs", J::Arr(a)));
        }
        mir::Const::Ty(_, tc) => {
            v.push(("tyconst", const_json(tcx, tc)));
        }
    }
    J::obj(v)
}

fn operand_json<'tcx>(tcx: TyCtxt<'tcx>, body: &mir::Body<'tcx>, o: &Operand<'tcx>) -> J {
    match o {
        Operand::Copy(p) => J::obj(vec![("k", J::s("copy")), ("place", place_json(tcx, body, p))]),
        Operand::Move(p) => J::obj(vec![("k", J::s("move")), ("place", place_json(tcx, body, p))]),
        Operand::Constant(c) => const_operand_json(tcx, c, Some(body.source.def_id())),
        #[allow(unreachable_patterns)]
        _ => J::obj(vec![("k", J::s("other_operand")), ("s", J::s(&format!("{:?}", o)))]),
    }
}

fn callee_json<'tcx>(
    tcx: TyCtxt<'tcx>,
    did: DefId,
    args: ty::GenericArgsRef<'tcx>,
    caller: Option<DefId>,
) -> J {
    let mut v: Vec<(&str, J)> = vec![
        ("def", J::s(&path(tcx, did))),
        ("local", J::b(did.is_local())),
        ("krate", J::s(tcx.crate_name(did.krate).as_str())),
    ];
    let mut a = vec![];
    for ga in args.iter() {
        a.push(garg_json(tcx, ga, 0));
    }
    v.push(("args", J::Arr(a)));
    v.push(("path_with_args", J::s(&tcx.def_path_str_with_args(did, args))));
    if let DefKind::Ctor(of, _) = tcx.def_kind(did) {
        // tuple struct / enum variant constructor used as a function
        let parent = tcx.parent(did);
        match of {
            rustc_hir::def::CtorOf::Variant => {
                let adt_did = tcx.parent(parent);
                let adt = tcx.adt_def(adt_did);
                let vi = adt.variant_index_with_id(parent);
                v.push(("ctor_adt", J::s(&path(tcx, adt_did))));
                v.push(("ctor_variant", J::i(vi.index() as i128)));
                v.push(("ctor_is_enum", J::b(true)));
            }
            rustc_hir::def::CtorOf::Struct => {
                v.push(("ctor_adt", J::s(&path(tcx, parent))));
                v.push(("ctor_variant", J::i(0)));
                v.push(("ctor_is_enum", J::b(false)));
            }
        }
    }
    // trait item?
    if let Some(ai) = tcx.opt_associated_item(did) {
        let cont = ai.container_id(tcx);
        match tcx.def_kind(cont) {
            DefKind::Trait => {
                v.push(("trait", J::s(&path(tcx, cont))));
                v.push(("method", J::s(ai.name().as_str())));
                if args.len() > 0 {
                    if let Some(st) = args.get(0).and_then(|g| g.as_type()) {
                        v.push(("self_ty", ty_json(tcx, st)));
                    }
                }
            }
            DefKind::Impl { .. } => {
                v.push(("impl", J::s(&path(tcx, cont))));
                v.push(("method", J::s(ai.name().as_str())));
                let st = tcx.type_of(cont).instantiate_identity().skip_norm_wip();
                v.push(("impl_self_ty", ty_json(tcx, st)));
                if let Some(tr) = tcx.impl_opt_trait_ref(cont) {
                    let tr = tr.instantiate_identity().skip_norm_wip();
                    v.push(("impl_trait", J::s(&path(tcx, tr.def_id))));
                }
            }
            _ => {}
        }
    }
    // resolution
    if let Some(caller) = caller {
        let env = TypingEnv::post_analysis(tcx, caller);
        if let Ok(Some(inst)) = ty::Instance::try_resolve(tcx, env, did, args) {
            let rdid = inst.def_id();
            let mut r: Vec<(&str, J)> = vec![
                ("def", J::s(&path(tcx, rdid))),
                ("local", J::b(rdid.is_local())),
                ("kind", J::s(&format!("{:?}", std::mem::discriminant(&inst.def)))),
                ("path_with_args", J::s(&tcx.def_path_str_with_args(rdid, inst.args))),
            ];
            let mut ra = vec![];
            for ga in inst.args.iter() {
                ra.push(garg_json(tcx, ga, 0));
            }
            r.push(("args", J::Arr(ra)));
            let ik = match inst.def {
                ty::InstanceKind::Item(_) => "item",
                ty::InstanceKind::Intrinsic(_) => "intrinsic",
                ty::InstanceKind::Virtual(..) => "virtual",
                ty::InstanceKind::ClosureOnceShim { .. } => "closure_once_shim",
                ty::InstanceKind::FnPtrShim(..) => "fnptr_shim",
                ty::InstanceKind::DropGlue(..) => "drop_glue",
                ty::InstanceKind::CloneShim(..) => "clone_shim",
                _ => "other",
            };
            r.push(("ik", J::s(ik)));
            v.push(("resolved", J::obj(r)));
        }
    }
    J::obj(v)
}

fn binop_str(op: BinOp) -> &'static str {
    match op {
        BinOp::Add => "Add",
        BinOp::AddUnchecked => "AddUnchecked",
        BinOp::AddWithOverflow => "AddWithOverflow",
        BinOp::Sub => "Sub",
        BinOp::SubUnchecked => "SubUnchecked",
        BinOp::SubWithOverflow => "SubWithOverflow",
        BinOp::Mul => "Mul",
        BinOp::MulUnchecked => "MulUnchecked",
        BinOp::MulWithOverflow => "MulWithOverflow",
        BinOp::Div => "Div",
        BinOp::Rem => "Rem",
        BinOp::BitXor => "BitXor",
        BinOp::BitAnd => "BitAnd",
        BinOp::BitOr => "BitOr",
        BinOp::Shl => "Shl",
        BinOp::ShlUnchecked => "ShlUnchecked",
        BinOp::Shr => "Shr",
        BinOp::ShrUnchecked => "ShrUnchecked",
        BinOp::Eq => "Eq",
        BinOp::Lt => "Lt",
        BinOp::Le => "Le",
        BinOp::Ne => "Ne",
        BinOp::Ge => "Ge",
        BinOp::Gt => "Gt",
        BinOp::Cmp => "Cmp",
        BinOp::Offset => "Offset",
    }
}

fn rvalue_json<'tcx>(tcx: TyCtxt<'tcx>, body: &mir::Body<'tcx>, rv: &Rvalue<'tcx>) -> J {
    match rv {
        Rvalue::Use(o, ..) => J::obj(vec![("k", J::s("use")), ("op", operand_json(tcx, body, o))]),
        Rvalue::Repeat(o, n) => J::obj(vec![
            ("k", J::s("repeat")),
            ("op", operand_json(tcx, body, o)),
            ("n", const_json(tcx, *n)),
        ]),
        Rvalue::Ref(_, bk, p) => J::obj(vec![
            ("k", J::s("ref")),
            ("mut", J::b(matches!(bk, BorrowKind::Mut { .. }))),
            ("bk", J::s(&format!("{:?}", bk))),
            ("place", place_json(tcx, body, p)),
        ]),
        Rvalue::RawPtr(_, p) => J::obj(vec![("k", J::s("rawptr")), ("place", place_json(tcx, body, p))]),
        Rvalue::Cast(ck, o, t) => {
            let cks = match ck {
                CastKind::IntToInt => "IntToInt".to_string(),
                CastKind::Transmute => "Transmute".to_string(),
                CastKind::PtrToPtr => "PtrToPtr".to_string(),
                other => format!("{:?}", other),
            };
            J::obj(vec![
                ("k", J::s("cast")),
                ("ck", J::s(&cks)),
                ("op", operand_json(tcx, body, o)),
                ("ty", ty_json(tcx, *t)),
            ])
        }
        Rvalue::BinaryOp(op, b) => J::obj(vec![
            ("k", J::s("binop")),
            ("op", J::s(binop_str(*op))),
            ("l", operand_json(tcx, body, &b.0)),
            ("r", operand_json(tcx, body, &b.1)),
        ]),
        Rvalue::UnaryOp(op, o) => {
            let ops = match op {
                UnOp::Not => "Not",
                UnOp::Neg => "Neg",
                UnOp::PtrMetadata => "PtrMetadata",
            };
            J::obj(vec![("k", J::s("unop")), ("op", J::s(ops)), ("x", operand_json(tcx, body, o))])
        }
        Rvalue::Discriminant(p) => J::obj(vec![("k", J::s("discr")), ("place", place_json(tcx, body, p))]),
        Rvalue::Aggregate(ak, ops) => {
            let mut v: Vec<(&str, J)> = vec![("k", J::s("aggregate"))];
            match &**ak {
                AggregateKind::Array(t) => {
                    v.push(("ak", J::s("array")));
                    v.push(("elem_ty", ty_json(tcx, *t)));
                }
                AggregateKind::Tuple => v.push(("ak", J::s("tuple"))),
                AggregateKind::Adt(did, vi, args, _, _) => {
                    v.push(("ak", J::s("adt")));
                    v.push(("def", J::s(&path(tcx, *did))));
                    v.push(("variant", J::i(vi.index() as i128)));
                    let def = tcx.adt_def(*did);
                    let var = def.variant(*vi);
                    v.push(("variant_name", J::s(var.name.as_str())));
                    v.push(("is_enum", J::b(def.is_enum())));
                    v.push((
                        "fields",
                        J::Arr(var.fields.iter().map(|f| J::s(f.name.as_str())).collect()),
                    ));
                    let mut a = vec![];
                    for ga in args.iter() {
                        a.push(garg_json(tcx, ga, 0));
                    }
                    v.push(("args", J::Arr(a)));
                }
                AggregateKind::Closure(did, _) => {
                    v.push(("ak", J::s("closure")));
                    v.push(("def", J::s(&path(tcx, *did))));
                }
                other => {
                    v.push(("ak", J::s("other")));
                    v.push(("s", J::s(&format!("{:?}", other))));
                }
            }
            v.push(("ops", J::Arr(ops.iter().map(|o| operand_json(tcx, body, o)).collect())));
            J::obj(v)
        }
        Rvalue::CopyForDeref(p) => J::obj(vec![
            ("k", J::s("use")),
            ("op", J::obj(vec![("k", J::s("copy")), ("place", place_json(tcx, body, p))])),
        ]),
        other => J::obj(vec![("k", J::s("other")), ("s", J::s(&format!("{:?}", other)))]),
    }
}

fn body_json<'tcx>(tcx: TyCtxt<'tcx>, did: DefId, body: &mir::Body<'tcx>, promoted_idx: Option<usize>) -> J {
    let mut v: Vec<(&str, J)> = vec![];
    let p = path(tcx, did);
    v.push(("def", J::s(&p)));
    if let Some(i) = promoted_idx {
        v.push(("promoted", J::i(i as i128)));
    }
    v.push(("kind", J::s(&format!("{:?}", tcx.def_kind(did)))));
    v.push(("span", span_json(tcx, body.span)));
    v.push(("arg_count", J::i(body.arg_count as i128)));
    // visibility
    let vis = match tcx.def_kind(did) {
        DefKind::Fn | DefKind::AssocFn => {
            let vis = tcx.visibility(did);
            if vis.is_public() { "pub".to_string() } else { format!("{:?}", vis) }
        }
        _ => "n/a".to_string(),
    };
    v.push(("vis", J::s(&vis)));
    // container
    if let Some(ai) = tcx.opt_associated_item(did) {
        let cont = ai.container_id(tcx);
        v.push(("name", J::s(ai.name().as_str())));
        match tcx.def_kind(cont) {
            DefKind::Impl { .. } => {
                let st = tcx.type_of(cont).instantiate_identity().skip_norm_wip();
                v.push(("impl", J::s(&path(tcx, cont))));
                v.push(("impl_self_ty", ty_json(tcx, st)));
                if let Some(tr) = tcx.impl_opt_trait_ref(cont) {
                    let tr = tr.instantiate_identity().skip_norm_wip();
                    v.push(("impl_trait", J::s(&path(tcx, tr.def_id))));
                    v.push(("impl_trait_full", J::s(&format!("{}", tr))));
                }
                v.push(("auto_derived", J::b(tcx.is_automatically_derived(cont))));
            }
            DefKind::Trait => {
                v.push(("trait_default", J::s(&path(tcx, cont))));
            }
            _ => {}
        }
    } else if matches!(tcx.def_kind(did), DefKind::Fn) {
        v.push(("name", J::s(tcx.item_name(did).as_str())));
    }
    if matches!(tcx.def_kind(did), DefKind::Closure) {
        let parent = tcx.typeck_root_def_id(did);
        v.push(("closure_of", J::s(&path(tcx, parent))));
    }
    // generics
    if matches!(tcx.def_kind(did), DefKind::Fn | DefKind::AssocFn | DefKind::Closure) {
        let names = generic_names(tcx, did);
        v.push(("generics", J::Arr(names)));
    }
    // locals
    let mut locals = vec![];
    for (_l, decl) in body.local_decls.iter_enumerated() {
        locals.push(J::obj(vec![
            ("ty", ty_json(tcx, decl.ty)),
            ("mut", J::b(decl.mutability.is_mut())),
        ]));
    }
    v.push(("locals", J::Arr(locals)));
    // debug names
    let mut dbg = vec![];
    for vdi in body.var_debug_info.iter() {
        if let mir::VarDebugInfoContents::Place(p) = &vdi.value {
            dbg.push(J::obj(vec![
                ("name", J::s(vdi.name.as_str())),
                ("place", place_json(tcx, body, p)),
                ("arg", J::i(vdi.argument_index.map(|x| x as i128).unwrap_or(-1))),
            ]));
        }
    }
    v.push(("debug", J::Arr(dbg)));
    // blocks
    let mut blocks = vec![];
    for (_bb, data) in body.basic_blocks.iter_enumerated() {
        let mut stmts = vec![];
        for st in data.statements.iter() {
            let sj = match &st.kind {
                StatementKind::Assign(b) => {
                    let (pl, rv) = &**b;
                    Some(J::obj(vec![
                        ("k", J::s("assign")),
                        ("place", place_json(tcx, body, pl)),
                        ("rv", rvalue_json(tcx, body, rv)),
                        ("span", span_json(tcx, st.source_info.span)),
                    ]))
                }
                StatementKind::SetDiscriminant { place, variant_index } => Some(J::obj(vec![
                    ("k", J::s("setdiscr")),
                    ("place", place_json(tcx, body, place)),
                    ("variant", J::i(variant_index.index() as i128)),
                    ("span", span_json(tcx, st.source_info.span)),
                ])),
                StatementKind::StorageLive(_)
                | StatementKind::StorageDead(_)
                | StatementKind::Nop
                | StatementKind::FakeRead(..)
                | StatementKind::PlaceMention(..)
                | StatementKind::AscribeUserType(..)
                | StatementKind::Coverage(..)
                | StatementKind::ConstEvalCounter
                | StatementKind::BackwardIncompatibleDropHint { .. } => None,
                other => Some(J::obj(vec![
                    ("k", J::s("other")),
                    ("s", J::s(&format!("{:?}", other))),
                    ("span", span_json(tcx, st.source_info.span)),
                ])),
            };
            if let Some(sj) = sj {
                stmts.push(sj);
            }
        }
        let term = data.terminator();
        let tspan = span_json(tcx, term.source_info.span);
        let tj = match &term.kind {
            TerminatorKind::Goto { target } => J::obj(vec![("k", J::s("goto")), ("target", J::i(target.index() as i128))]),
            TerminatorKind::SwitchInt { discr, targets } => {
                let mut ts = vec![];
                for (val, bb) in targets.iter() {
                    ts.push(J::Arr(vec![J::i(val as i128), J::i(bb.index() as i128)]));
                }
                J::obj(vec![
                    ("k", J::s("switch")),
                    ("discr", operand_json(tcx, body, discr)),
                    ("targets", J::Arr(ts)),
                    ("otherwise", J::i(targets.otherwise().index() as i128)),
                ])
            }
            TerminatorKind::Return => J::obj(vec![("k", J::s("return"))]),
            TerminatorKind::Unreachable => J::obj(vec![("k", J::s("unreachable"))]),
            TerminatorKind::UnwindResume => J::obj(vec![("k", J::s("resume"))]),
            TerminatorKind::UnwindTerminate(_) => J::obj(vec![("k", J::s("terminate"))]),
            TerminatorKind::Drop { place, target, .. } => J::obj(vec![
                ("k", J::s("drop")),
                ("place", place_json(tcx, body, place)),
                ("target", J::i(target.index() as i128)),
            ]),
            TerminatorKind::Call { func, args, destination, target, .. } => {
                let mut v2: Vec<(&str, J)> = vec![("k", J::s("call"))];
                match func {
                    Operand::Constant(c) => {
                        if let ty::FnDef(cd, cargs) = c.const_.ty().kind() {
                            v2.push(("callee", callee_json(tcx, *cd, cargs, Some(did))));
                        } else {
                            v2.push(("callee_op", operand_json(tcx, body, func)));
                        }
                    }
                    _ => v2.push(("callee_op", operand_json(tcx, body, func))),
                }
                v2.push(("args", J::Arr(args.iter().map(|a| operand_json(tcx, body, &a.node)).collect())));
                v2.push(("dest", place_json(tcx, body, destination)));
                v2.push(("target", target.map(|t| J::i(t.index() as i128)).unwrap_or(J::Null)));
                J::obj(v2)
            }
            TerminatorKind::Assert { cond, expected, msg, target, .. } => {
                let mut v2: Vec<(&str, J)> = vec![
                    ("k", J::s("assert")),
                    ("cond", operand_json(tcx, body, cond)),
                    ("expected", J::b(*expected)),
                    ("target", J::i(target.index() as i128)),
                ];
                use mir::AssertKind as AK;
                match &**msg {
                    AK::BoundsCheck { len, index } => {
                        v2.push(("ak", J::s("BoundsCheck")));
                        v2.push(("len", operand_json(tcx, body, len)));
                        v2.push(("index", operand_json(tcx, body, index)));
                    }
                    AK::Overflow(op, l, r) => {
                        v2.push(("ak", J::s("Overflow")));
                        v2.push(("op", J::s(binop_str(*op))));
                        v2.push(("l", operand_json(tcx, body, l)));
                        v2.push(("r", operand_json(tcx, body, r)));
                    }
                    AK::OverflowNeg(o) => {
                        v2.push(("ak", J::s("OverflowNeg")));
                        v2.push(("x", operand_json(tcx, body, o)));
                    }
                    AK::DivisionByZero(o) => {
                        v2.push(("ak", J::s("DivisionByZero")));
                        v2.push(("x", operand_json(tcx, body, o)));
                    }
                    AK::RemainderByZero(o) => {
                        v2.push(("ak", J::s("RemainderByZero")));
                        v2.push(("x", operand_json(tcx, body, o)));
                    }
                    other => {
                        v2.push(("ak", J::s("Other")));
                        v2.push(("s", J::s(&format!("{:?}", other))));
                    }
                }
                J::obj(v2)
            }
            TerminatorKind::FalseEdge { real_target, .. } => J::obj(vec![("k", J::s("goto")), ("target", J::i(real_target.index() as i128))]),
            TerminatorKind::FalseUnwind { real_target, .. } => J::obj(vec![("k", J::s("goto")), ("target", J::i(real_target.index() as i128))]),
            other => J::obj(vec![("k", J::s("other")), ("s", J::s(&format!("{:?}", other)))]),
        };
        blocks.push(J::obj(vec![
            ("stmts", J::Arr(stmts)),
            ("term", tj),
            ("tspan", tspan),
            ("cleanup", J::b(data.is_cleanup)),
        ]));
    }
    v.push(("blocks", J::Arr(blocks)));
    J::obj(v)
}

fn generic_names<'tcx>(tcx: TyCtxt<'tcx>, did: DefId) -> Vec<J> {
    let g = tcx.generics_of(did);
    let mut names = vec![];
    if let Some(p) = g.parent {
        names = generic_names(tcx, p);
    }
    for p in g.own_params.iter() {
        names.push(J::s(p.name.as_str()));
    }
    names
}

fn dump_crate<'tcx>(tcx: TyCtxt<'tcx>, name: &str) -> J {
    let mut bodies = vec![];
    let mut promoteds = vec![];
    for ldid in tcx.mir_keys(()).iter() {
        let did = ldid.to_def_id();
        let dk = tcx.def_kind(did);
        if !matches!(dk, DefKind::Fn | DefKind::AssocFn | DefKind::Closure) {
            continue;
        }
        // const fns evaluated only at compile time still have optimized_mir
        if !tcx.is_mir_available(did) {
            continue;
        }
        let body = tcx.optimized_mir(did);
        bodies.push(body_json(tcx, did, body, None));
        let proms = tcx.promoted_mir(did);
        for (i, pb) in proms.iter_enumerated() {
            promoteds.push(body_json(tcx, did, pb, Some(i.index())));
        }
    }
    // bodies of local const items / associated consts (evaluated by the analyser when they depend on generic parameters)
    let mut consts = vec![];
    for ldid in tcx.mir_keys(()).iter() {
        let did = ldid.to_def_id();
        if !matches!(tcx.def_kind(did), DefKind::Const { .. } | DefKind::AssocConst { .. }) {
            continue;
        }
        let body = tcx.mir_for_ctfe(did);
        let mut b = body_json(tcx, did, body, None);
        if let J::Obj(ref mut fields) = b {
            fields.push(("generics".to_string(), J::Arr(generic_names(tcx, did))));
        }
        consts.push(b);
    }
    // ADTs, traits and impls
    let mut adts = vec![];
    let mut traits = vec![];
    let mut impls = vec![];
    let mut statics = vec![];
    let mut aliases = vec![];
    for id in tcx.hir_crate_items(()).definitions() {
        let did = id.to_def_id();
        match tcx.def_kind(did) {
            DefKind::Struct | DefKind::Enum | DefKind::Union => {
                let def = tcx.adt_def(did);
                let mut vars = vec![];
                for (vi, var) in def.variants().iter_enumerated() {
                    let mut fields = vec![];
                    for f in var.fields.iter() {
                        let fty = tcx.type_of(f.did).instantiate_identity().skip_norm_wip();
                        fields.push(J::obj(vec![
                            ("name", J::s(f.name.as_str())),
                            ("ty", ty_json(tcx, fty)),
                            ("vis", J::s(&if f.vis.is_public() { "pub".to_string() } else { format!("{:?}", f.vis) })),
                        ]));
                    }
                    let discr = if def.is_enum() {
                        def.discriminant_for_variant(tcx, vi).val as i128
                    } else {
                        0
                    };
                    vars.push(J::obj(vec![
                        ("name", J::s(var.name.as_str())),
                        ("idx", J::i(vi.index() as i128)),
                        ("discr", J::i(discr)),
                        ("fields", J::Arr(fields)),
                    ]));
                }
                let vis = tcx.visibility(did);
                adts.push(J::obj(vec![
                    ("def", J::s(&path(tcx, did))),
                    ("kind", J::s(if def.is_enum() { "enum" } else if def.is_union() { "union" } else { "struct" })),
                    ("vis", J::s(&if vis.is_public() { "pub".to_string() } else { format!("{:?}", vis) })),
                    ("variants", J::Arr(vars)),
                    ("generics", J::Arr(generic_names(tcx, did))),
                    ("span", span_json(tcx, tcx.def_span(did))),
                ]));
            }
            DefKind::Trait => {
                let mut supers = vec![];
                for p in tcx.explicit_super_predicates_of(did).iter_identity_copied() {
                    let (clause, _) = p.skip_norm_wip();
                    if let Some(tp) = clause.as_trait_clause() {
                        supers.push(J::s(&path(tcx, tp.def_id())));
                    }
                }
                let mut items = vec![];
                for ai in tcx.associated_items(did).in_definition_order() {
                    items.push(J::obj(vec![
                        ("name", J::s(ai.name().as_str())),
                        ("kind", J::s(&format!("{:?}", ai.tag()))),
                        ("has_default", J::b(ai.defaultness(tcx).has_value())),
                    ]));
                }
                let vis = tcx.visibility(did);
                traits.push(J::obj(vec![
                    ("def", J::s(&path(tcx, did))),
                    ("vis", J::s(&if vis.is_public() { "pub".to_string() } else { format!("{:?}", vis) })),
                    ("supers", J::Arr(supers)),
                    ("items", J::Arr(items)),
                ]));
            }
            DefKind::Impl { .. } => {
                let st = tcx.type_of(did).instantiate_identity().skip_norm_wip();
                let mut v: Vec<(&str, J)> = vec![
                    ("def", J::s(&path(tcx, did))),
                    ("self_ty", ty_json(tcx, st)),
                    ("auto_derived", J::b(tcx.is_automatically_derived(did))),
                    ("generics", J::Arr(generic_names(tcx, did))),
                    ("span", span_json(tcx, tcx.def_span(did))),
                ];
                if let Some(tr) = tcx.impl_opt_trait_ref(did) {
                    let tr = tr.instantiate_identity().skip_norm_wip();
                    v.push(("trait", J::s(&path(tcx, tr.def_id))));
                    v.push(("trait_full", J::s(&format!("{}", tr))));
                    v.push(("trait_local", J::b(tr.def_id.is_local())));
                    let mut ta = vec![];
                    for ga in tr.args.iter().skip(1) {
                        ta.push(garg_json(tcx, ga, 0));
                    }
                    v.push(("trait_args", J::Arr(ta)));
                }
                let mut items = vec![];
                for ai in tcx.associated_items(did).in_definition_order() {
                    items.push(J::obj(vec![
                        ("name", J::s(ai.name().as_str())),
                        ("def", J::s(&path(tcx, ai.def_id))),
                    ]));
                }
                v.push(("items", J::Arr(items)));
                impls.push(J::obj(v));
            }
            DefKind::Static { .. } => {
                let t = tcx.type_of(did).instantiate_identity().skip_norm_wip();
                statics.push(J::obj(vec![
                    ("def", J::s(&path(tcx, did))),
                    ("ty", ty_json(tcx, t)),
                    ("span", span_json(tcx, tcx.def_span(did))),
                ]));
            }
            DefKind::TyAlias => {
                let mut t = tcx.type_of(did).instantiate_identity().skip_norm_wip();
                if tcx.generics_of(did).count() == 0 {
                    // evaluate type-level constants such as ArrayBuf<{ 8 * 1024 }>
                    if let Ok(n) = tcx.try_normalize_erasing_regions(TypingEnv::fully_monomorphized(), tcx.type_of(did).instantiate_identity()) {
                        t = n;
                    }
                }
                let vis = tcx.visibility(did);
                aliases.push(J::obj(vec![
                    ("def", J::s(&path(tcx, did))),
                    ("ty", ty_json(tcx, t)),
                    ("vis", J::s(&if vis.is_public() { "pub".to_string() } else { format!("{:?}", vis) })),
                ]));
            }
            _ => {}
        }
    }
    // variants of non-local enums that local bodies mention (needed to read SwitchInt tables on them)
    let mut ext_enums = vec![];
    {
        let mut seen = std::collections::HashSet::new();
        for ldid in tcx.mir_keys(()).iter() {
            let did = ldid.to_def_id();
            if !matches!(tcx.def_kind(did), DefKind::Fn | DefKind::AssocFn | DefKind::Closure) || !tcx.is_mir_available(did) {
                continue;
            }
            let body = tcx.optimized_mir(did);
            for decl in body.local_decls.iter() {
                let mut t = decl.ty;
                loop {
                    match t.kind() {
                        ty::Ref(_, inner, _) => t = *inner,
                        _ => break,
                    }
                }
                if let ty::Adt(def, _) = t.kind() {
                    if def.is_enum() && !def.did().is_local() && seen.insert(def.did()) && def.variants().len() <= 64 {
                        let mut vars = vec![];
                        for (vi, var) in def.variants().iter_enumerated() {
                            vars.push(J::obj(vec![
                                ("name", J::s(var.name.as_str())),
                                ("idx", J::i(vi.index() as i128)),
                                ("discr", J::i(def.discriminant_for_variant(tcx, vi).val as i128)),
                                ("nfields", J::i(var.fields.len() as i128)),
                            ]));
                        }
                        ext_enums.push(J::obj(vec![("def", J::s(&path(tcx, def.did()))), ("variants", J::Arr(vars))]));
                    }
                }
            }
        }
    }
    let mut feats = String::new();
    for (k, vopt) in tcx.sess.config.iter() {
        if k.as_str() == "feature" {
            if let Some(vv) = vopt {
                let _ = write!(feats, "{},", vv.as_str());
            }
        }
    }
    J::obj(vec![
        ("crate", J::s(name)),
        ("features", J::s(&feats)),
        ("rustc", J::s(env!("CARGO_PKG_VERSION"))),
        ("bodies", J::Arr(bodies)),
        ("promoted", J::Arr(promoteds)),
        ("consts", J::Arr(consts)),
        ("adts", J::Arr(adts)),
        ("traits", J::Arr(traits)),
        ("impls", J::Arr(impls)),
        ("statics", J::Arr(statics)),
        ("aliases", J::Arr(aliases)),
        ("ext_enums", J::Arr(ext_enums)),
    ])
}

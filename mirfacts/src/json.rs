// minimal JSON value + writer (no dependencies)
pub enum J {
    Null,
    B(bool),
    I(i128),
    S(String),
    Arr(Vec<J>),
    Obj(Vec<(String, J)>),
}

impl J {
    pub fn s(x: &str) -> J {
        J::S(x.to_string())
    }
    pub fn i(x: i128) -> J {
        J::I(x)
    }
    pub fn b(x: bool) -> J {
        J::B(x)
    }
    pub fn obj(v: Vec<(&str, J)>) -> J {
        J::Obj(v.into_iter().map(|(k, v)| (k.to_string(), v)).collect())
    }
    pub fn write(&self, out: &mut String) {
        match self {
            J::Null => out.push_str("null"),
            J::B(b) => out.push_str(if *b { "true" } else { "false" }),
            J::I(i) => out.push_str(&i.to_string()),
            J::S(s) => esc(s, out),
            J::Arr(a) => {
                out.push('[');
                for (i, x) in a.iter().enumerate() {
                    if i > 0 {
                        out.push(',');
                    }
                    x.write(out);
                }
                out.push(']');
            }
            J::Obj(o) => {
                out.push('{');
                for (i, (k, v)) in o.iter().enumerate() {
                    if i > 0 {
                        out.push(',');
                    }
                    esc(k, out);
                    out.push(':');
                    v.write(out);
                }
                out.push('}');
            }
        }
    }
}

fn esc(s: &str, out: &mut String) {
    out.push('"');
    for c in s.chars() {
        match c {
            '"' => out.push_str("\\\""),
            '\\' => out.push_str("\\\\"),
            '\n' => out.push_str("\\n"),
            '\r' => out.push_str("\\r"),
            '\t' => out.push_str("\\t"),
            c if (c as u32) < 0x20 => out.push_str(&format!("\\u{:04x}", c as u32)),
            c => out.push(c),
        }
    }
    out.push('"');
}

//! Canary crate for the /verif static analyses: every `bad_*` function must make the rule named in
//! sa/canary.py fire, every `good_*` twin must stay silent.  Compiled with the same driver and analysed with the
//! same engines on every run of the VRA-based checks, so a rule whose expected count on /repo is zero still
//! proves on every run that it can fire.
#![allow(dead_code)]

// ---- OVF: a narrow counter without a bound
pub struct Counter16 {
    n: u16,
}
impl Counter16 {
    pub fn bad_bump(&mut self) {
        self.n += 1;
    }
    pub fn good_bump(&mut self) {
        if self.n < 1000 {
            self.n += 1;
        }
    }
}

// ---- OVF: unguarded subtraction
pub fn bad_sub(a: usize, b: usize) -> usize {
    a - b
}
pub fn good_sub(a: usize, b: usize) -> usize {
    if b <= a {
        a - b
    } else {
        0
    }
}

// ---- IDX: index without a check / with a check
pub fn bad_index(x: &[u8], i: usize) -> u8 {
    x[i]
}
pub fn good_index(x: &[u8], i: usize) -> u8 {
    if i < x.len() {
        x[i]
    } else {
        0
    }
}

// ---- IDX: slicing
pub fn bad_slice(x: &[u8], n: usize) -> &[u8] {
    &x[n..]
}
pub fn good_slice(x: &[u8], n: usize) -> &[u8] {
    if n <= x.len() {
        &x[n..]
    } else {
        x
    }
}

// ---- PANIC: unwrap of a value that may be None
pub fn bad_unwrap(x: &[u8]) -> u8 {
    *x.first().unwrap()
}
pub fn good_unwrap(x: &[u8]) -> u8 {
    match x.first() {
        Some(b) => *b,
        None => 0,
    }
}

// ---- lossy shift on a decoded length (the checked_shl defect class)
pub fn bad_shift(len: u32) -> Option<u32> {
    len.checked_shl(4)
}
pub fn good_shift(len: u32) -> Option<u32> {
    len.checked_mul(16)
}

// ---- loop: relational invariant / progress through a slice
pub fn good_loop(mut x: &[u8]) -> usize {
    let mut n = 0usize;
    while !x.is_empty() {
        x = &x[1..];
        n += 1;
    }
    n
}
pub fn bad_loop(x: &[u8]) -> u8 {
    let mut i = 0u8;
    for _ in x {
        i += 1;
    }
    i
}


#!/bin/bash
# usage: tools/try_patch_par.sh <patch.diff> [<prop>...]  -- like try_patch.sh, but runs the checks in parallel (facts are
# extracted once by a first check, then shared through the content-addressed cache); always reverts /repo
P=$(realpath "$1"); shift
PROPS="$@"; [ -z "$PROPS" ] && PROPS="C02 C03 C04 C05 C06 C07 C08 C09 C10 C11 C12 C13 C14 C15 C16 C17 C18"
cd /repo || exit 2
git diff --quiet || { echo "repo dirty"; exit 2; }
git apply "$P" || { echo "patch does not apply"; exit 2; }
trap 'git -C /repo checkout -- . ; git -C /repo clean -fdq src tests 2>/dev/null' EXIT
cd /verif
T=$(mktemp -d)
first=$(echo $PROPS | awk '{print $1}')
./check $first > $T/$first.out 2>&1; echo $? > $T/$first.rc
for p in $PROPS; do
  [ $p = $first ] && continue
  ( ./check $p > $T/$p.out 2>&1; echo $? > $T/$p.rc ) &
done
wait
for p in $PROPS; do
  echo "== $p exit=$(cat $T/$p.rc)"
  grep -E "^\s+src/|^\s+:0" $T/$p.out | cut -c1-${WIDTH:-260} | head -8
done
rm -rf $T

#!/bin/bash
# run all claimed checks on /repo as it is, in parallel (first one alone to fill the fact cache); prints rc per check
cd /verif
T=$(mktemp -d)
TIER=${1:-quick}
./check C18 --tier $TIER > $T/C18.out 2>&1; echo $? > $T/C18.rc
for p in C02 C03 C04 C05 C06 C07 C08 C09 C10 C11 C12 C13 C14 C15 C16 C17; do
  ( ./check $p --tier $TIER > $T/$p.out 2>&1; echo $? > $T/$p.rc ) &
done
wait
bad=0
for p in C02 C03 C04 C05 C06 C07 C08 C09 C10 C11 C12 C13 C14 C15 C16 C17 C18; do
  rc=$(cat $T/$p.rc); [ "$rc" != 0 ] && bad=1
  echo "$p rc=$rc $(grep -E 'obligations=' $T/$p.out | cut -c1-100)"
  [ "$rc" != 0 ] && grep -E "^\s+src/|^\s+:0|Traceback|Error" $T/$p.out | head -5 | cut -c1-300
done
rm -rf $T
exit $bad

#!/bin/bash
# usage: tools/confirm_pair.sh <seed-dir with patch.diff refactor_only.diff demo.rs>
# scratch worktree: demo passes on HEAD and with refactor_only.diff, fails with patch.diff; the suite passes with either
SD=$(realpath "$1")
W=$(mktemp -d /tmp/seedconf.XXXX)
git -C /repo worktree add -q --detach "$W/wt" HEAD || { echo "$SD worktree-failed"; exit 2; }
trap 'git -C /repo worktree remove --force "$W/wt" 2>/dev/null; rm -rf "$W"' EXIT
cd "$W/wt"
export CARGO_TARGET_DIR="$W/target" CARGO_NET_OFFLINE=true
L="$SD/confirm.log"; : > "$L"
cp "$SD/demo.rs" tests/seed_demo.rs
cargo test --offline --all-features --test seed_demo >> "$L" 2>&1; d0=$?
git apply "$SD/refactor_only.diff" >> "$L" 2>&1 || { echo "$SD refactor_apply=FAIL"; exit 3; }
cargo test --offline --all-features --test seed_demo >> "$L" 2>&1; dr=$?
rm tests/seed_demo.rs
cargo test --workspace --no-fail-fast --offline >> "$L" 2>&1; sr=$?
git checkout -q -- . ; git clean -fdq src tests
cp "$SD/demo.rs" tests/seed_demo.rs
git apply "$SD/patch.diff" >> "$L" 2>&1 || { echo "$SD apply=FAIL"; exit 3; }
cargo test --offline --all-features --test seed_demo >> "$L" 2>&1; d1=$?
rm tests/seed_demo.rs
cargo test --workspace --no-fail-fast --offline >> "$L" 2>&1; s=$?
cargo build --offline --no-default-features >> "$L" 2>&1; b=$?
ok=no; [ $d0 = 0 ] && [ $dr = 0 ] && [ $sr = 0 ] && [ $d1 != 0 ] && [ $s = 0 ] && [ $b = 0 ] && ok=yes
echo "$SD demo_on_head=$d0 demo_refactor_only=$dr suite_refactor_only=$sr demo_with_patch=$d1 suite_with_patch=$s nodefault_build=$b confirmed=$ok"

#!/bin/bash
# usage: tools/try_patch.sh <patch.diff> <prop> [<prop>...]   -- apply to /repo, run the checks, always revert
P=$(realpath "$1"); shift
cd /repo || exit 2
git diff --quiet || { echo "repo dirty"; exit 2; }
git apply "$P" || { echo "patch does not apply"; exit 2; }
trap 'git -C /repo checkout -- . ; git -C /repo clean -fdq src tests 2>/dev/null' EXIT
cd /verif
for p in "$@"; do
  out=$(./check "$p" 2>&1); rc=$?
  echo "== $p exit=$rc"
  echo "$out" | grep -E "^\s+src/|^\s+:0" | cut -c1-260 | head -8
done

#!/bin/bash
# Records which rules of which checks report each seeded change (all 17 checks are run): seeded/CATCH_MATRIX.json.
# For round-3 seeds the list of reporting checks is also written into their meta.json (checks_that_report_it).
cd /verif
python3 - "$@" <<'PY'
import json, os, re, subprocess, sys
only = sys.argv[1:]
path = 'seeded/CATCH_MATRIX.json'
out = json.load(open(path)) if os.path.exists(path) else {}
for n in sorted(os.listdir('seeded')):
    d = 'seeded/' + n
    if not os.path.isdir(d) or n.startswith('equiv-') or n.startswith('limit-'):
        continue
    if only and n not in only:
        continue
    r = subprocess.run(['tools/try_patch_par.sh', d + '/patch.diff'], capture_output=True, text=True, env=dict(os.environ, WIDTH='400')).stdout
    cur = None
    res = {}
    for line in r.splitlines():
        mm = re.match(r'== (C\d\d) exit=(\d)', line)
        if mm:
            cur = mm.group(1)
            if mm.group(2) == '1':
                res[cur] = []
            continue
        mm = re.search(r'\[([A-Z0-9\-\*]+)\]', line)
        if mm and cur in res and mm.group(1) not in res[cur]:
            res[cur].append(mm.group(1))
    out[n] = res
    print(n, res, flush=True)
    if n.startswith('r3-'):
        m = json.load(open(d + '/meta.json'))
        m['checks_that_report_it'] = sorted(res)
        json.dump(m, open(d + '/meta.json', 'w'), indent=1)
    json.dump(out, open(path, 'w'), indent=1)
PY

#!/bin/bash
# Records which rules of which checks report each seeded change: seeded/CATCH_MATRIX.json
cd /verif
python3 - <<'PY'
import json, os, re, subprocess
out = {}
for n in sorted(os.listdir('seeded')):
    d = 'seeded/' + n
    if not os.path.isdir(d) or n.startswith('equiv-'):
        continue
    m = json.load(open(d + '/meta.json'))
    by = m.get('checks_that_report_it') or m.get('confirmed_by_me', {}).get('checks_that_report_it') or []
    r = subprocess.run(['tools/try_patch_par.sh', d + '/patch.diff'] + by, capture_output=True, text=True).stdout
    cur = None
    res = {}
    for line in r.splitlines():
        mm = re.match(r'== (C\d\d) exit=(\d)', line)
        if mm:
            cur = mm.group(1)
            res[cur] = {'exit': int(mm.group(2)), 'rules': []}
            continue
        mm = re.search(r'\[([A-Z0-9\-]+)\]', line)
        if mm and cur and mm.group(1) not in res[cur]['rules']:
            res[cur]['rules'].append(mm.group(1))
    out[n] = res
    print(n, {k: v['rules'] for k, v in res.items()})
json.dump(out, open('seeded/CATCH_MATRIX.json', 'w'), indent=1)
PY

#!/bin/bash
# Both-directions validation of the checkers against everything under /verif/seeded:
#  - mutants (patch breaks a property): every check listed in meta.json must exit 1
#  - equiv-* (behaviour-preserving): every check must exit 0
# usage: tools/selftest.sh [seed-dir-name ...]    (default: all)
cd /verif
ALL="C02 C03 C04 C05 C06 C07 C08 C09 C10 C11 C12 C13 C14 C15 C16 C17 C18"
NAMES="$@"; [ -z "$NAMES" ] && NAMES=$(ls seeded)
fail=0
for n in $NAMES; do
  d=seeded/$n
  [ -d "$d" ] || continue
  [[ $n == limit-* ]] && { echo "skip $n (recorded limitation, see DESIGN.md 8.9)"; continue; }
  if [[ $n == equiv-* ]]; then want=0; props="$ALL"; else
    want=1; props=$(python3 -c "
import json,sys
m=json.load(open('$d/meta.json'))
by=m.get('checks_that_report_it') or m.get('confirmed_by_me',{}).get('checks_that_report_it') or []
print(' '.join(by))"); fi
  res=$(tools/try_patch_par.sh $d/patch.diff $props 2>&1 | grep "^== ")
  bad=$(echo "$res" | grep -v "exit=$want" | tr '\n' ' ')
  if [ -n "$bad" ]; then echo "SELFTEST-FAIL $n (want exit=$want): $bad"; fail=1; else echo "ok $n ($(echo "$res" | wc -l) checks, all exit=$want)"; fi
done
exit $fail

#!/bin/bash
# usage: tools/scratch_check.sh <scratch repo dir> [<prop>...]  -- run the quick checks against a scratch copy (no evidence written)
D=$(realpath "$1"); shift
PROPS="$@"; [ -z "$PROPS" ] && PROPS="C02 C03 C04 C05 C06 C07 C08 C09 C10 C11 C12 C13 C14 C15 C16 C17 C18"
cd /verif
T=$(mktemp -d)
first=$(echo $PROPS | awk '{print $1}')
VERIF_REPO=$D VERIF_DRYRUN=1 python3 -m sa.cli $first --tier quick > $T/$first.out 2>&1; echo $? > $T/$first.rc
for p in $PROPS; do
  [ $p = $first ] && continue
  ( VERIF_REPO=$D VERIF_DRYRUN=1 python3 -m sa.cli $p --tier quick > $T/$p.out 2>&1; echo $? > $T/$p.rc ) &
done
wait
for p in $PROPS; do
  echo "== $p exit=$(cat $T/$p.rc)"
  grep -E "^\s+src/|^\s+:0" $T/$p.out | cut -c1-${WIDTH:-260} | head -${HEAD:-8}
done
rm -rf $T

#!/bin/bash
# usage: tools/eval_seed.sh <seed-dir containing patch.diff demo.rs meta.json> <out-id> [props...]
# 1. confirms in a scratch worktree: patch applies, crate builds, existing suite passes with the patch,
#    demo fails with the patch and passes without it
# 2. runs the given checks (default: all) against /repo with the patch applied, then reverts /repo
SD=$(realpath "$1"); ID="$2"; shift 2
W=$(mktemp -d /tmp/seedeval.XXXX)
git -C /repo worktree add -q --detach "$W/wt" HEAD || exit 2
cleanup() { git -C /repo worktree remove --force "$W/wt" 2>/dev/null; rm -rf "$W"; git -C /repo checkout -q -- . ; }
trap cleanup EXIT
cd "$W/wt"
export CARGO_TARGET_DIR="$W/target" CARGO_NET_OFFLINE=true
cp "$SD/demo.rs" tests/seed_demo.rs
echo "--- demo on unmodified tree (must pass)"
cargo test --offline --test seed_demo 2>&1 | grep -E "^test result|error(\[|:)" | head -3
git apply "$SD/patch.diff" || { echo "PATCH DOES NOT APPLY"; exit 3; }
echo "--- demo with patch (must fail)"
cargo test --offline --test seed_demo 2>&1 | grep -E "^test result|error(\[|:)" | head -3
rm tests/seed_demo.rs
echo "--- existing suite with patch (must pass)"
cargo test --workspace --no-fail-fast --offline 2>&1 | grep -E "^test result|error(\[|:)|FAILED" | head -8
cd /verif
git -C /repo diff --quiet || { echo "repo dirty"; exit 2; }
git -C /repo apply "$SD/patch.diff" || exit 3
PROPS="$@"; [ -z "$PROPS" ] && PROPS="C02 C03 C04 C05 C06 C07 C08 C09 C10 C11 C12 C13 C14 C15 C16 C17 C18"
echo "--- checks with patch applied"
for p in $PROPS; do
  out=$(./check "$p" 2>&1); rc=$?
  echo "== $p exit=$rc"
  echo "$out" | grep -E "^\s+src/|^\s+:0" | cut -c1-300 | head -4
done

#!/usr/bin/env python3
"""Regenerate /verif/MANIFEST.json from the table below (claimed checks exist as sa/rules/cXX.py)."""
import json
import os

V = os.path.dirname(os.path.dirname(os.path.abspath(__file__)))
props = [json.loads(l) for l in open(os.path.join(V, "properties.jsonl"))]

CLAIMS = {
 "C05": dict(
  technique="abstract interpretation of MIR (path-sensitive value-range + typestate analysis), loop/recursion certificates",
  text="Static proof obligations: every panic edge of the MIR (overflow/bounds/div asserts, panicking callees, slice/index "
       "preconditions of reviewed std summaries) reachable from any public transport/util/reader entry point is enumerated and must be "
       "discharged by a path-sensitive value-range analysis under per-variant object invariants inferred as least fixpoints "
       "over all interface methods (Ok and Err exits alike); every loop needs a termination certificate; unknown external callees "
       "fail closed. Decides panic-, overflow-, abort- and hang-freedom for all streams, lengths, call orders and capacities. "
       "Not decided: termination when a caller-supplied byte source never ends.",
  note="A1 MIR faithful; A2 reviewed std/crc summaries; A3 64-bit, <2^56 counter updates (rule U for the usize byte counters); "
       "A4 caller-supplied iterators/readers return; A6 sealing; A7 derived impls. One reviewed panic (ArrayBuf::from_iter) outside the entry points.",
  ref="DESIGN.md §4 C05, §2.3-2.4"),
 "C06": dict(
  technique="abstract interpretation of MIR with function summaries and lifted preconditions; allocation-size and call-graph rules",
  text="Both parsers are analysed from complete::parse, Parser::new and Parser::next over an arbitrary input slice. Every parser function "
       "is summarised once per instance with symbolic arguments; obligations needing the caller's context are lifted and re-proved at each "
       "call site. All panic edges (overflow, bounds, unwrap, slice preconditions) must be discharged; every allocation request must be "
       "bounded by the length of an input slice argument (never a declared length); Vec::push only inside loops whose input provably "
       "shrinks; loops need termination certificates; the streaming parser's reachable call set must not touch alloc (thorough: the "
       "--no-default-features build contains the streaming parser and no allocating parser). Decides totality and input-proportional "
       "allocation requests for all byte strings; allocator success is assumed.",
  note="A1, A2, A3 (slices <= isize::MAX), A5 allocator, A7 derived impls; streaming-parser object invariant inferred per countdown class",
  ref="DESIGN.md §4 C06"),
}

NA = {
 "C01": "decode(encode(p)) = p for all p is an inductive statement about byte values flowing through two independently written state machines; "
        "no dataflow/typestate rule in reach decides it, and its structural necessary conditions are claimed under C02/C07/C08/C14/C16",
}

checks = []
for p in props:
    pid = p["id"]
    if pid in CLAIMS:
        c = CLAIMS[pid]
        checks.append({
            "property_id": pid,
            "quick_cmd": "./check %s --tier quick" % pid,
            "thorough_cmd": "./check %s --tier thorough" % pid,
            "evidence_file": "/verif/evidence/%s.json" % pid,
            "replay_cmd_template": "./check %s --tier quick  # re-evaluates the rule instance named in {path}" % pid,
            "engine": "sa",
            "level_claimed": {"category": "other", "text": c["text"], "design_ref": c["ref"]},
            "level_note": c["note"],
            "technique": c["technique"],
        })
na = []
for p in props:
    pid = p["id"]
    if pid not in CLAIMS:
        na.append({"property_id": pid, "reason": NA.get(pid, "check not built yet (framework under construction); see DESIGN.md")})

fixes = []
kf = json.load(open(os.path.join(V, "known_findings.json")))
for l in kf.get("fixed", []):
    parts = l.split()
    if len(parts) > 2 and parts[2] not in fixes:
        fixes.append(parts[2])

m = {
 "version": 1,
 "setup_cmd": "cd /verif/mirfacts && CARGO_NET_OFFLINE=true CARGO_TARGET_DIR=/verif/target cargo build --release --offline && cd /verif && python3 -m compileall -q sa",
 "hooks": {
  "guard": "sml_rs_verif",
  "enable": "none needed: the checks read the type-checked MIR of the unmodified build (static analysis); the guard name is reserved and unused",
  "baseline_off_cmd": "cd /repo && cargo test --workspace --no-fail-fast --offline",
  "source_commits": fixes,
  "add_only": True,
 },
 "engines": [
  {"name": "mirfacts", "path": "mirfacts/", "serves_properties": sorted(CLAIMS),
   "kind_free_text": "rustc_private driver (RUSTC_WORKSPACE_WRAPPER) dumping the type-checked MIR of /repo's working tree as JSON facts"},
  {"name": "sa", "path": "sa/", "serves_properties": sorted(CLAIMS),
   "kind_free_text": "Python static analyses over the MIR facts: call graph, dominators/path rules, parse-sequence and table extraction, "
                     "and a path-sensitive value-range/typestate abstract interpreter with linear facts (no solver, nothing is executed)"},
 ],
 "checks": checks,
 "not_applicable": na,
 "notes": "Technique family: static analysis only. source_commits lists the unguarded 'fix:' commits in /repo (no hooks exist). "
          "known_findings.json holds the fixed:/known entries.",
}
json.dump(m, open(os.path.join(V, "MANIFEST.json"), "w"), indent=1)
print("claimed", sorted(CLAIMS), "n/a", [x["property_id"] for x in na])

#!/usr/bin/env python3
"""Regenerate /verif/MANIFEST.json from the table below (claimed checks exist as sa/rules/cXX.py)."""
import json
import os

V = os.path.dirname(os.path.dirname(os.path.abspath(__file__)))
props = [json.loads(l) for l in open(os.path.join(V, "properties.jsonl"))]

CLAIMS = {
 "C05": dict(
  technique="abstract interpretation of MIR (path-sensitive value-range + typestate analysis), loop/recursion certificates",
  text="Static proof obligations: every panic edge of the MIR (overflow/bounds/div asserts, panicking callees, slice/index "
       "preconditions of reviewed std summaries) reachable from any public transport/util/reader entry point is enumerated and must be "
       "discharged by a path-sensitive value-range analysis under per-variant object invariants inferred as least fixpoints "
       "over all interface methods (Ok and Err exits alike); every loop needs a termination certificate; unknown external callees "
       "fail closed. Decides panic-, overflow-, abort- and hang-freedom for all streams, lengths, call orders and capacities. "
       "Not decided: termination when a caller-supplied byte source never ends.",
  note="A1 MIR faithful; A2 reviewed std/crc summaries; A3 64-bit: 64-bit counters of stateful objects are bounded by 2^62 in the object invariants, with the checked side "
       "condition R-C05-COUNTER (every method leaves such a field small or bounded by a pre-state field plus 2^16), and rule U for other usize counters; "
       "A4 caller-supplied iterators/readers return; A6 sealing; A7 derived impls. One reviewed panic (ArrayBuf::from_iter) outside the entry points.",
  ref="DESIGN.md §4 C05, §2.3-2.4"),
 "C06": dict(
  technique="abstract interpretation of MIR with function summaries and lifted preconditions; allocation-size and call-graph rules",
  text="Both parsers are analysed from complete::parse, Parser::new and Parser::next over an arbitrary input slice. Every parser function "
       "is summarised once per instance with symbolic arguments; obligations needing the caller's context are lifted and re-proved at each "
       "call site. All panic edges (overflow, bounds, unwrap, slice preconditions) must be discharged; every allocation request must be "
       "bounded by the length of an input slice argument (never a declared length); Vec::push only inside loops whose input provably "
       "shrinks; loops need termination certificates; the streaming parser's reachable call set must not touch alloc (thorough: the "
       "--no-default-features build contains the streaming parser and no allocating parser). Decides totality and input-proportional "
       "allocation requests for all byte strings; allocator success is assumed.",
  note="A1, A2, A3 (slices <= isize::MAX), A5 allocator, A7 derived impls; streaming-parser object invariant inferred per countdown class",
  ref="DESIGN.md §4 C06"),
 "C02": dict(
  technique="path-sensitive value-range analysis: validation-gate facts at the Done assignment, ghost CRC-feed counter, per-step push discipline (written ++ withheld zeros = withheld zeros ++ logical emission)",
  text="Validation-gate clause (a necessary condition of decoder soundness, not the whole behaviour): on every abstract path of push_byte, "
       "from every state of the inferred object invariant, the instant the Done state is written the path facts must entail: checksum read "
       "from payload[2..4] (little endian) equals the value finalised from the decoder's own digest; raw_msg_len % 4 == 0; pad <= 3; "
       "pad <= withheld zeros; payload[0] == 0x1a at step 3; none of these rests on an overflow check that fails statically. A ghost counter "
       "proves every frame byte is fed to the digest exactly once and the compare excludes exactly the 2 checksum bytes; Ok(true)/Done "
       "arise only through the gate. Push discipline: for every step of the decoder (data byte, escape run, aborted run, literal escape, realigned end, "
       "end, frame start) the bytes handed to the buffer followed by the zeros still withheld equal the zeros withheld before followed by the "
       "step's logical emission as run-length sequences with symbolic counts; the literal / restart / end / realign branches are taken only for "
       "their escape payloads; a frame start leaves an empty buffer. Not decided: the induction over a whole frame that turns the per-step "
       "equations into 'buffer = payload' (C01).",
  note="A1, A2 (crc summaries: finalize result is an uninterpreted value); facts are stated over values, not over source text",
  ref="DESIGN.md §4 C02"),
 "C08": dict(
  technique="transition-relation extraction by abstract interpretation, compared cell by cell with the KMP automaton",
  text="Structural clause: the LookingForMessageStart partition of push_byte is analysed once per matcher state n in 0..7 (concrete, so that "
       "table-driven or generically computed matchers evaluate) with a symbolic byte; its abstract paths are the extracted transition relation. For all 8 x 256 (n, b) pairs exactly one transition must be enabled and "
       "equal the KMP automaton of 1b1b1b1b01010101 including the discarded-byte increment n+1-n'; the hand-off state when the sequence "
       "completes must equal the in-frame restart state (fresh frame, 8 bytes pending as observed through reset()) and report the noise count. Not decided: delivery of the following frame (C01).",
  note="A1, A2; start sequence taken from the specification constant",
  ref="DESIGN.md §4 C08"),
 "C13": dict(
  technique="typestate analysis: absorbing-state check by re-running next() from abstract post-states; linear progress facts",
  text="The streaming parser's object invariant is inferred (partitioned by countdown class). For every abstract outcome of Iterator::next "
       "that returns None or Some(Err) the analysis runs next() again from the abstract post-state and requires None with an unchanged state "
       "(absorbing, hence None forever by induction); every Some(Ok) outcome must prove len(input') <= len(input) - 1. Holds for all inputs "
       "and any number of further calls.",
  note="A1, A2, A3, A7",
  ref="DESIGN.md §4 C13"),
 "C14": dict(
  technique="typestate analysis: abstract post-states compared field-wise with the abstract Default value; ghost CRC tracking",
  text="For every partition of the decoder's inferred invariant the abstract post-state of reset, finalize (what they report is C17's clause) and of every push_byte outcome "
       "class is compared field by field with the abstract value of Default::default(), and the buffer must have been cleared on the path. "
       "From Done the byte is processed by a decoder that was reset first. The CRC digest (the one field reset leaves alone) is dead in the "
       "idle state and every frame start re-initialises it and feeds it exactly the start sequence. State equality of a deterministic object "
       "is behavioural equality, so nothing is left undecided.",
  note="A1, A2, A6",
  ref="DESIGN.md §4 C14"),
 "C16": dict(
  technique="path-sensitive value-range analysis with per-path ghost logs of buffer writes; buffer-contract monitor",
  text="Structural clauses: zeros flushed on success = withheld - pad (linear fact), only zeros are flushed, a data byte is written after "
       "exactly the withheld zeros, at most 4 zeros are withheld (invariant), a failed buffer write - wherever it is issued - "
       "becomes Err(OutOfMemory) on every path and OutOfMemory is reported only then (no truncation), default buffer = ArrayBuf<8192>. "
       "Not decided: that capacity L always suffices for an L-byte payload (needs the reconstruction argument of C01).",
  note="A1, A2, A6; ArrayBuf exactness is C18",
  ref="DESIGN.md §4 C16"),
 "C17": dict(
  technique="linear-fact conservation check over typestate partitions with the pending count observed through reset() (observer abstraction); type-width table",
  text="The number of pending bytes of a decoder value is by definition what reset() would return on it (reset is run as a probe on abstract pre- and post-states, so "
       "which field holds the count in which state does not matter). For every abstract outcome of push_byte from every partition the analysis proves "
       "pending_before + 1 = reported + pending_after, 0 pending after a delivered or rejected frame, for a new decoder and after reset / finalize; finalize reports exactly "
       "the pending count and None iff it is 0; every counter, payload and return type on the way is usize and no reported value contains a truncated or wrapped "
       "intermediate. Not decided: which bytes belong to a delivered frame (C02/C01).",
  note="A1, A2, A3",
  ref="DESIGN.md §4 C17"),
 "C18": dict(
  technique="typestate invariant inference + effect summaries compared with a specification table; field-access and call-trace rules",
  text="ArrayBuf<N> is analysed for a symbolic capacity N. Its logical length is the length of the slice Deref::deref exposes (which must be "
       "buffer[0..len]); 0 <= len <= N is inferred and proved inductive; the abstract outcomes of push / extend_from_slice / truncate / clear / "
       "deref (result, written index or range and value, new length, as linear facts over N, len and the arguments) must equal the ideal bounded "
       "vector, with no write on failure; PartialEq/Debug go through the view only; FromIterator writes every fetched item once at the next free "
       "index (monitor); the Vec impl reserves (try_reserve of the right amount) before every write and returns Err untouched.",
  note="A1, A2, A3",
  ref="DESIGN.md §4 C18"),
 "C03": dict(
  technique="parse-sequence extraction by path-sensitive abstract interpretation with callee contracts, compared with specification tables",
  text="Grammar-shape clause: every struct / choice parser of both parsers is analysed path by path with its callee parsers replaced by the "
       "contract 'error, or value plus suffix of the input'; the success path's ordered parsed types, slice chaining and the binding of parsed "
       "values to result fields must equal a table transcribed from the SML specification (field order, types, optionality, arity, tag "
       "tables, the vendor time workaround); check_tlf acceptance sets are computed from the real bodies and compared as sets; Value/Status "
       "dispatch is decided for every (type, length) class with the real check_tlf bodies: parsed by the narrowest specified type whose "
       "acceptance box contains the class, bound into that type's variant, everything else TlfMismatch; Option<T> is None exactly for 0x01; "
       "the value list parses and pushes exactly tlf.len entries, each from the rest of the previous one (ghost counters in the abstract "
       "memory, any loop shape). Plus the value rules of C12.",
  note="A1, A2, A7; the callee contract is re-checked on the real bodies by R-C04-SUFFIX",
  ref="DESIGN.md §4 C03"),
 "C04": dict(
  technique="guard-before-use path rule, CRC/end-marker gates with byte ranges as linear facts, suffix contract via function summaries",
  text="Structural soundness clauses: every parse_with_tlf call (16 sites) is reached only on paths where check_tlf of the same type and TLF returned true, or "
       "whose path condition entails the type's real check_tlf body; both message parsers return data only on paths that establish parsed_crc == swap_bytes(checksum(bytes)) with bytes = [message "
       "start, checksum field start) proved as linear facts over slice offsets, after the end marker parser (which accepts exactly 0x00); "
       "leftover input is rejected; envelope must be List(6); every parser function returns a suffix of its input (proved from its summary). "
       "Not decided: equality with an independent reading of the grammar beyond the shape table of C03.",
  note="A1, A2 (checksum is an uninterpreted function of the byte range), A7",
  ref="DESIGN.md §4 C04"),
 "C07": dict(
  technique="path-sensitive analysis with a fallible abstract buffer and specification-side ghost counters in the abstract memory, dominance rules, congruence reasoning mod 4, state-table extraction",
  text="Structural clauses: encode() returns Err exactly on paths where a buffer write failed (no dropped result) and every write dominates the "
       "Ok return / lies on every loop cycle (with C18 this is 'out-of-memory exactly when the frame does not fit'); constants written by both "
       "encoders equal the Transport v1 constants; a ghost counter of consecutive 1b bytes written is exactly 4 at every inserted escape and in "
       "0..3 whenever the next payload byte is fetched, and every fetched byte is written exactly once; the last three writes are pad zeros, "
       "1b1b1b1b1a+pad and to_le_bytes of CRC_X25.checksum over the whole buffer, with pad in 0..3 and (length + pad) = 0 mod 4 decided from the "
       "definitions of % / & / wrapping operations; the iterator encoder's transition table is extracted from next() for every state value, its "
       "pad count (the byte emitted in End(5)) is 0 after new, drops by one mod 4 per data byte and equals the zeros fed at end of data; after the last byte next() returns None without touching state, CRC or inner "
       "iterator. Not decided: byte-for-byte equality of the two encoders and conformance of the emitted frame for all payloads.",
  note="A1, A2, A4, A6",
  ref="DESIGN.md §4 C07"),
 "C09": dict(
  technique="sibling cross-check of extracted parse sequences, tag tables, checksum ranges and countdown transitions",
  text="The two parser implementations are compared on extracted structure: message envelope sequences (complete = streaming start ++ "
       "[checksum, end marker]), body tag tables, GetListResponse = Start ++ list ++ End, shared field parsers are the same functions, both "
       "checksum gates cover the same byte range with the same callee chain and compare after both trailer parsers, corresponding rejections "
       "use the same error variants; the streaming countdown transitions extracted from parse_next realise n+2 / one entry per step / list "
       "end / trailer, with n the list TLF's length. Equality of produced values is inherited from the shared field parsers.",
  note="A1, A2, A7",
  ref="DESIGN.md §4 C09"),
 "C10": dict(
  technique="composition (FLOW) rules as value-identity facts on abstract paths with opaque components",
  text="Composition clauses: SmlReader::{read,next,read_nb,next_nb} call the decoder reader once and pass its result unmodified to parse_from, "
       "whose result is returned; the six adapters hand the decoded slice to complete::parse / Parser::new / identity without slicing and "
       "convert errors variant to variant with every payload field (the discarded-byte count survives); the slice source returns inner[idx] "
       "then idx+1 and Eof iff idx >= len, the iterator source one item per call; constructors wrap the given source untouched. "
       "Not decided: the end-to-end statement itself (needs C01/C03).",
  note="A1, A2, A4, A6",
  ref="DESIGN.md §4 C10"),
 "C11": dict(
  technique="typestate protocol monitor (ghost state in the abstract memory) over the four reader entry points with source and decoder as opaque components; classification tables by forcing each ErrorKind variant",
  text="Decoder-side obligations of the I/O-fault property, decided under a protocol monitor that follows every abstract path of read / next / "
       "read_nb / next_nb with private helpers inlined (so the layering does not matter): on a would-block source error no call receives the decoder, the count is the "
       "constant 0 and the error is forwarded; on EOF / other errors reset is called exactly once and its value reported; next() returns "
       "None exactly for EOF with count 0 and forwards everything else, the nb wrappers likewise; classification tables (io::ErrorKind, "
       "nb::Error, Eof, is_eof / is_would_block) equal the specified ones; IoByteSource reads via read_exact on a 1-byte buffer. With C14 and "
       "C17 (whose rules this check includes: the reported count is exact) nothing else is needed on the decoder side. Not decided: behaviour of the caller's io::Read.",
  note="A1, A2, A4 (std's read_exact retries Interrupted), A6; component contracts used by the monitor: reset() >= 1 after a push that answered Ok(false) (R-C17-CONSERVE), is_eof / is_would_block <=> kind (R-C11-KIND)",
  ref="DESIGN.md §4 C11"),
 "C12": dict(
  technique="value-range analysis of the primitive decoders: lossy-operation detection by operand ranges, dead-error rule, exhaustive byte tables by constant propagation",
  text="TLF lengths: every arithmetic step is value-exact or fails into an error (a truncating shift, wrap or narrowing cast whose operand "
       "range does not provably fit is reported), on every successful path the returned length equals the base-16 number of the low nibbles of all "
       "consumed bytes (specification-side ghost accumulator related to the parser's own variables by the loop invariant) minus the consumed "
       "byte count unless the type is a list, every TlfParseError variant that exists is reachable (a check that can never fail is a "
       "contradiction); type table and byte decomposition are compared over "
       "all 256 byte values; integers: for every type and admissible length, on parse_with_tlf itself with a symbolic input: exactly len bytes taken and the "
       "returned value proved equal to sum b_i * 256^(len-1-i), minus 2^(8 len) iff signed and b_0 >= 0x80 (linear arithmetic with exact wrap-around; the "
       "canonical fill-array + from_be_bytes construction is the accepted fallback); bool = byte != 0; octet string = take_n(len); take_* return exactly prefix and rest.",
  note="A1, A2, A3; integer exactness is an equation between symbolic expressions over the input bytes, not an evaluation of sample numbers",
  ref="DESIGN.md §4 C12"),
 "C15": dict(
  technique="faithful-driver rules: protocol monitor over ghost state (reader), value-identity facts on abstract paths (iterator, decode) plus CFG must-pass-through rules",
  text="decode, DecodeIterator::next and the four DecoderReader entry points (read / next / read_nb / next_nb, private helpers inlined) are analysed with the push decoder and the source as opaque components: every "
       "source byte is pushed unmodified exactly once, Err and Ok(true) are forwarded unmodified (whole buffer), an Err can never reach the "
       "next iteration unreported, end of input calls finalize / reset exactly once and forwards its report, the iterator is terminal "
       "afterwards; the decoder uses its buffer only through the sealed Buffer trait (whose implementations agree: the R-C18 rules are included), Deref and Default; the decoder's mutators are called from these drivers only. "
       "With C14, C17 and C18 the front-ends report the same sequence of results.",
  note="A1, A2, A4, A6",
  ref="DESIGN.md §4 C15"),
}

NA = {
 "C01": "decode(encode(p)) = p for all p is an inductive statement about byte values flowing through two independently written state machines; "
        "no dataflow/typestate rule in reach decides it, and its structural necessary conditions are claimed under C02/C07/C08/C14/C16",
}

checks = []
for p in props:
    pid = p["id"]
    if pid in CLAIMS:
        c = CLAIMS[pid]
        checks.append({
            "property_id": pid,
            "quick_cmd": "./check %s --tier quick" % pid,
            "thorough_cmd": "./check %s --tier thorough" % pid,
            "evidence_file": "/verif/evidence/%s.json" % pid,
            "replay_cmd_template": "./check %s --tier quick  # re-evaluates the rule instance named in {path}" % pid,
            "engine": "sa",
            "level_claimed": {"category": "other", "text": c["text"], "design_ref": c["ref"]},
            "level_note": c["note"],
            "technique": c["technique"],
        })
na = []
for p in props:
    pid = p["id"]
    if pid not in CLAIMS:
        na.append({"property_id": pid, "reason": NA.get(pid, "check not built yet (framework under construction); see DESIGN.md")})

fixes = []
kf = json.load(open(os.path.join(V, "known_findings.json")))
for l in kf.get("fixed", []):
    parts = l.split()
    if len(parts) > 2 and parts[2] not in fixes:
        fixes.append(parts[2])

m = {
 "version": 1,
 "setup_cmd": "cd /verif/mirfacts && CARGO_NET_OFFLINE=true CARGO_TARGET_DIR=/verif/target cargo build --release --offline && cd /verif && python3 -m compileall -q sa",
 "hooks": {
  "guard": "sml_rs_verif",
  "enable": "none needed: the checks read the type-checked MIR of the unmodified build (static analysis); the guard name is reserved and unused",
  "baseline_off_cmd": "cd /repo && cargo test --workspace --no-fail-fast --offline",
  "source_commits": fixes,
  "add_only": True,
 },
 "engines": [
  {"name": "mirfacts", "path": "mirfacts/", "serves_properties": sorted(CLAIMS),
   "kind_free_text": "rustc_private driver (RUSTC_WORKSPACE_WRAPPER) dumping the type-checked MIR of /repo's working tree as JSON facts"},
  {"name": "sa", "path": "sa/", "serves_properties": sorted(CLAIMS),
   "kind_free_text": "Python static analyses over the MIR facts: call graph, dominators/path rules, parse-sequence and table extraction, "
                     "and a path-sensitive value-range/typestate abstract interpreter with linear facts (no solver, nothing is executed)"},
 ],
 "checks": checks,
 "not_applicable": na,
 "notes": "Technique family: static analysis only. source_commits lists the unguarded 'fix:' commits in /repo (no hooks exist). "
          "known_findings.json holds the fixed:/known entries.",
}
json.dump(m, open(os.path.join(V, "MANIFEST.json"), "w"), indent=1)
print("claimed", sorted(CLAIMS), "n/a", [x["property_id"] for x in na])

#!/usr/bin/env python3
"""Regenerate /verif/MANIFEST.json from the table below (claimed checks exist as sa/rules/cXX.py)."""
import json
import os

V = os.path.dirname(os.path.dirname(os.path.abspath(__file__)))
props = [json.loads(l) for l in open(os.path.join(V, "properties.jsonl"))]

CLAIMS = {
 "C05": dict(
  technique="abstract interpretation of MIR (path-sensitive value-range + typestate analysis), loop/recursion certificates",
  text="Static proof obligations: every panic edge of the MIR (overflow/bounds/div asserts, panicking callees, slice/index "
       "preconditions of reviewed std summaries) reachable from any public transport/util/reader entry point is enumerated and must be "
       "discharged by a path-sensitive value-range analysis under per-variant object invariants inferred as least fixpoints "
       "over all interface methods (Ok and Err exits alike); every loop needs a termination certificate; unknown external callees "
       "fail closed. Decides panic-, overflow-, abort- and hang-freedom for all streams, lengths, call orders and capacities. "
       "Not decided: termination when a caller-supplied byte source never ends.",
  note="A1 MIR faithful; A2 reviewed std/crc summaries; A3 64-bit, <2^56 counter updates (rule U for the usize byte counters); "
       "A4 caller-supplied iterators/readers return; A6 sealing; A7 derived impls. One reviewed panic (ArrayBuf::from_iter) outside the entry points.",
  ref="DESIGN.md §4 C05, §2.3-2.4"),
 "C06": dict(
  technique="abstract interpretation of MIR with function summaries and lifted preconditions; allocation-size and call-graph rules",
  text="Both parsers are analysed from complete::parse, Parser::new and Parser::next over an arbitrary input slice. Every parser function "
       "is summarised once per instance with symbolic arguments; obligations needing the caller's context are lifted and re-proved at each "
       "call site. All panic edges (overflow, bounds, unwrap, slice preconditions) must be discharged; every allocation request must be "
       "bounded by the length of an input slice argument (never a declared length); Vec::push only inside loops whose input provably "
       "shrinks; loops need termination certificates; the streaming parser's reachable call set must not touch alloc (thorough: the "
       "--no-default-features build contains the streaming parser and no allocating parser). Decides totality and input-proportional "
       "allocation requests for all byte strings; allocator success is assumed.",
  note="A1, A2, A3 (slices <= isize::MAX), A5 allocator, A7 derived impls; streaming-parser object invariant inferred per countdown class",
  ref="DESIGN.md §4 C06"),
 "C02": dict(
  technique="path-sensitive value-range analysis: validation-gate facts at the Done assignment, ghost CRC-feed counter",
  text="Validation-gate clause (a necessary condition of decoder soundness, not the whole behaviour): on every abstract path of push_byte, "
       "from every state of the inferred object invariant, the instant the Done state is written the path facts must entail: checksum read "
       "from payload[2..4] (little endian) equals the value finalised from the decoder's own digest; raw_msg_len % 4 == 0; pad <= 3; "
       "pad <= withheld zeros; payload[0] == 0x1a at step 3; none of these rests on an overflow check that fails statically. A ghost counter "
       "proves every frame byte is fed to the digest exactly once and the compare excludes exactly the 2 checksum bytes; Ok(true)/Done "
       "arise only through the gate. Not decided: that the buffer content equals the canonical payload (escape / zero-withholding reconstruction).",
  note="A1, A2 (crc summaries: finalize result is an uninterpreted value); facts are stated over values, not over source text",
  ref="DESIGN.md §4 C02"),
 "C08": dict(
  technique="transition-relation extraction by abstract interpretation, compared cell by cell with the KMP automaton",
  text="Structural clause: the LookingForMessageStart partition of push_byte is analysed with symbolic matcher state n in [0,7] and symbolic "
       "byte; its abstract paths are the extracted transition relation. For all 8 x 256 (n, b) pairs exactly one transition must be enabled and "
       "equal the KMP automaton of 1b1b1b1b01010101 including the discarded-byte increment n+1-n'; the hand-off state when the sequence "
       "completes must equal the in-frame restart state (fresh frame) and report the noise count. Not decided: delivery of the following frame (C01).",
  note="A1, A2; start sequence taken from the specification constant",
  ref="DESIGN.md §4 C08"),
 "C13": dict(
  technique="typestate analysis: absorbing-state check by re-running next() from abstract post-states; linear progress facts",
  text="The streaming parser's object invariant is inferred (partitioned by countdown class). For every abstract outcome of Iterator::next "
       "that returns None or Some(Err) the analysis runs next() again from the abstract post-state and requires None with an unchanged state "
       "(absorbing, hence None forever by induction); every Some(Ok) outcome must prove len(input') <= len(input) - 1. Holds for all inputs "
       "and any number of further calls.",
  note="A1, A2, A3, A7",
  ref="DESIGN.md §4 C13"),
 "C14": dict(
  technique="typestate analysis: abstract post-states compared field-wise with the abstract Default value; ghost CRC tracking",
  text="For every partition of the decoder's inferred invariant the abstract post-state of reset, finalize and of every push_byte outcome "
       "class is compared field by field with the abstract value of Default::default(), and the buffer must have been cleared on the path. "
       "From Done the byte is processed by a decoder that was reset first. The CRC digest (the one field reset leaves alone) is dead in the "
       "idle state and every frame start re-initialises it and feeds it exactly the start sequence. State equality of a deterministic object "
       "is behavioural equality, so nothing is left undecided.",
  note="A1, A2, A6",
  ref="DESIGN.md §4 C14"),
 "C16": dict(
  technique="path-sensitive value-range analysis with per-path ghost logs of buffer writes; who-may-call rule",
  text="Structural clauses: zeros flushed on success = withheld - pad (linear fact), only zeros are flushed, a data byte is written after "
       "exactly the withheld zeros, at most 4 zeros are withheld (invariant), the decoder core has one buffer-write site, a failed write "
       "becomes Err(OutOfMemory) on every path and OutOfMemory is reported only then (no truncation), default buffer = ArrayBuf<8192>. "
       "Not decided: that capacity L always suffices for an L-byte payload (needs the reconstruction argument of C01).",
  note="A1, A2, A6; ArrayBuf exactness is C18",
  ref="DESIGN.md §4 C16"),
 "C17": dict(
  technique="linear-fact conservation check over typestate partitions (incl. inferred relational invariant); type-width table",
  text="For every abstract outcome of push_byte from every partition the analysis proves pending_before + 1 = reported + pending_after "
       "(using the inferred relational invariant raw_msg_len = discarded + matched in the matcher state); finalize and reset report exactly "
       "the pending counter; every counter, payload and return type on the way is usize and no reported value contains a truncated or wrapped "
       "intermediate. Not decided: which bytes belong to a delivered frame (C02/C01).",
  note="A1, A2, A3",
  ref="DESIGN.md §4 C17"),
 "C18": dict(
  technique="typestate invariant inference + effect summaries compared with a specification table; field-access and call-trace rules",
  text="ArrayBuf<N> is analysed for a symbolic capacity N: num_elements <= N is inferred and proved inductive; the abstract outcomes of "
       "push / extend_from_slice / truncate / clear / deref (result, written index or range and value, new length, as linear facts over N, "
       "the length and the arguments) must equal the ideal bounded vector, with no write on failure; PartialEq/Debug go through Deref only; "
       "FromIterator pushes each item once; the Vec impl reserves (try_reserve of the right amount) before every write and returns Err untouched.",
  note="A1, A2, A3",
  ref="DESIGN.md §4 C18"),
}

NA = {
 "C01": "decode(encode(p)) = p for all p is an inductive statement about byte values flowing through two independently written state machines; "
        "no dataflow/typestate rule in reach decides it, and its structural necessary conditions are claimed under C02/C07/C08/C14/C16",
}

checks = []
for p in props:
    pid = p["id"]
    if pid in CLAIMS:
        c = CLAIMS[pid]
        checks.append({
            "property_id": pid,
            "quick_cmd": "./check %s --tier quick" % pid,
            "thorough_cmd": "./check %s --tier thorough" % pid,
            "evidence_file": "/verif/evidence/%s.json" % pid,
            "replay_cmd_template": "./check %s --tier quick  # re-evaluates the rule instance named in {path}" % pid,
            "engine": "sa",
            "level_claimed": {"category": "other", "text": c["text"], "design_ref": c["ref"]},
            "level_note": c["note"],
            "technique": c["technique"],
        })
na = []
for p in props:
    pid = p["id"]
    if pid not in CLAIMS:
        na.append({"property_id": pid, "reason": NA.get(pid, "check not built yet (framework under construction); see DESIGN.md")})

fixes = []
kf = json.load(open(os.path.join(V, "known_findings.json")))
for l in kf.get("fixed", []):
    parts = l.split()
    if len(parts) > 2 and parts[2] not in fixes:
        fixes.append(parts[2])

m = {
 "version": 1,
 "setup_cmd": "cd /verif/mirfacts && CARGO_NET_OFFLINE=true CARGO_TARGET_DIR=/verif/target cargo build --release --offline && cd /verif && python3 -m compileall -q sa",
 "hooks": {
  "guard": "sml_rs_verif",
  "enable": "none needed: the checks read the type-checked MIR of the unmodified build (static analysis); the guard name is reserved and unused",
  "baseline_off_cmd": "cd /repo && cargo test --workspace --no-fail-fast --offline",
  "source_commits": fixes,
  "add_only": True,
 },
 "engines": [
  {"name": "mirfacts", "path": "mirfacts/", "serves_properties": sorted(CLAIMS),
   "kind_free_text": "rustc_private driver (RUSTC_WORKSPACE_WRAPPER) dumping the type-checked MIR of /repo's working tree as JSON facts"},
  {"name": "sa", "path": "sa/", "serves_properties": sorted(CLAIMS),
   "kind_free_text": "Python static analyses over the MIR facts: call graph, dominators/path rules, parse-sequence and table extraction, "
                     "and a path-sensitive value-range/typestate abstract interpreter with linear facts (no solver, nothing is executed)"},
 ],
 "checks": checks,
 "not_applicable": na,
 "notes": "Technique family: static analysis only. source_commits lists the unguarded 'fix:' commits in /repo (no hooks exist). "
          "known_findings.json holds the fixed:/known entries.",
}
json.dump(m, open(os.path.join(V, "MANIFEST.json"), "w"), indent=1)
print("claimed", sorted(CLAIMS), "n/a", [x["property_id"] for x in na])
